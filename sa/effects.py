"""E1 -- interprocedural storage-ownership / effect analysis.

Abstract value of an expression: (id, content, kind).  `id` and `content` are sets of *roots*.  Roots name where an object
may come from in terms of the analysed function: 'P:x' the object passed as parameter x, 'P:x.*' anything reachable from it
(fields, elements, views of its storage), 'F:v' / 'F:v.*' a variable captured from the enclosing function, 'G:m.g' a module
global.  The empty set means FRESH (created during this call).  `id` = which caller-visible objects this value *is or
views*; `content` = which caller-visible *mutable* objects the things stored inside it may be (a fresh list holding input
tensors has id = {} and content = {input roots}).  `kind` is a coarse type from annotations/constructors (sa/types.py);
immutable values (numbers, strings, frozen dataclasses, tuples of those) carry no roots at all, dict keys and set elements
(hashable, hence immutable) contribute nothing to `content`.

Per function a forward, flow-sensitive dataflow over the CFG (strong updates on local names, union at joins) computes the
state at every statement; write events (in-place tensor op, out=, subscript / attribute store, del, container mutator,
augmented assignment on a non-scalar) are recorded against the roots of the written object.  Function summaries
(writes per root, roots of the return value per tuple component, content growth of parameters) are iterated to a fixed
point over the call graph; calls of function-valued parameters are bound to the lambdas / nested functions passed at the
call sites of the enclosing function (closed world over fggs/ and bin/).  Method calls are dispatched through the
receiver's kind; only receivers of unknown kind fall back to name-based class-hierarchy analysis.

Trusted tables (DESIGN.md section 2): VIEW_METHODS (closed list of view-producing operations), the naming convention
"trailing underscore = in place", torch functional operations return fresh tensors, torch_semiring_einsum neither
mutates nor aliases its inputs.
"""
from __future__ import annotations
import ast
from dataclasses import dataclass, field
from typing import Any, Dict, FrozenSet, List, Optional, Set, Tuple
from .model import Program, FuncInfo, ClassInfo, own_nodes, norm, names_in, attr_chain
from .cfg import cfg_of, CFG
from .callgraph import Resolver, Target
from .types import Types
from .util import bind_args, callee_last, parents

Roots = FrozenSet[str]
EMPTY: Roots = frozenset()

VIEW_METHODS = {'t', 'view', 'view_as', 'reshape', 'expand', 'expand_as', 'permute', 'transpose', 'movedim', 'squeeze', 'unsqueeze',
                'flatten', 'diagonal', 'as_strided', 'detach', 'unbind', 'narrow', 'select', 'contiguous', 'real', 'chunk', 'split', 'unfold'}
ELEMENT_METHODS = {'values', 'keys', 'items', 'get', 'setdefault', 'pop', 'popitem', '__getitem__', '__iter__', 'unbind', 'chunk', 'split', 'copy'}
VIEW_ATTRS = {'T', 'mT', 'H', 'data', 'real', 'imag', 'grad', 'physical'}
VIEW_FUNCS = {'torch.as_strided', 'torch.as_tensor', 'torch.squeeze', 'torch.unsqueeze', 'torch.transpose', 'torch.movedim', 'torch.flatten',
              'torch.reshape', 'torch.broadcast_to', 'torch.unbind', 'torch.diagonal', 'cast', 'typing.cast', 'iter', 'next', 'reversed'}
CONTAINER_BUILDERS = {'list': 'list', 'dict': 'dict', 'set': 'set', 'tuple': 'tuple', 'frozenset': 'set', 'sorted': 'list', 'zip': 'list', 'enumerate': 'list',
                      'chain': 'list', 'map': 'list', 'filter': 'list', 'zip_longest': 'list', 'product': 'list', 'fromkeys': 'dict', 'from_iterable': 'list',
                      'reduce': None, 'sum': None, 'max': None, 'min': None, 'repeat': 'list', 'count': 'list'}
CONTAINER_MUTATORS = {'append', 'extend', 'insert', 'add', 'update', 'pop', 'remove', 'discard', 'clear', 'setdefault', 'sort', 'reverse', 'popitem'}
FRESH_SCALAR_METHODS = {'tolist', 'item', 'numel', 'size', 'dim', 'stride', 'storage_offset', 'is_contiguous', 'index', 'count', 'startswith', 'endswith',
                        'format', 'join', 'decode', 'isdisjoint', 'issuperset', 'issubset', 'lower', 'upper', 'strip'}
FRESH_METHODS = {'clone', 'to_dense', 'new_full', 'new_tensor', 'new_zeros', 'new_ones', 'new_empty'}
SCALAR_FUNCS = {'len', 'int', 'float', 'bool', 'str', 'repr', 'isinstance', 'hasattr', 'abs', 'round', 'range', 'ord', 'chr', 'divmod', 'hash', 'callable',
                'isnan', 'isinf', 'isfinite', 'log', 'exp', 'log1p', 'expm1', 'perf_counter_ns', 'print', 'warn', 'type', 'id', '_id', 'all', 'any'}
CONT_KINDS = ('dict', 'list', 'set', 'tuple')


def _parse(x: str):
    """'P:n' | 'P:n.*' | 'P:n.f' | 'P:n.f.*'  ->  (kind, name, field or None, deep)"""
    kind, rest = x.split(':', 1)
    deep = rest.endswith('.*')
    if deep:
        rest = rest[:-2]
    if kind == 'G':
        return kind, rest, None, deep
    name, _, fld = rest.partition('.')
    return kind, name, (fld or None), deep


def star(r: Roots) -> Roots:
    """Roots of what is reachable from objects with roots r: 'P:x' -> 'P:x.*', 'P:x.f' -> 'P:x.f.*'; deep roots stay."""
    return frozenset(x if x.endswith('.*') else x + '.*' for x in r)


def field_roots(r: Roots, f: str) -> Roots:
    """Roots of attribute f of objects with roots r: 'P:x' -> 'P:x.f'; 'P:x.g' -> 'P:x.g.*' (paths are cut at one attribute)."""
    out = set()
    for x in r:
        if x.endswith('.*'):
            out.add(x)
            continue
        kind, name, fld, _ = _parse(x)
        if kind == 'G' or fld is not None:
            out.add(x + '.*')
        else:
            out.add(f"{x}.{f}")
    return frozenset(out)


@dataclass(frozen=True)
class Val:
    id: Roots = EMPTY
    content: Roots = EMPTY
    kind: Optional[str] = None
    eimm: bool = False                      # container whose elements are immutable
    fn: Optional[Tuple] = None              # FuncInfo values (lambda / nested def / repo function)
    parts: Optional[Tuple["Val", ...]] = None
    fields: Optional[Tuple[Tuple[str, "Val"], ...]] = None   # per-attribute values of a fresh repo object built in this function

    @property
    def scalar(self) -> bool:
        return self.kind == 'imm'

    def field(self, name: str) -> Optional["Val"]:
        if self.fields is None:
            return None
        for k, v in self.fields:
            if k == name:
                return v
        return None

    def with_field(self, name: str, v: "Val") -> "Val":
        d = dict(self.fields or ())
        d[name] = v.flat()
        return Val(self.id, self.content, self.kind, self.eimm, self.fn, self.parts, tuple(sorted(d.items())))

    def flat(self) -> "Val":
        """Forget the per-field structure (merge it into content)."""
        if self.fields is None:
            return self
        c = self.content
        for _, v in self.fields:
            c = c | v.id | v.reach()
        return Val(self.id, c, self.kind, self.eimm, self.fn, self.parts, None)

    def join(self, o: "Val") -> "Val":
        parts = None
        if self.parts is not None and o.parts is not None and len(self.parts) == len(o.parts):
            parts = tuple(a.join(b) for a, b in zip(self.parts, o.parts))
        fn = None
        if self.fn or o.fn:
            fn = tuple(dict.fromkeys((self.fn or ()) + (o.fn or ())))
        k = self.kind if self.kind == o.kind else None
        if self.fields is not None and o.fields is not None:
            a, b = dict(self.fields), dict(o.fields)
            fl = tuple(sorted((n, (a[n].join(b[n]) if n in a and n in b else a.get(n, b.get(n)))) for n in set(a) | set(b)))
            return Val(self.id | o.id, self.content | o.content, k, self.eimm and o.eimm, fn, parts, fl)
        x, y = self.flat(), o.flat()
        return Val(x.id | y.id, x.content | y.content, k, x.eimm and y.eimm, fn, parts, None)

    def reach(self) -> Roots:
        """Roots of mutable things obtained by looking inside this value."""
        if self.kind == 'imm' or self.eimm:
            return EMPTY
        r = star(self.id) | self.content
        if self.fields is not None:
            for _, v in self.fields:
                r = r | v.id | v.reach()
        return r

    def all(self) -> Roots:
        if self.fields is not None:
            return self.id | self.reach()
        return self.id | self.content


FRESH = Val()
IMM = Val(kind='imm', eimm=True)


def mk(idr: Roots, content: Roots, kind: Optional[str] = None, eimm: bool = False, parts=None) -> Val:
    if kind == 'imm':
        return IMM
    if eimm:
        content = EMPTY
    return Val(idr, content, kind, eimm, None, parts)


@dataclass(frozen=True)
class Effect:
    root: str
    kind: str
    where: str
    loc: str
    text: str
    via: Tuple[str, ...] = ()


class EffectSet:
    """One representative per (root, where, loc): the call chain (`via`) is evidence, not identity."""
    def __init__(self):
        self.d: Dict[Tuple[str, str, str], Effect] = {}

    def add(self, e: Effect) -> None:
        k = (e.root, e.where, e.loc)
        old = self.d.get(k)
        if old is None or len(e.via) < len(old.via):
            self.d[k] = e

    def __iter__(self):
        return iter(self.d.values())

    def __len__(self):
        return len(self.d)


@dataclass
class Summary:
    writes: EffectSet = field(default_factory=EffectSet)
    ret: Val = FRESH
    growth: Dict[str, Roots] = field(default_factory=dict)
    sinks: List[Tuple[str, str, Roots, str]] = field(default_factory=list)

    def key(self):
        return (frozenset((e.root, e.where, e.loc) for e in self.writes), self.ret, tuple(sorted((k, tuple(sorted(v))) for k, v in self.growth.items())))


class Effects:
    def __init__(self, prog: Program):
        self.prog = prog
        self.res = Resolver(prog)
        self.types = Types(prog)
        self.summaries: Dict[FuncInfo, Summary] = {}
        self.fn_param_bindings: Dict[Tuple[str, str], List[FuncInfo]] = {}
        self.rounds = 0
        self.unresolved_calls = 0
        self._collect_fn_bindings()

    def _collect_fn_bindings(self) -> None:
        for f in self.prog.all_functions():
            for c in [x for x in own_nodes(f.node, into_lambdas=True) if isinstance(x, ast.Call)]:
                lam = [a for a in list(c.args) + [k.value for k in c.keywords] if isinstance(a, (ast.Lambda, ast.Name))]
                if not lam:
                    continue
                for t in self.res.resolve(f, c):
                    if t.func is None:
                        continue
                    b = bind_args(c, t.func, t.bound)
                    for p, a in b.items():
                        for g in self._fn_value(f, a):
                            lst = self.fn_param_bindings.setdefault((t.func.fq(), p), [])
                            if g not in lst:
                                lst.append(g)

    def _fn_value(self, f: FuncInfo, a: ast.AST) -> List[FuncInfo]:
        if isinstance(a, ast.Lambda):
            return [ch for ch in f.module.functions.values() if ch.node is a]
        if isinstance(a, ast.Name):
            r = self.prog.resolve_name(f, f.module, a.id)
            if r[0] == 'func':
                return [r[1]]
        return []

    def run(self, max_rounds: int = 14) -> None:
        funcs = list(self.prog.all_functions())
        for f in funcs:
            self.summaries[f] = Summary()
        for r in range(max_rounds):
            self.rounds = r + 1
            changed = False
            for f in funcs:
                new = self.analyse(f)
                if new.key() != self.summaries[f].key():
                    changed = True
                self.summaries[f] = new
            if not changed:
                break

    @staticmethod
    def _index_like_params(f: FuncInfo) -> Set[str]:
        """Unannotated parameters used as numbers: compared with a numeric constant, or used as a subscript index."""
        out: Set[str] = set()
        for n in own_nodes(f.node):
            if isinstance(n, ast.Compare) and isinstance(n.left, ast.Name) and len(n.comparators) == 1 and isinstance(n.comparators[0], ast.Constant) \
                    and isinstance(n.comparators[0].value, (int, float)) and not isinstance(n.comparators[0].value, bool):
                out.add(n.left.id)
            elif isinstance(n, ast.Subscript) and isinstance(n.slice, ast.Name):
                out.add(n.slice.id)
        return out

    def initial_env(self, f: FuncInfo) -> Dict[str, Val]:
        env: Dict[str, Val] = {}
        a = f.node.args
        numeric = self._index_like_params(f)
        for p in f.param_names():
            k, eimm = self.types.param_kind(f, p)
            if a.vararg and p == a.vararg.arg:
                ek, _ = self.types.ann_kind(a.vararg.annotation)
                env[p] = mk(EMPTY, frozenset({f"P:{p}.*"}), 'tuple', ek == 'imm')
                continue
            if a.kwarg and p == a.kwarg.arg:
                # **kwargs is a new dict built for this call from the caller's keyword arguments
                env[p] = mk(EMPTY, frozenset({f"P:{p}.*"}), 'dict', False)
                continue
            if k == 'imm' or (k is None and f.param_annotation(p) is None and p in numeric and p != f.self_name()):
                env[p] = IMM
            else:
                env[p] = mk(frozenset({f"P:{p}"}), frozenset({f"P:{p}.*"}), k, eimm)
        return env

    def analyse(self, f: FuncInfo) -> Summary:
        cfg = cfg_of(f)
        S = Summary()
        state: Dict[int, Dict[str, Val]] = {cfg.entry: self.initial_env(f)}
        work = [cfg.entry]
        visits: Dict[int, int] = {}
        ctx = _Ctx(self, f, S)
        while work:
            n = work.pop()
            visits[n] = visits.get(n, 0) + 1
            if visits[n] > 40:
                continue
            out = ctx.transfer(cfg, n, dict(state.get(n, {})), record=False)
            for b, l in cfg.succ[n]:
                old = state.get(b)
                new = out if old is None else join_env(old, out)
                if old is None or new != old:
                    state[b] = new
                    work.append(b)
        ctx.ret = None
        for n in sorted(state):
            ctx.transfer(cfg, n, dict(state[n]), record=True)
        S.ret = ctx.ret if ctx.ret is not None else FRESH
        rk, re_ = self.types.ann_kind(f.node.returns) if isinstance(f.node, ast.FunctionDef) else (None, False)
        if rk == 'imm':
            S.ret = IMM
        elif rk is not None and S.ret.kind is None and S.ret.parts is None:
            S.ret = mk(S.ret.id, S.ret.content, rk, re_)
        return S


def join_env(a: Dict[str, Val], b: Dict[str, Val]) -> Dict[str, Val]:
    out = dict(a)
    for k, v in b.items():
        out[k] = out[k].join(v) if k in out else v
    return out


class _Ctx:
    def __init__(self, eng: Effects, f: FuncInfo, S: Summary):
        self.eng, self.f, self.S = eng, f, S
        self.prog = eng.prog
        self.types = eng.types
        self.ret: Optional[Val] = None
        self.locals = self.prog.local_names(f)
        self.pm = parents(f)

    # ------------------------------------------------------------------ recording
    def write(self, v: Val, kind: str, node: ast.AST, record: bool, deep: bool = False) -> None:
        if not record or v.kind == 'imm':
            return
        roots = v.reach() if deep else v.id
        loc = self.f.loc(node)
        text = norm(node)[:90]
        self.S.sinks.append((loc, text, roots, kind))
        for r in roots:
            self.S.writes.add(Effect(r, kind, self.f.fq(), loc, text))

    def grow(self, target: Val, added: Roots, env: Dict[str, Val], name: Optional[str], record: bool, fld: Optional[str] = None,
             owner_name: Optional[str] = None, owner_field: Optional[str] = None) -> None:
        """The object `target` now also holds objects with roots `added`.
        name: local name bound to the target (its content is updated in place);
        fld: the growth concerns attribute `fld` of the target (attribute store);
        owner_name/owner_field: the target is the value of env[owner_name].<owner_field> (a container held in a field of a local object)."""
        if not added or target.eimm or target.kind == 'imm':
            return
        if name is not None and name in env:
            v = env[name]
            if fld is not None and v.fields is not None:
                fv = v.field(fld) or FRESH
                env[name] = v.with_field(fld, Val(fv.id, fv.content | added, fv.kind, False, fv.fn, fv.parts))
            else:
                env[name] = Val(v.id, v.content | added, v.kind, v.eimm, v.fn, v.parts, v.fields)
        if owner_name is not None and owner_name in env and env[owner_name].fields is not None and owner_field is not None:
            v = env[owner_name]
            fv = v.field(owner_field) or FRESH
            env[owner_name] = v.with_field(owner_field, Val(fv.id, fv.content | added, fv.kind, False, fv.fn, fv.parts))
        if record:
            keys = field_roots(target.id, fld) if fld is not None else target.id
            for r in keys:
                self.S.growth[r] = self.S.growth.get(r, EMPTY) | added

    # ------------------------------------------------------------------ statements
    def transfer(self, cfg: CFG, n: int, env: Dict[str, Val], record: bool) -> Dict[str, Val]:
        nd = cfg.nodes[n]
        st = nd.stmt
        if st is None:
            return env
        k = nd.kind
        if k in ('test', 'assert'):
            self.ev(nd.expr, env, record)
            return env
        if k == 'for':
            it = self.ev(nd.expr, env, record)
            self.assign(st.target, self.element(it), env, record, st)
            return env
        if k == 'with':
            for item in st.items:
                v = self.ev(item.context_expr, env, record)
                if item.optional_vars is not None:
                    self.assign(item.optional_vars, v, env, record, st)
            return env
        if k == 'except':
            if st.name:
                env[st.name] = FRESH
            return env
        if k == 'return':
            if st.value is not None:
                v = self.ev(st.value, env, record)
                if record:
                    self.ret = v if self.ret is None else self.ret.join(v)
            return env
        if k == 'raise':
            if isinstance(st, ast.Raise) and st.exc is not None:
                self.ev(st.exc, env, record)
            return env
        if k in ('break', 'continue'):
            return env
        if isinstance(st, ast.Assign):
            v = self.ev(st.value, env, record)
            for t in st.targets:
                self.assign(t, v, env, record, st)
        elif isinstance(st, ast.AnnAssign):
            if st.value is not None:
                v = self.ev(st.value, env, record)
                ak, ae = self.types.ann_kind(st.annotation)
                if v.kind is None and ak is not None and v.parts is None:
                    v = mk(v.id, v.content, ak, ae)
                self.assign(st.target, v, env, record, st)
        elif isinstance(st, ast.AugAssign):
            cur = self.ev(_as_load(st.target), env, record)
            val = self.ev(st.value, env, record)
            if cur.kind == 'imm' or (cur.kind is None and not cur.id and not cur.content and val.kind == 'imm'):
                self.assign(st.target, IMM if cur.kind == 'imm' or isinstance(st.target, ast.Name) else cur, env, record, st, rebind_only=True)
            elif cur.kind == 'tuple':
                self.assign(st.target, mk(EMPTY, cur.content | val.content | val.reach(), 'tuple', cur.eimm and val.eimm), env, record, st, rebind_only=True)
            else:
                self.write(cur, 'augmented assignment', st, record)
                self.dunder_call(st, cur, val, env, record)
                if isinstance(st.target, ast.Name):
                    self.grow(cur, val.all(), env, st.target.id, record)
        elif isinstance(st, ast.Expr):
            self.ev(st.value, env, record)
        elif isinstance(st, ast.Delete):
            for t in st.targets:
                if isinstance(t, ast.Subscript):
                    owner = self.ev(t.value, env, record)
                    self.write(owner, 'del item', st, record)
                    self.special_method(owner, '__delitem__', [FRESH], st, env, record)
                elif isinstance(t, ast.Attribute):
                    self.write(self.ev(t.value, env, record), 'del attribute', st, record)
                elif isinstance(t, ast.Name):
                    env.pop(t.id, None)
        elif isinstance(st, (ast.FunctionDef, ast.AsyncFunctionDef)):
            g = next((c for c in self.f.children if c.node is st), None)
            env[st.name] = Val(fn=(g,)) if g is not None else FRESH
        return env

    def element(self, it: Val) -> Val:
        if it.kind == 'imm' or it.eimm:
            return IMM
        if it.kind and it.kind.startswith('obj:'):
            vk, ve, known = self.types.mapping_value_kind(it.kind)
            if known:
                return IMM        # iterating a mapping yields its keys (hashable)
        if it.parts is not None and it.parts:
            out = it.parts[0]
            for p in it.parts[1:]:
                out = out.join(p)
            return out
        r = it.reach()
        return mk(r, r, 'tensor' if it.kind == 'tensor' else None)

    def dunder_call(self, st: ast.AugAssign, cur: Val, val: Val, env, record: bool) -> None:
        name = {ast.Add: '__iadd__', ast.Sub: '__isub__', ast.Mult: '__imul__', ast.Div: '__itruediv__'}.get(type(st.op))
        if name:
            self.special_method(cur, name, [val], st, env, record, recv_name=st.target.id if isinstance(st.target, ast.Name) else None)

    def special_method(self, owner: Val, name: str, args: List[Val], node: ast.AST, env, record: bool, recv_name: Optional[str] = None) -> bool:
        if owner.kind in CONT_KINDS + ('tensor', 'imm'):
            return False
        ci = self.types.class_of(owner.kind)
        cands = [self.prog.find_method(ci, name)] if ci is not None else self.prog.methods_named(name)
        done = False
        for m in [c for c in cands if c is not None]:
            pos = m.positional_params()
            bound = {pos[0]: owner}
            for p, a in zip(pos[1:], args):
                bound[p] = a
            self.apply_summary(m, bound, node, env, record, {pos[0]: recv_name} if recv_name else {})
            done = True
        return done

    def assign(self, t: ast.AST, v: Val, env: Dict[str, Val], record: bool, st: ast.AST, rebind_only: bool = False) -> None:
        if isinstance(t, ast.Name):
            env[t.id] = v
        elif isinstance(t, (ast.Tuple, ast.List)):
            if v.parts is not None and len(v.parts) == len(t.elts) and not any(isinstance(e, ast.Starred) for e in t.elts):
                for e, pv in zip(t.elts, v.parts):
                    self.assign(e, pv, env, record, st)
            else:
                elem = self.element(v)
                for e in t.elts:
                    if isinstance(e, ast.Starred):
                        self.assign(e.value, mk(EMPTY, elem.all(), 'list', elem.kind == 'imm'), env, record, st)
                    else:
                        self.assign(e, elem, env, record, st)
        elif isinstance(t, ast.Attribute):
            owner = self.ev(t.value, env, record)
            has_setter = False
            if not rebind_only:
                self.write(owner, 'attribute store', st, record)
                has_setter = self.setter_call(t, owner, v, st, env, record)
            nm = t.value.id if isinstance(t.value, ast.Name) else None
            if nm is not None and nm in env and env[nm].fields is not None and not has_setter:
                env[nm] = env[nm].with_field(t.attr, v)          # strong update of a fresh local object's attribute
                if record:
                    for r in field_roots(owner.id, t.attr):
                        self.S.growth[r] = self.S.growth.get(r, EMPTY) | v.all()
            elif not has_setter:
                self.grow(owner, v.all(), env, nm, record, fld=t.attr)
        elif isinstance(t, ast.Subscript):
            owner = self.ev(t.value, env, record)
            self.ev(t.slice, env, record)
            self.write(owner, 'item store', st, record)
            handled = self.special_method(owner, '__setitem__', [FRESH, v], st, env, record,
                                          recv_name=t.value.id if isinstance(t.value, ast.Name) else None)
            nm = t.value.id if isinstance(t.value, ast.Name) else None
            on, of = (t.value.value.id, t.value.attr) if isinstance(t.value, ast.Attribute) and isinstance(t.value.value, ast.Name) else (None, None)
            if not (handled and owner.kind and owner.kind.startswith('obj:')):
                self.grow(owner, v.all(), env, nm, record, owner_name=on, owner_field=of)
        elif isinstance(t, ast.Starred):
            self.assign(t.value, v, env, record, st)

    def setter_call(self, t: ast.Attribute, owner: Val, v: Val, st, env, record) -> bool:
        if owner.kind in CONT_KINDS + ('tensor', 'imm'):
            return False
        ci = self.types.class_of(owner.kind)
        classes = [ci] if ci is not None else list(self.prog.all_classes())
        done = set()
        for c in classes:
            m = self.prog.find_setter(c, t.attr)
            if m is not None and m.fq() not in done:
                done.add(m.fq())
                pos = m.positional_params()
                nm = t.value.id if isinstance(t.value, ast.Name) else None
                self.apply_summary(m, {pos[0]: owner, **({pos[1]: v} if len(pos) > 1 else {})}, st, env, record, {pos[0]: nm} if nm else {})
        return bool(done) and ci is not None

    # ------------------------------------------------------------------ expressions
    def ev(self, e: Optional[ast.AST], env: Dict[str, Val], record: bool) -> Val:
        if e is None:
            return IMM
        if isinstance(e, ast.Constant):
            return IMM
        if isinstance(e, ast.JoinedStr):
            for v in e.values:
                if isinstance(v, ast.FormattedValue): self.ev(v.value, env, record)
            return IMM
        if isinstance(e, ast.Name):
            if e.id in env:
                return env[e.id]
            if e.id in self.locals:
                return FRESH
            return self.nonlocal_name(e.id)
        if isinstance(e, ast.Attribute):
            base = self.ev(e.value, env, record)
            if base.kind == 'imm':
                return IMM
            if base.fn and not base.id and not base.content:
                return FRESH
            cname = base.kind[4:] if base.kind and base.kind.startswith('obj:') else None
            k, eimm, known = self.types.attr_kind(e.attr, cname)
            if known and k == 'imm':
                return IMM
            fv = base.field(e.attr)
            if fv is not None:
                return fv
            below = base.content if not base.id else EMPTY   # a fresh object whose per-attribute structure is unknown
            if e.attr == 'physical':
                r = field_roots(base.id, e.attr) | below
                return mk(r, star(r), 'tensor')
            if base.kind == 'tensor' or (e.attr in VIEW_ATTRS and not known):
                if e.attr in ('shape', 'dtype', 'device', 'ndim', 'requires_grad', 'is_leaf'):
                    return IMM
                return mk(base.id, base.content, 'tensor')
            if e.attr in ('shape', 'dtype', 'device', 'ndim'):
                return IMM
            r = field_roots(base.id, e.attr) | below
            if base.fields is not None:
                # an attribute that the constructor did not set explicitly: anything the object holds
                r = r | base.reach()
            return mk(r, star(r), k if known else None, eimm if known else False)
        if isinstance(e, ast.Subscript):
            base = self.ev(e.value, env, record)
            self.ev(e.slice, env, record)
            if base.parts is not None and isinstance(e.slice, ast.Constant) and isinstance(e.slice.value, int) and -len(base.parts) <= e.slice.value < len(base.parts):
                return base.parts[e.slice.value]
            if base.kind == 'imm' or base.eimm:
                return IMM
            if base.kind == 'tensor':
                return mk(base.id, base.content, 'tensor')
            # obj[...] of a repo class: __getitem__ summary
            ci = self.types.class_of(base.kind)
            if ci is not None:
                m = self.prog.find_method(ci, '__getitem__')
                if m is not None:
                    pos = m.positional_params()
                    return self.apply_summary(m, {pos[0]: base}, e, env, record, {})
            r = base.reach()
            return mk(r, r)
        if isinstance(e, ast.Tuple):
            parts = tuple(self.ev(x.value if isinstance(x, ast.Starred) else x, env, record) for x in e.elts)
            c = frozenset().union(*[p.all() for p in parts]) if parts else EMPTY
            allimm = all(p.kind == 'imm' for p in parts)
            if allimm:
                return IMM
            return Val(EMPTY, c, 'tuple', False, None, parts)
        if isinstance(e, ast.List):
            parts = [self.ev(x.value if isinstance(x, ast.Starred) else x, env, record) for x in e.elts]
            c = frozenset().union(*[p.all() for p in parts]) if parts else EMPTY
            return mk(EMPTY, c, 'list', bool(parts) and all(p.kind == 'imm' for p in parts))
        if isinstance(e, ast.Set):
            for x in e.elts: self.ev(x, env, record)
            return mk(EMPTY, EMPTY, 'set', True)
        if isinstance(e, ast.Dict):
            for x in e.keys:
                if x is not None: self.ev(x, env, record)
            vs = [self.ev(x, env, record) for x in e.values]
            c = frozenset().union(*[p.all() for p in vs]) if vs else EMPTY
            return mk(EMPTY, c, 'dict', bool(vs) and all(p.kind == 'imm' for p in vs))
        if isinstance(e, (ast.ListComp, ast.SetComp, ast.GeneratorExp, ast.DictComp)):
            env2 = dict(env)
            for g in e.generators:
                it = self.ev(g.iter, env2, record)
                self.assign(g.target, self.element(it), env2, False, e)
                for c in g.ifs:
                    self.ev(c, env2, record)
            if isinstance(e, ast.DictComp):
                self.ev(e.key, env2, record)
                b = self.ev(e.value, env2, record)
                return mk(EMPTY, b.all(), 'dict', b.kind == 'imm')
            el = self.ev(e.elt, env2, record)
            if isinstance(e, ast.SetComp):
                return mk(EMPTY, EMPTY, 'set', True)
            return mk(EMPTY, el.all(), 'list', el.kind == 'imm')
        if isinstance(e, ast.BinOp):
            a, b = self.ev(e.left, env, record), self.ev(e.right, env, record)
            if a.kind == 'imm' and b.kind == 'imm':
                return IMM
            if isinstance(e.op, ast.Add) and (a.kind in ('tuple', 'list') or b.kind in ('tuple', 'list')):
                parts = None
                if a.parts is not None and b.parts is not None:
                    parts = a.parts + b.parts
                k = a.kind if a.kind in ('tuple', 'list') else b.kind
                return Val(EMPTY, a.content | b.content, k, (a.eimm or a.kind == 'imm') and (b.eimm or b.kind == 'imm'), None, parts)
            if isinstance(e.op, (ast.BitOr, ast.BitAnd, ast.Sub)) and (a.kind == 'set' or b.kind == 'set'):
                return mk(EMPTY, EMPTY, 'set', True)
            if isinstance(e.op, ast.Mod) and a.kind == 'imm':
                return IMM
            return mk(EMPTY, EMPTY, 'tensor' if 'tensor' in (a.kind, b.kind) else None)   # arithmetic yields a new object
        if isinstance(e, ast.UnaryOp):
            v = self.ev(e.operand, env, record)
            return IMM if v.kind == 'imm' or isinstance(e.op, ast.Not) else mk(EMPTY, EMPTY, v.kind if v.kind == 'tensor' else None)
        if isinstance(e, ast.BoolOp):
            vs = [self.ev(x, env, record) for x in e.values]
            out = vs[0]
            for v in vs[1:]:
                out = out.join(v)
            return out
        if isinstance(e, ast.Compare):
            self.ev(e.left, env, record)
            for c in e.comparators:
                self.ev(c, env, record)
            return IMM
        if isinstance(e, ast.IfExp):
            self.ev(e.test, env, record)
            return self.ev(e.body, env, record).join(self.ev(e.orelse, env, record))
        if isinstance(e, ast.Lambda):
            g = next((c for c in self.f.module.functions.values() if c.node is e), None)
            return Val(fn=(g,)) if g is not None else FRESH
        if isinstance(e, ast.Call):
            return self.call(e, env, record)
        if isinstance(e, ast.Starred):
            return self.ev(e.value, env, record)
        if isinstance(e, ast.NamedExpr):
            v = self.ev(e.value, env, record)
            self.assign(e.target, v, env, record, e)
            return v
        if isinstance(e, ast.Slice):
            for x in (e.lower, e.upper, e.step):
                self.ev(x, env, record)
            return IMM
        if isinstance(e, (ast.Yield, ast.YieldFrom, ast.Await)):
            if e.value is not None:
                v = self.ev(e.value, env, record)
                if record:
                    self.ret = v if self.ret is None else self.ret.join(v)
            return FRESH
        return FRESH

    def nonlocal_name(self, name: str) -> Val:
        g = self.f.parent
        while g is not None:
            if name in self.prog.local_names(g):
                for ch in g.children:
                    if not ch.is_lambda and ch.name == name:
                        return Val(fn=(ch,))
                k, eimm = (None, False)
                if name in g.param_names():
                    k, eimm = self.types.param_kind(g, name)
                if k == 'imm':
                    return IMM
                return mk(frozenset({f"F:{name}"}), frozenset({f"F:{name}.*"}), k, eimm)
            g = g.parent
        r = self.prog.resolve_global(self.f.module, name)
        if r is None:
            return IMM if name in ('True', 'False', 'None', 'inf', 'nan') else FRESH
        if r[0] == 'func':
            return Val(fn=(r[1],))
        if r[0] == 'global':
            m, gname = r[1]
            v = m.globals_assigned.get(gname)
            if isinstance(v, (ast.Dict, ast.List, ast.Set)):
                return mk(frozenset({f"G:{m.name}.{gname}"}), frozenset({f"G:{m.name}.{gname}.*"}))
            if isinstance(v, ast.Call) and isinstance(v.func, ast.Name) and self.prog.resolve_global(m, v.func.id) and self.prog.resolve_global(m, v.func.id)[0] == 'func':
                return mk(frozenset({f"G:{m.name}.{gname}"}), frozenset({f"G:{m.name}.{gname}.*"}))
            return IMM
        return IMM if r[0] in ('external',) and r[1] in ('math.inf', 'math.nan') else FRESH

    # ------------------------------------------------------------------ calls
    def call(self, e: ast.Call, env: Dict[str, Val], record: bool) -> Val:
        fn = e.func
        argv = [self.ev(a, env, record) for a in e.args]
        kwv = {k.arg: self.ev(k.value, env, record) for k in e.keywords}
        if 'out' in kwv:
            self.write(kwv['out'], 'out= argument', e, record)
        name = callee_last(e) or ''
        # ---- call of a function value held in a local / parameter
        if isinstance(fn, ast.Name) and (fn.id in env or fn.id in self.f.param_names() or (fn.id not in self.locals and self.nonlocal_name(fn.id).fn and self.prog.resolve_name(self.f, self.f.module, fn.id)[0] == 'func' and False)):
            fv = env.get(fn.id, FRESH)
            cands = list(fv.fn or ())
            if fn.id in self.f.param_names():
                cands += [g for g in self.eng.fn_param_bindings.get((self.f.fq(), fn.id), []) if g not in cands]
            out = None
            for g in cands:
                r = self.apply_closure(g, argv, kwv, e, env, record)
                out = r if out is None else out.join(r)
            if not cands:
                self.eng.unresolved_calls += 1
            return out or FRESH
        # ---- method call on a value
        if isinstance(fn, ast.Attribute):
            chain = attr_chain(fn.value)
            head_is_ns = False
            if chain and chain[0] not in env and chain[0] not in self.locals:
                r = self.prog.resolve_name(self.f, self.f.module, chain[0])
                head_is_ns = r[0] in ('module', 'external', 'builtin', 'class')
                if r[0] == 'builtin' and chain[0] not in ('object', 'super', 'dict', 'list', 'set', 'str', 'int', 'float', 'type', 'torch', 'math'):
                    head_is_ns = chain[0] not in self.f.param_names()
            is_super = isinstance(fn.value, ast.Call) and isinstance(fn.value.func, ast.Name) and fn.value.func.id == 'super'
            if not head_is_ns and not is_super:
                recv = self.ev(fn.value, env, record)
                return self.method_call(e, name, recv, argv, kwv, env, record)
        # ---- plain / module / class-qualified function
        targets = self.eng.res.resolve(self.f, e)
        ctors = [t for t in targets if t.ctor_of is not None]
        if ctors:
            return self.construct(ctors[0].ctor_of, e, argv, kwv, env, record)
        repo = [t for t in targets if t.func is not None and t.certain]
        out: Optional[Val] = None
        for t in repo:
            out = self._join(out, self.repo_call(t, None, e, argv, kwv, env, record))
        if not repo:
            out = self.external(e, name, None, argv, kwv, env, record)
        return out or FRESH

    def construct(self, ci: ClassInfo, e: ast.Call, argv: List[Val], kwv: Dict[str, Val], env, record: bool) -> Val:
        """Constructor call: a fresh object whose attributes hold what the constructor stores in them."""
        kind = f"obj:{ci.name}"
        frozen = ci.name in self.types.frozen
        init = self.prog.find_method(ci, '__init__')
        post = self.prog.find_method(ci, '__post_init__') if ci.is_dataclass else None
        obj = Val(kind=kind, fields=())
        selfname = None
        if init is not None:
            t = Target(init, bound=True, ctor_of=None)
            pos = init.positional_params()
            selfname = pos[0] if pos else None
            S = self.eng.summaries.get(init)
            # effects of __init__ on the arguments (self is the fresh object)
            self.repo_call(Target(init, bound=True), obj, e, argv, kwv, env, record)
            if S is not None and selfname is not None and not frozen:
                bound = self._bind_for(init, obj, e, argv, kwv)
                for key, added in S.growth.items():
                    kk, kn, fld, kdeep = _parse(key)
                    if kk == 'P' and kn == selfname and fld is not None and not kdeep:
                        mapped = frozenset().union(*[self.map_root(a, bound, None, env) for a in added]) if added else EMPTY
                        k, eimm, known = self.types.attr_kind(fld, ci.name)
                        obj = obj.with_field(fld, IMM if known and k == 'imm' else mk(mapped, mapped, k if known else None, eimm if known else False))
                # attributes assigned in __init__ to fresh values do not show up as growth: record them as fresh
                for n in own_nodes(init.node):
                    tgt = None
                    if isinstance(n, ast.Assign) and len(n.targets) == 1: tgt = n.targets[0]
                    elif isinstance(n, ast.AnnAssign): tgt = n.target
                    if isinstance(tgt, ast.Attribute) and isinstance(tgt.value, ast.Name) and tgt.value.id == selfname and obj.field(tgt.attr) is None:
                        k, eimm, known = self.types.attr_kind(tgt.attr, ci.name)
                        obj = obj.with_field(tgt.attr, IMM if known and k == 'imm' else mk(EMPTY, EMPTY, k if known else None, eimm if known else False))
        elif ci.is_dataclass:
            names: List[str] = []
            for c in reversed(self.prog.mro(ci)):
                for f in c.fields:
                    if f not in names: names.append(f)
            vals = dict(zip(names, argv))
            for k_, v in kwv.items():
                if k_ in names: vals[k_] = v
            for f in names:
                k, eimm, known = self.types.attr_kind(f, ci.name)
                v = vals.get(f)
                if known and k == 'imm':
                    obj = obj.with_field(f, IMM)
                elif v is not None:
                    obj = obj.with_field(f, v if v.kind is not None or not known else Val(v.id, v.content, k, v.eimm or eimm, v.fn, v.parts, v.fields))
                else:
                    obj = obj.with_field(f, IMM if known and k == 'imm' else mk(EMPTY, EMPTY, k if known else None))
        if frozen:
            return IMM
        if post is not None:
            # __post_init__ may rebind attributes of self (views of what was passed): fold its growth into the fields
            pos = post.positional_params()
            S = self.eng.summaries.get(post)
            if S is not None and pos:
                bound = {pos[0]: obj}
                self.apply_summary(post, bound, e, env, False, {})
                for key, added in S.growth.items():
                    kk, kn, fld, kdeep = _parse(key)
                    if kk == 'P' and kn == pos[0] and fld is not None and not kdeep:
                        mapped = frozenset().union(*[self.map_root(a, bound, None, env) for a in added]) if added else EMPTY
                        fv = obj.field(fld) or FRESH
                        if fv.kind != 'imm':
                            obj = obj.with_field(fld, Val(fv.id | mapped, fv.content | mapped, fv.kind, False, fv.fn, fv.parts))
        return obj

    def _bind_for(self, g: FuncInfo, recv: Val, e: ast.Call, argv: List[Val], kwv: Dict[str, Val]) -> Dict[str, Val]:
        pos = g.positional_params()
        bound: Dict[str, Val] = {}
        if pos:
            bound[pos[0]] = recv
        for p, a in zip(pos[1:], argv):
            bound[p] = a
        for k_, v in kwv.items():
            if k_ and k_ in g.param_names():
                bound[k_] = v
        return bound

    @staticmethod
    def _join(a: Optional[Val], b: Val) -> Val:
        return b if a is None else a.join(b)

    def method_call(self, e: ast.Call, name: str, recv: Val, argv, kwv, env, record: bool) -> Val:
        k = recv.kind
        if recv.fn and not recv.id and not recv.content and k is None:
            return FRESH
        cands: List[FuncInfo] = []
        use_ext = True
        if k in CONT_KINDS or k == 'tensor':
            pass
        elif k and k.startswith('obj:'):
            ci = self.types.class_of(k)
            if ci is not None:
                seen = set()
                for c in [ci] + self.prog.subclasses(ci, strict=True):
                    m = self.prog.find_method(c, name)
                    if m is not None and m.fq() not in seen:
                        seen.add(m.fq()); cands.append(m)
                if cands:
                    use_ext = False
                    if name == 'apply':
                        use_ext = False
        else:
            ms = self.prog.methods_named(name)
            if k == 'imm':
                ms = [m for m in ms if m.cls is not None and m.cls.name in self.types.frozen]
            cands = [m for m in ms if not m.is_property and self.arity_ok(m, len(argv), set(k for k in kwv if k))]
        out: Optional[Val] = None
        for m in cands:
            t = Target(m, bound=True, certain=(not use_ext))
            out = self._join(out, self.repo_call(t, recv, e, argv, kwv, env, record))
        if use_ext:
            out = self._join(out, self.external(e, name, recv, argv, kwv, env, record))
        return out or FRESH

    @staticmethod
    def arity_ok(m: FuncInfo, npos: int, kws: Set[str]) -> bool:
        a = m.node.args
        pos = m.positional_params()
        if m.is_method and not m.is_static:
            pos = pos[1:]
        if not set(kws) <= set(m.param_names()) and not a.kwarg:
            return False
        if npos > len(pos) and not a.vararg:
            return False
        ndef = len(a.defaults)
        required = [p for p in pos[:len(pos) - ndef]] if ndef <= len(pos) else []
        missing = [p for p in required[npos:] if p not in kws]
        return not missing

    def repo_call(self, t: Target, recv: Optional[Val], e: ast.Call, argv: List[Val], kwv: Dict[str, Val], env, record: bool) -> Val:
        g = t.func
        pos = g.positional_params()
        bound: Dict[str, Val] = {}
        fn = e.func
        if t.ctor_of is not None:
            if pos: bound[pos[0]] = FRESH
            params = pos[1:]
        elif recv is not None and g.is_method and not g.is_static:
            bound[pos[0]] = recv
            params = pos[1:]
        elif t.bound and g.is_static and g.name == 'forward':
            if pos: bound[pos[0]] = FRESH            # autograd context object created by torch
            params = pos[1:]
        elif t.bound and g.is_method and not g.is_static and recv is None:
            # super().m(...): receiver is the caller's self
            sn = self.f.self_name()
            g0 = self.f
            while sn is None and g0.parent is not None:
                g0 = g0.parent; sn = g0.self_name()
            bound[pos[0]] = env.get(sn, self.nonlocal_name(sn)) if sn else FRESH
            params = pos[1:]
        else:
            params = pos
        star_at = next((i for i, a in enumerate(e.args) if isinstance(a, ast.Starred)), None)
        plain = argv if star_at is None else argv[:star_at]
        for p, a in zip(params, plain):
            bound[p] = a
        rest = (argv[len(params):] if star_at is None else argv[star_at:])
        va = g.args.vararg.arg if g.args.vararg else None
        if rest:
            c = frozenset().union(*[x.reach() if isinstance(e.args[min(i + (star_at or len(params)), len(e.args) - 1)], ast.Starred) else x.all() for i, x in enumerate(rest)])
            if va:
                bound[va] = mk(EMPTY, c, 'tuple')
            elif star_at is not None:
                for p in params[star_at:]:
                    bound.setdefault(p, mk(c, c))
        for kname, v in kwv.items():
            if kname is None:
                # **mapping
                if g.args.kwarg:
                    kw = g.args.kwarg.arg
                    prev = bound.get(kw, mk(EMPTY, EMPTY, 'dict'))
                    bound[kw] = mk(prev.id, prev.content | v.reach(), 'dict')
                else:
                    for p in g.param_names():
                        bound.setdefault(p, self.element(v))
                continue
            if kname in g.param_names():
                bound[kname] = v
            elif g.args.kwarg:
                kw = g.args.kwarg.arg
                prev = bound.get(kw, mk(EMPTY, EMPTY, 'dict'))
                bound[kw] = mk(prev.id, prev.content | v.all(), 'dict')
        names: Dict[str, str] = {}
        for i, a in enumerate(e.args):
            if isinstance(a, ast.Name) and i < len(params):
                names[params[i]] = a.id
        if recv is not None and isinstance(fn, ast.Attribute) and isinstance(fn.value, ast.Name) and pos:
            names[pos[0]] = fn.value.id
        r = self.apply_summary(g, bound, e, env, record, names)
        if t.ctor_of is not None:
            ci = t.ctor_of
            if ci.name in self.types.frozen:
                return IMM
            c = EMPTY
            for p, v in bound.items():
                if pos and p == pos[0]:
                    continue
                pk, _ = self.types.param_kind(g, p)
                if pk == 'imm':
                    continue
                c = c | v.all()
            return mk(EMPTY, c, f"obj:{ci.name}")
        return r

    def apply_closure(self, g: FuncInfo, argv: List[Val], kwv: Dict[str, Val], e: ast.Call, env, record: bool) -> Val:
        pos = g.positional_params()
        bound = {p: a for p, a in zip(pos, argv)}
        for k, v in kwv.items():
            if k in g.param_names(): bound[k] = v
        return self.apply_summary(g, bound, e, env, record, {}, closure_env=env if g.parent is self.f else None)

    def map_root(self, r: str, bound: Dict[str, Val], closure_env: Optional[Dict[str, Val]], env: Dict[str, Val]) -> Roots:
        kind, name, fld, deep = _parse(r)
        if kind == 'G':
            return frozenset({r})
        if kind == 'P':
            v = bound.get(name)
            if v is None:
                return EMPTY
            return self._select(v, deep, fld)
        if kind == 'F':
            v = None
            if closure_env is not None and name in closure_env:
                v = closure_env[name]
            elif name in env and name in self.locals:
                v = env[name]
            elif name in self.locals:
                v = FRESH
            else:
                return frozenset({r})      # captured from a function further out: stays a free variable of the caller
            return self._select(v, deep, fld)
        return frozenset({r})

    @staticmethod
    def _select(v: Val, deep: bool, fld: Optional[str]) -> Roots:
        """Caller roots denoted by a callee root on parameter value v:  v itself / below v / the object in v.fld / below v.fld."""
        if v.kind == 'imm':
            return EMPTY
        if fld is None:
            return v.reach() if deep else v.id
        fv = v.field(fld)
        if fv is not None:
            return (star(fv.id) | fv.reach()) if deep else fv.id
        base = field_roots(v.id, fld)
        out = star(base) if deep else base
        if not v.id:
            out = out | v.content            # a fresh object whose per-attribute structure is unknown
        if v.fields is not None:
            out = out | v.reach()
        return out

    def apply_summary(self, g: FuncInfo, bound: Dict[str, Val], node: ast.AST, env: Dict[str, Val], record: bool, argnames: Dict[str, str],
                      closure_env: Optional[Dict[str, Val]] = None) -> Val:
        S = self.eng.summaries.get(g)
        if S is None:
            return FRESH
        if record:
            here = f"{self.f.fq()}@{self.f.loc(node)}"
            for ef in S.writes:
                for r in self.map_root(ef.root, bound, closure_env, env):
                    self.S.writes.add(Effect(r, ef.kind, ef.where, ef.loc, ef.text, (here,) + ef.via[:7]))
        for root, added in S.growth.items():
            mapped = frozenset().union(*[self.map_root(a, bound, closure_env, env) for a in added]) if added else EMPTY
            if not mapped:
                continue
            kind, pname, fld, _deep = _parse(root)
            if kind == 'P' and pname in argnames and argnames[pname] in env:
                v = env[argnames[pname]]
                if not v.eimm and v.kind != 'imm':
                    if fld is not None and v.fields is not None:
                        fv = v.field(fld) or FRESH
                        env[argnames[pname]] = v.with_field(fld, Val(fv.id, fv.content | mapped, fv.kind, False, fv.fn, fv.parts))
                    else:
                        env[argnames[pname]] = Val(v.id, v.content | mapped, v.kind, v.eimm, v.fn, v.parts, v.fields)
            if record:
                for r in self.map_root(root, bound, closure_env, env):
                    self.S.growth[r] = self.S.growth.get(r, EMPTY) | mapped

        def mapv(v: Val) -> Val:
            if v.kind == 'imm':
                return IMM
            idr = frozenset().union(*[self.map_root(r, bound, closure_env, env) for r in v.id]) if v.id else EMPTY
            cr = frozenset().union(*[self.map_root(r, bound, closure_env, env) for r in v.content]) if v.content else EMPTY
            parts = tuple(mapv(p) for p in v.parts) if v.parts is not None else None
            fields = tuple((n, mapv(x)) for n, x in v.fields) if v.fields is not None else None
            return Val(idr, cr if not v.eimm else EMPTY, v.kind, v.eimm, v.fn, parts, fields)
        ret = S.ret
        if ret.fields is None and ret.parts is None and len(ret.id) == 1:
            r0 = next(iter(ret.id))
            if r0.startswith('P:') and '.' not in r0 and r0[2:] in bound and bound[r0[2:]].fields is not None:
                # the callee returns the very object it was given (`return self`): keep the caller's per-attribute view of it
                return bound[r0[2:]]
        return mapv(ret)

    def external(self, e: ast.Call, name: str, recv: Optional[Val], argv: List[Val], kwv: Dict[str, Val], env, record: bool) -> Val:
        dotted = '.'.join(attr_chain(e.func) or [name])
        allargs = argv + [v for v in kwv.values()]
        if recv is not None:
            if recv.kind == 'imm':
                return IMM
            if name.endswith('_') and not name.endswith('__') and len(name) > 1:
                self.write(recv, 'in-place method ' + name, e, record)
                return recv
            if name in CONTAINER_MUTATORS and recv.kind != 'tensor' and not (name == 'add' and len(argv) != 1) \
                    and not (recv.kind and recv.kind.startswith('obj:') and name in ('add', 'update', 'pop', 'remove', 'sort', 'reverse', 'insert', 'extend', 'append', 'discard') and self.types.mapping_value_kind(recv.kind)[2] is False):
                stmt_level = True
                if name == 'add' and len(argv) == 1 and recv.kind not in ('set',):
                    stmt_level = isinstance(self.pm.get(id(e)), ast.Expr)
                if name in ('pop',) and recv.kind == 'tensor':
                    stmt_level = False
                if stmt_level:
                    self.write(recv, 'container mutator ' + name, e, record)
                    added = frozenset().union(*[a.all() if name in ('append', 'add', 'insert', 'setdefault') else a.reach() | a.content for a in allargs]) if allargs else EMPTY
                    nm = e.func.value.id if isinstance(e.func, ast.Attribute) and isinstance(e.func.value, ast.Name) else None
                    fv_ = e.func.value if isinstance(e.func, ast.Attribute) else None
                    on, of = (fv_.value.id, fv_.attr) if isinstance(fv_, ast.Attribute) and isinstance(fv_.value, ast.Name) else (None, None)
                    self.grow(recv, added, env, nm, record, owner_name=on, owner_field=of)
                    if name in ('pop', 'setdefault', 'popitem'):
                        extra = argv[-1].all() if name == 'setdefault' and len(argv) > 1 else EMPTY
                        if recv.eimm: return IMM if not extra else mk(extra, extra)
                        r = recv.reach() | extra
                        return mk(r, r)
                    return IMM
                return mk(EMPTY, EMPTY, 'tensor' if recv.kind == 'tensor' else None)
            if name in ELEMENT_METHODS and recv.kind != 'tensor':
                if recv.eimm:
                    return mk(EMPTY, EMPTY, 'list', True)
                vk, ve, vknown = self.types.mapping_value_kind(recv.kind)
                if vknown and name in ('values', 'items', 'get', 'pop', 'setdefault'):
                    r = recv.reach()
                    gi = self.prog.find_method(self.types.class_of(recv.kind), '__getitem__')
                    if gi is not None:
                        gv = self.apply_summary(gi, {gi.positional_params()[0]: recv}, e, env, False, {})
                        r = gv.id | gv.reach()
                    ev_ = IMM if vk == 'imm' else mk(r, r, vk, ve)
                    if name == 'items':
                        return Val(EMPTY, r, 'list', False, None, None) if vk == 'imm' else Val(EMPTY, r, 'list', False, None, (Val(EMPTY, r, 'tuple', False, None, (IMM, ev_)),))
                    if name == 'values':
                        return Val(EMPTY, r, 'list', False, None, (ev_,))
                    return ev_
                r = recv.reach()
                if name == 'get' and len(argv) > 1:
                    r = r | argv[1].all()
                if name in ('values', 'keys', 'items', 'copy'):
                    if name == 'keys': return mk(EMPTY, EMPTY, 'list', True)
                    return mk(EMPTY, r, 'dict' if name == 'copy' and recv.kind == 'dict' else 'list' if name != 'copy' else recv.kind)
                return mk(r, r)
            if name in VIEW_METHODS or (name in ('__getitem__', 'unbind', 'chunk', 'split') and recv.kind == 'tensor'):
                return mk(recv.id, recv.content, recv.kind)
            if name in FRESH_SCALAR_METHODS:
                return IMM
            if name in FRESH_METHODS:
                return mk(EMPTY, EMPTY, 'tensor')
            # any other method of an external object: functional by the naming convention
            return mk(EMPTY, EMPTY, 'tensor' if recv.kind == 'tensor' else None)
        if dotted in VIEW_FUNCS or name == 'cast':
            src = argv[-1] if name == 'cast' and argv else (argv[0] if argv else FRESH)
            return src
        if name in CONTAINER_BUILDERS:
            c = frozenset().union(*[a.reach() | a.content for a in allargs]) if allargs else EMPTY
            eimm = bool(allargs) and all(a.kind == 'imm' or a.eimm for a in allargs)
            if name in ('set', 'frozenset'):
                return mk(EMPTY, EMPTY, 'set', True)
            if name in ('max', 'min', 'sum', 'reduce'):
                return IMM if eimm else mk(c, c)
            return mk(EMPTY, c, CONTAINER_BUILDERS[name], eimm or not allargs and False)
        if name in SCALAR_FUNCS:
            return IMM
        if name == 'deepcopy':
            return FRESH
        if name == 'copy' and len(argv) == 1:
            # copy.copy(x): a new object / container whose attributes and elements are those of x
            return Val(EMPTY, argv[0].reach(), argv[0].kind, argv[0].eimm)
        if name == 'getattr' and argv:
            r = argv[0].reach(); return mk(r, r)
        if name == 'setattr' and argv:
            self.write(argv[0], 'setattr', e, record); return IMM
        if name == '__setattr__' and len(argv) >= 1:
            self.write(argv[0], 'object.__setattr__', e, record)
            return IMM
        if dotted.startswith('torch.') or dotted.startswith('torch_semiring_einsum'):
            return mk(EMPTY, EMPTY, 'tensor')
        return FRESH


def _as_load(t: ast.AST) -> ast.AST:
    import copy
    t2 = copy.deepcopy(t)
    for n in ast.walk(t2):
        if hasattr(n, 'ctx'):
            n.ctx = ast.Load()
    return t2


_engine_cache: Dict[str, Effects] = {}


def effects_for(prog: Program) -> Effects:
    k = prog.digest()
    if k not in _engine_cache:
        eng = Effects(prog)
        eng.run()
        _engine_cache[k] = eng
    return _engine_cache[k]
