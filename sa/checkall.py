"""Run every property check in one process (shared program model and effect summaries) and print a JSON summary.
Used by tools/seed.py and the selftest; the registered per-property commands remain `python -m sa.check <ID>`."""
from __future__ import annotations
import json, os, sys
os.environ['SA_NO_EVIDENCE'] = '1'
from .check import PROPS, run_property
from .report import load_known, match_known


def main() -> int:
    repo = sys.argv[1] if len(sys.argv) > 1 else '/repo'
    known = load_known()
    out = {}
    for p in PROPS:
        rep = run_property(p, 'quick', repo)
        viol = [o for o in rep.obligations if not o.ok and match_known(known, p, o) is None]
        code = 1 if viol else (2 if rep.errors else 0)
        out[p] = {'exit': code,
                  'reports': [f"violation: [{o.rule}] {o.loc} {o.where}: {o.construct}"[:260] for o in viol[:6]] + [f"ANALYSIS-ERROR {e}"[:260] for e in rep.errors[:3]]}
    print(json.dumps(out))
    return 0


if __name__ == '__main__':
    sys.exit(main())
