"""`__eq__` as a truth table.

The atoms of an `__eq__(self, other)` are: the identity shortcut (`self is other`), the class test (`type(self) == type(other)`,
`isinstance(other, C)`), and the component comparisons (`self.a == other.a`, `self.w.equal(other.w)`).  For every valuation of
the atoms the method is walked (tests decided by the valuation) and the returned expression is evaluated:

  * identity true (which makes every other atom true): the result is True;
  * identity false: the result is True exactly when the class test and every component comparison are true.

So a comparison whose polarity is flipped, an `and` that became `or`, a shortcut returning False, or a component that does
not influence the result are all reported.  `__ne__` must be the negation of `__eq__`.
"""
from __future__ import annotations
import ast
import itertools
from typing import Dict, List, Optional, Set, Tuple
from ..model import FuncInfo, norm, own_nodes
from ..cfg import cfg_of
from ..guards import Env, walk, collect_atoms
from ..report import Report


def _role(a: ast.AST, selfn: str, other: str) -> Optional[str]:
    names = {n.id for n in ast.walk(a) if isinstance(n, ast.Name)}
    if isinstance(a, ast.Compare) and len(a.ops) == 1:
        l, r = a.left, a.comparators[0]
        if isinstance(a.ops[0], (ast.Is, ast.IsNot)) and {norm(l), norm(r)} == {selfn, other}:
            return 'identity'
        if isinstance(a.ops[0], (ast.Eq, ast.NotEq)):
            if {norm(l), norm(r)} in ({f"type({selfn})", f"type({other})"}, {f"{selfn}.__class__", f"{other}.__class__"}):
                return 'class'
            if selfn in names and other in names:
                return 'component'
    if isinstance(a, ast.Call):
        fn = a.func
        if isinstance(fn, ast.Name) and fn.id == 'isinstance' and a.args and norm(a.args[0]) == other:
            return 'class'
        if isinstance(fn, ast.Attribute) and fn.attr in ('equal', '__eq__', 'allclose') and selfn in names and other in names:
            return 'component'
    return None


def check_eq(rep: Report, rule: str, f: FuncInfo) -> int:
    pos = f.positional_params()
    if len(pos) < 2:
        return 0
    selfn, other = pos[0], pos[1]
    cfg = cfg_of(f)
    atoms: Dict[str, ast.AST] = {}
    for n, nd in cfg.nodes.items():
        if nd.kind in ('test', 'return') and nd.expr is not None:
            atoms.update(collect_atoms(nd.expr))
    roles = {t: _role(a, selfn, other) for t, a in atoms.items()}
    unknown = [t for t, r in roles.items() if r is None]
    if unknown or not atoms or len(atoms) > 8:
        rep.ob(rule, f.fq(), f"{f.qualname}: every condition is an identity / class / component comparison of the two operands", f.loc(), not unknown and bool(atoms),
               'recognised' if not unknown and atoms else f"conditions that are none of these: {unknown[:3]}" if unknown else 'no comparison at all')
        if unknown or not atoms:
            return 1
    ident = [t for t, r in roles.items() if r == 'identity']
    rest = [t for t in atoms if t not in ident]
    bad: List[str] = []
    rets = {n for n, nd in cfg.nodes.items() if nd.kind == 'return'}
    n_val = 0
    for vals in itertools.product([True, False], repeat=len(rest)):
        for idv in ([True, False] if ident else [False]):
            if idv and not all(vals):
                continue                    # the same object: every comparison holds
            env = Env(atoms={**dict(zip(rest, vals)), **{t: idv for t in ident}})
            n_val += 1
            want = True if idv else (all(vals) if rest else False)      # identity-only equality (abstract base classes)
            reach = walk(cfg, cfg.entry, env, unknown='both')
            got: Set[Optional[bool]] = set()
            for r in rets & reach:
                e = cfg.nodes[r].expr
                got.add(False if e is None else env.eval(e))
            if cfg.exit in reach and not (rets & reach):
                got.add(False)              # falls off the end: None
            if got != {want}:
                desc = ', '.join(f"{t}={v}" for t, v in list(zip(rest, vals)) + [(t, idv) for t in ident])
                bad.append(f"[{desc}] returns {sorted(map(str, got))}, expected {want}")
    comps = [t for t, r in roles.items() if r == 'component']
    rep.ob(rule, f.fq(), f"{f.qualname}: True exactly when the class test and all {len(comps)} component comparison(s) hold (or the operands are the same object)",
           f.loc(), not bad, f"{n_val} valuations of {len(atoms)} conditions agree" if not bad else '; '.join(bad[:3]) + (f" (+{len(bad) - 3} more)" if len(bad) > 3 else ''))
    return 1


def check_ne(rep: Report, rule: str, f: FuncInfo) -> int:
    pos = f.positional_params()
    if len(pos) < 2:
        return 0
    selfn, other = pos[0], pos[1]
    rets = [r.value for r in own_nodes(f.node) if isinstance(r, ast.Return)]
    ok = bool(rets)
    for v in rets:
        good = False
        if isinstance(v, ast.UnaryOp) and isinstance(v.op, ast.Not):
            o = v.operand
            if isinstance(o, ast.Call) and isinstance(o.func, ast.Attribute) and o.func.attr == '__eq__' and norm(o.func.value) == selfn and o.args and norm(o.args[0]) == other:
                good = True
            if isinstance(o, ast.Compare) and len(o.ops) == 1 and isinstance(o.ops[0], ast.Eq) and {norm(o.left), norm(o.comparators[0])} == {selfn, other}:
                good = True
        ok = ok and good
    rep.ob(rule, f.fq(), f"{f.qualname} is the negation of __eq__", f.loc(), ok, '' if ok else f"returns {[norm(v) if v is not None else None for v in rets]}")
    return 1
