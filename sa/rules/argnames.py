"""Swapped arguments: at a call of a repo function, two positional arguments each carry the name of the *other's* parameter
(`f(b, a)` for `def f(a, b)`; the name of an argument is its identifier, its last attribute, or its constant subscript key).
A true swap of same-named arguments is never intended; the rule needs both directions to match, so it stays silent on
ordinary calls."""
from __future__ import annotations
import ast
from typing import List, Optional
from ..model import Program, FuncInfo, own_nodes, norm
from ..report import Report


def _argname(a: ast.AST) -> Optional[str]:
    if isinstance(a, ast.Name):
        return a.id
    if isinstance(a, ast.Attribute):
        return a.attr
    if isinstance(a, ast.Subscript) and isinstance(a.slice, ast.Constant) and isinstance(a.slice.value, str):
        return a.slice.value
    return None


def _resolve(prog: Program, f: FuncInfo, c: ast.Call):
    fn = c.func
    if isinstance(fn, ast.Name):
        g = f
        while g is not None:
            for ch in g.children:
                if not ch.is_lambda and ch.name == fn.id:
                    return ch, 0
            g = g.parent
        r = prog.resolve_global(f.module, fn.id)
        if r and r[0] == 'func':
            return r[1], 0
        if r and r[0] == 'class':
            ini = prog.find_method(r[1], '__init__')
            if ini is not None and ini.cls is not None and ini.cls.module.name.startswith(('fggs', 'bin')):
                return ini, 1
        return None
    if isinstance(fn, ast.Attribute):
        if isinstance(fn.value, ast.Name) and fn.value.id == f.self_name() and f.cls is not None:
            m = prog.find_method(f.cls, fn.attr)
            if m is not None:
                return m, (0 if m.is_static else 1)
        if isinstance(fn.value, ast.Name):
            r = prog.resolve_global(f.module, fn.value.id)
            if r and r[0] == 'module' and r[1] in prog.modules:
                r2 = prog.resolve_global(prog.modules[r[1]], fn.attr)
                if r2 and r2[0] == 'func':
                    return r2[1], 0
                if r2 and r2[0] == 'class':
                    ini = prog.find_method(r2[1], '__init__')
                    if ini is not None:
                        return ini, 1
    return None


def check_swapped(rep: Report, rule: str, prog: Program, funcs: List[FuncInfo], constructors_only: bool = True) -> int:
    n_calls = 0
    for f in funcs:
        bad = []
        for c in [x for x in own_nodes(f.node, into_lambdas=True) if isinstance(x, ast.Call)]:
            if len(c.args) < 2 or any(isinstance(a, ast.Starred) for a in c.args):
                continue
            r = _resolve(prog, f, c)
            if r is None:
                continue
            g, skip = r
            if constructors_only and g.name != '__init__':
                continue            # a plain function may be symmetric in its arguments; a constructor's fields are not
            params = g.positional_params()[skip:]
            if len(params) < 2:
                continue
            n_calls += 1
            names = [_argname(a) for a in c.args[:len(params)]]
            for i in range(len(names)):
                for j in range(i + 1, len(names)):
                    if names[i] is not None and names[j] is not None and names[i] != names[j] and names[i] == params[j] and names[j] == params[i]:
                        bad.append((c, params[i], params[j]))
        if bad:
            for c, pi, pj in bad:
                rep.ob(rule, f.fq(), norm(c)[:90], f.loc(c), False, f"the arguments for `{pi}` and `{pj}` are given in each other's position")
    return n_calls
