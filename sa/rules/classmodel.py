"""E2 support: per-method summaries over the class model -- which self attributes a method reads / writes
(transitively through self.method(), property and setter calls), and under which conditions it raises."""
from __future__ import annotations
import ast, copy as _copy
from dataclasses import dataclass, field
from typing import Dict, List, Optional, Set, Tuple
from ..model import Program, FuncInfo, ClassInfo, own_nodes, norm, names_in
from ..util import parents, callee_last

CONTAINER_MUTATORS = {'append', 'extend', 'insert', 'add', 'update', 'pop', 'remove', 'discard', 'clear', 'setdefault',
                      'sort', 'reverse', 'popitem', '__setitem__', '__delitem__'}


@dataclass
class Summary:
    reads: Set[str] = field(default_factory=set)
    writes: Set[str] = field(default_factory=set)
    raises: List[Tuple[Optional[ast.AST], ast.AST]] = field(default_factory=list)   # (condition or None, raise stmt)
    self_calls: List[Tuple[str, ast.Call]] = field(default_factory=list)


class ClassModel:
    def __init__(self, prog: Program):
        self.prog = prog
        self._direct: Dict[str, Summary] = {}
        self._trans: Dict[Tuple[str, str], Summary] = {}

    # ---------------------------------------------------------------- direct facts
    def direct(self, f: FuncInfo, recv: Optional[str] = None) -> Summary:
        """Facts about receiver `recv` (default: self) in f's own body."""
        recv = recv or f.self_name()
        key = f.fq() + '|' + str(recv)
        if key in self._direct:
            return self._direct[key]
        s = Summary()
        self._direct[key] = s
        if recv is None:
            return s
        pm = parents(f)
        for n in own_nodes(f.node, into_lambdas=True):
            if isinstance(n, ast.Attribute) and isinstance(n.value, ast.Name) and n.value.id == recv:
                par = pm.get(id(n))
                if isinstance(n.ctx, (ast.Store, ast.Del)):
                    s.writes.add(n.attr)
                    if isinstance(par, ast.AugAssign):
                        s.reads.add(n.attr)
                    continue
                # self.attr[...] = v / del self.attr[...]
                if isinstance(par, ast.Subscript) and par.value is n and isinstance(par.ctx, (ast.Store, ast.Del)):
                    s.writes.add(n.attr); continue
                # self.attr.mutator(...)
                if isinstance(par, ast.Attribute) and par.value is n and isinstance(pm.get(id(par)), ast.Call) and pm.get(id(par)).func is par:
                    if par.attr in CONTAINER_MUTATORS:
                        s.writes.add(n.attr)
                        if par.attr in ('setdefault', 'pop', 'update', 'append', 'extend'):
                            s.reads.add(n.attr)
                        continue
                # self.method(...)
                if isinstance(par, ast.Call) and par.func is n:
                    s.self_calls.append((n.attr, par))
                    continue
                s.reads.add(n.attr)
            elif isinstance(n, ast.Call) and isinstance(n.func, ast.Attribute) and n.func.attr == '__setattr__' \
                    and len(n.args) >= 2 and isinstance(n.args[0], ast.Name) and n.args[0].id == recv and isinstance(n.args[1], ast.Constant):
                s.writes.add(n.args[1].value)      # object.__setattr__(self, 'name', v)
            elif isinstance(n, ast.Raise):
                s.raises.append((path_condition(f, n), n))
        return s

    # ---------------------------------------------------------------- transitive facts
    def summary(self, ci: ClassInfo, f: FuncInfo, _stack: Tuple[str, ...] = ()) -> Summary:
        key = (ci.fq(), f.fq())
        if key in self._trans:
            return self._trans[key]
        d = self.direct(f)
        out = Summary(set(d.reads), set(d.writes), list(d.raises), list(d.self_calls))
        if f.fq() in _stack:
            return out
        for attr in list(d.reads):
            # property getter
            g = self.prog.find_method(ci, attr)
            if g is not None and g.is_property:
                out.reads.discard(attr)
                sub = self.summary(ci, g, _stack + (f.fq(),))
                out.reads |= sub.reads
        for attr in list(d.writes):
            st = self.prog.find_setter(ci, attr)
            if st is not None:
                out.writes.discard(attr)
                sub = self.summary(ci, st, _stack + (f.fq(),))
                out.reads |= sub.reads; out.writes |= sub.writes
        for name, call in d.self_calls:
            g = self.prog.find_method(ci, name)
            if g is None:
                continue
            sub = self.summary(ci, g, _stack + (f.fq(),))
            out.reads |= sub.reads; out.writes |= sub.writes
        if not _stack:
            self._trans[key] = out
        return out

    def init_attrs(self, ci: ClassInfo) -> Dict[str, ast.AST]:
        """Instance attributes assigned in the __init__ chain (super().__init__ followed) or dataclass fields -> init value expr."""
        out: Dict[str, ast.AST] = {}
        if ci.is_dataclass:
            for c in reversed(self.prog.mro(ci)):
                for k, ann in c.fields.items():
                    out[k] = ann
            return out
        init = self.prog.find_method(ci, '__init__')
        if init is None:
            return out
        seen = set()

        def visit(f: FuncInfo, cls: ClassInfo):
            if f.fq() in seen: return
            seen.add(f.fq())
            selfn = f.self_name()
            for n in own_nodes(f.node):
                if isinstance(n, ast.Call) and isinstance(n.func, ast.Attribute) and n.func.attr == '__init__' \
                        and isinstance(n.func.value, ast.Call) and norm(n.func.value.func) == 'super':
                    owner = f.cls
                    mro = self.prog.mro(ci)
                    if owner in mro:
                        for c in mro[mro.index(owner) + 1:]:
                            if '__init__' in c.methods:
                                visit(c.methods['__init__'], c); break
            for n in own_nodes(f.node):
                tgt = None
                if isinstance(n, ast.Assign) and len(n.targets) == 1: tgt, val = n.targets[0], n.value
                elif isinstance(n, ast.AnnAssign) and n.value is not None: tgt, val = n.target, n.value
                if tgt is not None and isinstance(tgt, ast.Attribute) and isinstance(tgt.value, ast.Name) and tgt.value.id == selfn:
                    st = self.prog.find_setter(ci, tgt.attr)
                    if st is not None:
                        for w in self.summary(ci, st).writes:
                            if w.startswith('_') and w not in out:
                                out[w] = val
                    else:
                        out.setdefault(tgt.attr, val)
        visit(init, ci)
        return out


def path_condition(f: FuncInfo, node: ast.AST) -> Optional[ast.AST]:
    """Conjunction of the enclosing if-tests (with polarity) of `node` by syntactic nesting; None when the node sits in a
    loop / try / with (condition then depends on iteration state)."""
    pm = parents(f)
    conds: List[ast.AST] = []
    child = node
    p = pm.get(id(node))
    while p is not None and p is not f.node:
        if isinstance(p, ast.If):
            if any(child is s for s in p.body):
                conds.append(p.test)
            elif any(child is s for s in p.orelse):
                conds.append(ast.UnaryOp(op=ast.Not(), operand=p.test))
        elif isinstance(p, (ast.For, ast.While, ast.Try, ast.With, ast.ExceptHandler)):
            return None
        child = p
        p = pm.get(id(p))
    # earlier `if c: raise/return` siblings at function top level are not folded in (conservative: condition is weaker)
    if not conds:
        return ast.Constant(value=True)
    if len(conds) == 1:
        return conds[0]
    return ast.BoolOp(op=ast.And(), values=list(reversed(conds)))


class _Subst(ast.NodeTransformer):
    def __init__(self, mapping: Dict[str, ast.AST]):
        self.mapping = mapping

    def visit_Name(self, node: ast.Name):
        if isinstance(node.ctx, ast.Load) and node.id in self.mapping:
            return _copy.deepcopy(self.mapping[node.id])
        return node


def substitute(expr: ast.AST, mapping: Dict[str, ast.AST]) -> ast.AST:
    return ast.fix_missing_locations(_Subst(mapping).visit(_copy.deepcopy(expr)))


def single_assigned_locals(f: FuncInfo) -> Dict[str, ast.AST]:
    count: Dict[str, int] = {}
    val: Dict[str, ast.AST] = {}
    for n in own_nodes(f.node):
        if isinstance(n, ast.Assign):
            for t in n.targets:
                for x in ast.walk(t):
                    if isinstance(x, ast.Name):
                        count[x.id] = count.get(x.id, 0) + 1
            if len(n.targets) == 1 and isinstance(n.targets[0], ast.Name):
                val[n.targets[0].id] = n.value
        elif isinstance(n, (ast.AugAssign, ast.AnnAssign)) and isinstance(n.target, ast.Name):
            count[n.target.id] = count.get(n.target.id, 0) + 2
        elif isinstance(n, (ast.For, ast.comprehension)):
            for x in ast.walk(n.target):
                if isinstance(x, ast.Name):
                    count[x.id] = count.get(x.id, 0) + 2
    params = set(f.param_names())
    return {k: v for k, v in val.items() if count.get(k) == 1 and k not in params}
