"""Slice bounds computed from a possibly negative axis number.

`shape[:dim] + shape[dim+1:]` drops axis `dim` only for dim >= 0: for dim == -1 the second bound is 0 and the whole shape is
appended.  torch accepts negative dims everywhere, so a function that takes `dim` and slices with `dim + c` / `dim - c` must have
normalised it (`if dim < 0: dim += n`, `dim % n`) or rejected negative values (`assert 0 <= dim < n`) on every path to the slice,
or slice without arithmetic (`shape[dim:][1:]`)."""
from __future__ import annotations
import ast
from typing import List
from ..model import FuncInfo, own_nodes, norm
from ..cfg import cfg_of
from ..report import Report
from ..util import enclosing_stmt

DIM_PARAMS = ('dim', 'axis', 'dim0', 'dim1', 'd')


def _dim_arith(e, p: str) -> bool:
    return isinstance(e, ast.BinOp) and isinstance(e.op, (ast.Add, ast.Sub)) and \
        (isinstance(e.left, ast.Name) and e.left.id == p and isinstance(e.right, ast.Constant) and isinstance(e.right.value, int) and e.right.value != 0
         or isinstance(e.op, ast.Add) and isinstance(e.right, ast.Name) and e.right.id == p and isinstance(e.left, ast.Constant) and isinstance(e.left.value, int) and e.left.value != 0)


def dim_slices(f: FuncInfo) -> List:
    out = []
    for p in [q for q in f.param_names() if q in DIM_PARAMS]:
        for sl in [x for x in own_nodes(f.node) if isinstance(x, ast.Slice)]:
            if any(b is not None and _dim_arith(b, p) for b in (sl.lower, sl.upper)):
                out.append((p, sl))
    return out


def check_dim_slices(rep: Report, rule: str, f: FuncInfo) -> int:
    sites = dim_slices(f)
    if not sites:
        return 0
    cfg = cfg_of(f)
    dom = cfg.dominators()
    for p, sl in sites:
        normalisers = set()
        for k, nd in cfg.nodes.items():
            st = nd.stmt
            if nd.kind == 'test' and isinstance(st, ast.If) and norm(nd.expr) in (f"{p} < 0", f"0 > {p}") and len(st.body) == 1 \
                    and isinstance(st.body[0], ast.AugAssign) and norm(st.body[0].target) == p and isinstance(st.body[0].op, ast.Add):
                normalisers.add(k)
            if nd.kind == 'stmt' and isinstance(st, ast.AugAssign) and norm(st.target) == p and isinstance(st.op, ast.Mod):
                normalisers.add(k)
            if nd.kind == 'stmt' and isinstance(st, ast.Assign) and len(st.targets) == 1 and norm(st.targets[0]) == p \
                    and isinstance(st.value, ast.BinOp) and isinstance(st.value.op, ast.Mod) and norm(st.value.left) == p:
                normalisers.add(k)
            # a dominating `assert 0 <= dim0 < dim1 < n` (negative axis numbers rejected outright)
            if nd.kind == 'assert' and nd.expr is not None:
                for c in [x for x in ast.walk(nd.expr) if isinstance(x, ast.Compare)]:
                    if isinstance(c.left, ast.Constant) and c.left.value == 0 and all(isinstance(o, (ast.Lt, ast.LtE)) for o in c.ops) \
                            and any(isinstance(x, ast.Name) and x.id == p for x in c.comparators):
                        normalisers.add(k)
                    if isinstance(c.left, ast.Name) and c.left.id == p and len(c.ops) == 1 and isinstance(c.ops[0], (ast.GtE, ast.Gt)) \
                            and isinstance(c.comparators[0], ast.Constant) and c.comparators[0].value == 0:
                        normalisers.add(k)
        host = enclosing_stmt(f, sl)
        k = cfg.node_of(host) if host is not None else None
        ok = k is not None and bool(normalisers & dom.get(k, set()))
        txt = f"[{norm(sl.lower) if sl.lower is not None else ''}:{norm(sl.upper) if sl.upper is not None else ''}]"
        rep.ob(rule, f.fq(), f"slice {txt} with `{p}` a parameter", f.loc(sl), ok,
               f"`{p}` is made non-negative on every path to the slice" if ok else
               f"`{p}` may be negative here (torch's convention): for {p} = -1 the bound `{p} + 1` is 0, so the slice takes the whole sequence instead of what follows the axis")
    return len(sites)


def positive_control() -> bool:
    """The rule's expected count on today's tree is zero: a synthetic function with the defect must be matched on every run."""
    src = "def sum(x, dim):\n    return x.new_full(x.shape[:dim] + x.shape[dim + 1:], 0)\n"
    fn = ast.parse(src).body[0]

    class F:                    # the two members dim_slices needs
        node = fn
        def param_names(self): return ['x', 'dim']
    return len(dim_slices(F())) == 1
