"""Derived state: an attribute the constructor computes from other attributes of the same object (`self._value_index` from
`self.values`, a cached `frozenset(self.paxes)`, a cached `self._type` from `self._ext`) is only right as long as its sources are.
Every method that rebinds a source attribute must rebind the derived one as well; otherwise the object answers from a stale copy
(the typical missed invalidation of a cache added for speed)."""
from __future__ import annotations
import ast
from typing import Dict, List, Set, Tuple
from ..model import Program, ClassInfo, own_nodes, norm
from ..report import Report

INIT = ('__init__', '__post_init__')


def derived_attributes(ci: ClassInfo) -> Dict[str, Set[str]]:
    """D -> the attributes of self its constructor expression reads (dataclass fields are not derived state: they are the state)."""
    fields = {st.target.id for st in ci.node.body if isinstance(st, ast.AnnAssign) and isinstance(st.target, ast.Name)}
    out: Dict[str, Set[str]] = {}
    for iname in INIT:
        m = ci.methods.get(iname)
        if m is None:
            continue
        selfn = m.self_name()
        # locals that hold an attribute's value: bound in the same statement (`self.values = vals = list(values)`) or copied from it
        carries: Dict[str, Set[str]] = {}
        for st in own_nodes(m.node):
            if isinstance(st, ast.Assign):
                attrs = {t.attr for t in st.targets if isinstance(t, ast.Attribute) and isinstance(t.value, ast.Name) and t.value.id == selfn}
                if isinstance(st.value, ast.Attribute) and isinstance(st.value.value, ast.Name) and st.value.value.id == selfn:
                    attrs = attrs | {st.value.attr}
                for t in st.targets:
                    if isinstance(t, ast.Name) and attrs:
                        carries.setdefault(t.id, set()).update(attrs)
                # `vals = list(values); self.values = vals`: the local now is the attribute's value
                own_attrs = {t.attr for t in st.targets if isinstance(t, ast.Attribute) and isinstance(t.value, ast.Name) and t.value.id == selfn}
                if isinstance(st.value, ast.Name) and own_attrs:
                    carries.setdefault(st.value.id, set()).update(own_attrs)
        # ... or computed from it (`index = {v: i for i, v in enumerate(self.values)}; self._value_index = index`)
        for _ in range(3):
            for st in own_nodes(m.node):
                if isinstance(st, (ast.Assign, ast.AnnAssign)) and st.value is not None:
                    got = {x.attr for x in ast.walk(st.value) if isinstance(x, ast.Attribute) and isinstance(x.value, ast.Name) and x.value.id == selfn}
                    for x in ast.walk(st.value):
                        if isinstance(x, ast.Name) and x.id in carries:
                            got |= carries[x.id]
                    for t in (st.targets if isinstance(st, ast.Assign) else [st.target]):
                        if isinstance(t, ast.Name) and got:
                            carries.setdefault(t.id, set()).update(got)
        for st in own_nodes(m.node):
            if isinstance(st, (ast.Assign, ast.AnnAssign)) and st.value is not None:
                for t in (st.targets if isinstance(st, ast.Assign) else [st.target]):
                    if isinstance(t, ast.Attribute) and isinstance(t.value, ast.Name) and t.value.id == selfn and t.attr not in fields:
                        reads = {x.attr for x in ast.walk(st.value) if isinstance(x, ast.Attribute) and isinstance(x.value, ast.Name) and x.value.id == selfn}
                        for x in ast.walk(st.value):
                            if isinstance(x, ast.Name) and x.id in carries:
                                reads |= carries[x.id]
                        reads -= {t.attr}
                        if reads:
                            out.setdefault(t.attr, set()).update(reads)
    return out


def _stores(m, selfn: str) -> Set[str]:
    out = set()
    for x in own_nodes(m.node):
        if isinstance(x, ast.Attribute) and isinstance(x.ctx, ast.Store) and isinstance(x.value, ast.Name) and x.value.id == selfn:
            out.add(x.attr)
        # object.__setattr__(self, 'name', v) of frozen dataclasses
        if isinstance(x, ast.Call) and isinstance(x.func, ast.Attribute) and x.func.attr == '__setattr__' and len(x.args) == 3 \
                and isinstance(x.args[0], ast.Name) and x.args[0].id == selfn and isinstance(x.args[1], ast.Constant):
            out.add(x.args[1].value)
    return out


def check_derived_state(rep: Report, rule: str, prog: Program, classes: List[ClassInfo]) -> int:
    n = 0
    for ci in classes:
        der = derived_attributes(ci)
        if not der:
            continue
        methods = [m for k, m in list(ci.methods.items()) + list(ci.setters.items()) if k not in INIT]
        # subclasses' methods can rebind the sources too
        for sub in prog.subclasses(ci, strict=True):
            methods += [m for k, m in list(sub.methods.items()) + list(sub.setters.items()) if k not in INIT]
        for d, srcs in sorted(der.items()):
            n += 1
            bad = []
            for m in methods:
                selfn = m.self_name()
                if selfn is None:
                    continue
                st = _stores(m, selfn)
                if (st & srcs) and d not in st:
                    bad.append(f"{m.qualname} rebinds {sorted(st & srcs)} ({m.loc()})")
            rep.ob(rule, ci.fq(), f"{ci.name}.{d} (computed from {sorted(srcs)} by the constructor) follows its sources", f"{ci.module.relpath}:{ci.node.lineno}", not bad,
                   'no method rebinds a source without recomputing it' if not bad else
                   '; '.join(bad[:3]) + f": `{d}` keeps the value computed from the old {sorted(srcs)} -- the object then answers from stale state")
    return n


def positive_control() -> bool:
    src = ("class T:\n"
           "    def __init__(self, xs):\n        self.xs = list(xs)\n        self._set = frozenset(self.xs)\n"
           "    def copy_(self, other):\n        self.xs = list(other.xs)\n")
    cls = ast.parse(src).body[0]

    class M:
        def __init__(self, node): self.node = node; self.qualname = node.name
        def self_name(self): return 'self'
        def loc(self): return 'synthetic'

    class C:
        node = cls
        methods = {f.name: M(f) for f in cls.body}
        setters: Dict = {}
    der = derived_attributes(C())
    return der == {'_set': {'xs'}} and 'xs' in _stores(C.methods['copy_'], 'self') and '_set' not in _stores(C.methods['copy_'], 'self')
