"""zip alignment: `zip(X, Y)` pairs the i-th element of X with the i-th of Y, so both must have been cut from the same
sequence by the same selection.  A *length class* is computed for each operand from its reaching definition:

  tuple(e) / list(e) / e itself (a call or attribute)   -> the class of the source expression e
  [.. for v in S]            (no filter)                 -> the class of S
  [.. for v in S if c]       (filtered)                  -> a fresh class (the selection), distinct from S
  A, B = zip(*P)                                         -> A and B have the class of P
  stack(T, dim=0), log_softmax(X, dim=..), X.f(...)      -> the class of T / X (leading dimension kept)

A zip whose operands have *known and different* classes, one of them a filtered selection, is reported: an element of the
unfiltered sequence would be paired with the value computed for another element.  Unknown classes give no verdict."""
from __future__ import annotations
import ast
from typing import Dict, List, Optional, Set, Tuple
from ..model import FuncInfo, norm, own_nodes, names_in
from ..cfg import cfg_of
from ..report import Report
from ..util import callee_last

KEEP_LEADING = {'log_softmax', 'softmax', 'clone', 'detach', 'to', 'exp', 'log', 'neg', 'contiguous', 'float', 'double'}


def check_zip_alignment(rep: Report, rule: str, f: FuncInfo) -> int:
    cfg = cfg_of(f)
    dom = cfg.dominators()
    assigns: Dict[str, List[Tuple[int, ast.AST, Optional[int]]]] = {}     # name -> [(node, value expr, index in tuple target or None)]
    for n, nd in cfg.nodes.items():
        st = nd.stmt
        if nd.kind == 'stmt' and isinstance(st, (ast.Assign, ast.AnnAssign)) and getattr(st, 'value', None) is not None:
            for t in (st.targets if isinstance(st, ast.Assign) else [st.target]):
                if isinstance(t, ast.Name):
                    assigns.setdefault(t.id, []).append((n, st.value, None))
                elif isinstance(t, ast.Tuple):
                    for i, e in enumerate(t.elts):
                        if isinstance(e, ast.Name):
                            assigns.setdefault(e.id, []).append((n, st.value, i))

    def reaching(name: str, at: int):
        ds = [(d, v, i) for d, v, i in assigns.get(name, []) if d in dom.get(at, set()) and d != at]
        if not ds:
            return None
        best = max(ds, key=lambda x: len(dom.get(x[0], set())))
        others = [d for d, _, _ in assigns.get(name, []) if d != best[0] and d != at and d not in dom.get(best[0], set())]
        if any(cfg.reaches(best[0], o) and cfg.reaches(o, at) for o in others):
            return None
        return best

    def cls(e: ast.AST, at: int, depth: int = 0) -> Optional[Tuple]:
        if depth > 20:
            return None
        if isinstance(e, ast.Name):
            r = reaching(e.id, at)
            if r is None:
                return ('name', e.id) if e.id in f.param_names() else None
            d, v, idx = r
            if idx is not None:
                # A, B = zip(*P): class of P
                if isinstance(v, ast.Call) and callee_last(v) == 'zip' and len(v.args) == 1 and isinstance(v.args[0], ast.Starred):
                    return cls(v.args[0].value, d, depth + 1)
                return None
            return cls(v, d, depth + 1)
        if isinstance(e, (ast.ListComp, ast.GeneratorExp)):
            if len(e.generators) == 1 and not e.generators[0].ifs:
                return cls(e.generators[0].iter, at, depth + 1)
            # a selection (filtered, or a product of several generators) of its first source
            return ('selection', cls(e.generators[0].iter, at, depth + 1), e.lineno, e.col_offset)
        if isinstance(e, ast.Call):
            nm = callee_last(e)
            if nm in ('tuple', 'list', 'sorted', 'reversed') and len(e.args) >= 1:
                return cls(e.args[0], at, depth + 1)
            if nm == 'stack' and e.args:
                return cls(e.args[0], at, depth + 1)
            if nm in KEEP_LEADING and e.args and isinstance(e.func, ast.Name):
                return cls(e.args[0], at, depth + 1)
            if nm in KEEP_LEADING and isinstance(e.func, ast.Attribute):
                return cls(e.func.value, at, depth + 1)
            if nm in ('enumerate',) and e.args:
                return cls(e.args[0], at, depth + 1)
            return ('expr', norm(e))
        if isinstance(e, ast.Attribute):
            return ('expr', norm(e))
        return None
    n = 0
    for k, nd in cfg.nodes.items():
        roots: List[ast.AST] = []
        if nd.kind == 'for':
            roots = [nd.stmt.iter]
        elif nd.kind in ('stmt', 'return') and nd.stmt is not None:
            roots = [c.iter for c in ast.walk(nd.stmt) if isinstance(c, ast.comprehension)]
        for r in roots:
            z = r.args[0] if isinstance(r, ast.Call) and callee_last(r) == 'enumerate' and r.args else r
            if not (isinstance(z, ast.Call) and isinstance(z.func, ast.Name) and z.func.id == 'zip' and len(z.args) >= 2 and not any(isinstance(a, ast.Starred) for a in z.args)):
                continue
            classes = [cls(a, k) for a in z.args]
            known = [c for c in classes if c is not None]
            if len(known) < 2:
                continue
            n += 1
            # reported: one operand is a selection and another is the very sequence the selection was taken from
            sel = [c for c in known if c[0] == 'selection' and c[1] is not None and any(o == c[1] for o in known if o is not c)]
            bad = bool(sel)
            rep.ob(rule, f.fq(), f"{norm(z)[:70]}: operands cut from the same selection", f.loc(z), not bad,
                   f"length classes {sorted(set(map(str, known)))}" if not bad else
                   f"`{norm(z.args[classes.index(sel[0])])}` holds only the elements kept by a filter, `{norm([a for a, c in zip(z.args, classes) if c is not None and c != sel[0]][0])}` "
                   f"the whole sequence: after a dropped element every pair is shifted")
    return n
