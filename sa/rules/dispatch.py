"""E4 dispatch exhaustiveness / option-table agreement and parameter forwarding."""
from __future__ import annotations
import ast, re
from typing import Dict, List, Optional, Set, Tuple
from ..model import Program, FuncInfo, own_nodes, norm, names_in
from ..cfg import cfg_of
from ..guards import Env, walk
from ..util import depends_on, bind_args, calls_in, callee_last
from ..callgraph import Resolver
from ..report import Report


def selector_literals(f: FuncInfo, selector: str) -> Set[str]:
    """String literals the selector expression (by normalised text) is compared with in f."""
    lits: Set[str] = set()
    for n in own_nodes(f.node):
        if isinstance(n, ast.Compare):
            operands = [n.left] + list(n.comparators)
            if any(norm(o) == selector for o in operands):
                for o in operands:
                    if isinstance(o, ast.Constant) and isinstance(o.value, str):
                        lits.add(o.value)
                    elif isinstance(o, (ast.Tuple, ast.List, ast.Set)):
                        lits |= {e.value for e in o.elts if isinstance(e, ast.Constant) and isinstance(e.value, str)}
    return lits


def check_dispatch(rep: Report, rule: str, f: FuncInfo, selector: str, documented: Dict[str, Set[str]],
                   internal: Set[str] = frozenset()) -> None:
    """The dispatcher handles every documented option, every literal it tests is documented (or internal),
    and a value outside the literal set reaches a raise on every path (no silent fall-through)."""
    cfg = cfg_of(f)
    # the selector may be tested under its own name or as the expression it names (`method = opts['method']`)
    from ..util import single_assignments
    sa_ = single_assignments(f.node).get(selector)
    if sa_ is not None and not selector_literals(f, selector) and selector_literals(f, norm(sa_)):
        selector = norm(sa_)
    lits = selector_literals(f, selector)
    where = f.fq()
    alldoc: Set[str] = set().union(*documented.values()) if documented else set()
    for src, opts in documented.items():
        missing = opts - lits
        rep.ob(rule, where, f"dispatch on {selector} covers options of {src}", f.loc(), not missing,
               f"options {sorted(opts)}; dispatcher literals {sorted(lits)}" + (f"; not handled: {sorted(missing)}" if missing else ''))
    extra = lits - alldoc - set(internal)
    rep.ob(rule, where, f"dispatch on {selector} tests only documented/internal options", f.loc(), not extra,
           f"literals {sorted(lits)}; documented {sorted(alldoc)}; internal {sorted(internal)}" + (f"; undocumented: {sorted(extra)}" if extra else ''))
    # fall-through raises: give the selector a value distinct from every literal
    env = Env(strs={selector: '\x00<other>'})
    und: Set[int] = set()
    tests = [n for n, nd in cfg.nodes.items() if nd.kind == 'test' and selector in {norm(x) for x in ast.walk(nd.expr)}]
    if not tests:
        rep.error(f"{rule}: {f.loc()} no test on `{selector}` found in {where}")
        return
    first = min(tests, key=lambda n: cfg.nodes[n].lineno)
    r = walk(cfg, first, env, unknown='both', track_undecided=und)
    falls = cfg.exit in r
    # ignore undecided tests that do not mention the selector (they are nested inside a decided branch)
    rep.ob(rule, where, f"dispatch on {selector}: unknown value raises", f.loc(cfg.nodes[first].stmt), not falls,
           "with the selector different from every literal, " + ("a path reaches the normal exit (silent fall-through)" if falls else "every path ends in raise"))


def check_forwarding(rep: Report, rule: str, prog: Program, res: Resolver, f: FuncInfo, param: str,
                     callee_filter=None) -> int:
    """Every call in f of a repo function that also has a parameter `param` passes a value that depends on f's `param`."""
    deps = depends_on(f, {param})
    n = 0
    for c in calls_in(f, into_lambdas=True):
        for t in res.resolve(f, c):
            if t.func is None or not t.certain:
                continue
            if param not in t.func.param_names():
                continue
            if callee_filter is not None and not callee_filter(t.func):
                continue
            n += 1
            b = bind_args(c, t.func, t.bound)
            has_kwargs = any(k.arg is None for k in c.keywords)
            arg = b.get(param)
            construct = f"{norm(c.func)}(...) forwards {param}"
            if arg is None and has_kwargs:
                kw = [k.value for k in c.keywords if k.arg is None]
                ok = any(names_in(k) & deps for k in kw)
                rep.ob(rule, f.fq(), construct, f.loc(c), ok, f"`{param}` travels in **{norm(kw[0])}" if ok else f"**kwargs do not depend on `{param}`")
            elif arg is None:
                rep.ob(rule, f.fq(), construct, f.loc(c), False,
                       f"call `{norm(c)[:120]}` does not pass `{param}`; callee {t.func.fq()} falls back to its default {norm(t.func.param_default(param)) if t.func.param_default(param) is not None else '<none>'}")
            else:
                ok = bool(names_in(arg) & deps)
                rep.ob(rule, f.fq(), construct, f.loc(c), ok,
                       f"argument `{norm(arg)}` " + ("depends on" if ok else "does NOT depend on") + f" the caller's `{param}`")
            break
    return n


def docstring_options(f: FuncInfo, key: str) -> Set[str]:
    """Quoted option names on the docstring line(s) that document `key` (e.g. "- method: ... ('linear', 'newton')")."""
    doc = ast.get_docstring(f.node) or ''
    out: Set[str] = set()
    for line in doc.splitlines():
        if re.match(rf"\s*-\s*{re.escape(key)}\s*:", line):
            out |= set(re.findall(r"'([A-Za-z0-9_\-]+)'", line))
    return out


def argparse_choices(prog: Program, module: str, dest: str) -> Optional[Set[str]]:
    m = prog.modules.get(module)
    if m is None:
        return None
    for n in ast.walk(m.tree):
        if isinstance(n, ast.Call) and callee_last(n) == 'add_argument':
            kws = {k.arg: k.value for k in n.keywords}
            d = kws.get('dest')
            if isinstance(d, ast.Constant) and d.value == dest and 'choices' in kws and isinstance(kws['choices'], (ast.List, ast.Tuple)):
                return {e.value for e in kws['choices'].elts if isinstance(e, ast.Constant)}
    return None
