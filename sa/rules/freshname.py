"""E8 fresh-name protocol for utils.unique_label_name(base, avoid).

(a) the avoid set is seeded from a *complete* label registry (`X.edge_labels()`), never only from a partial view
    (`X.nonterminals()` / `X.terminals()`) of an object whose complete view is not also seeded;
(b) when the call can be reached again with the same set (loop / recursion), the label made from the returned name
    is added to the set on every path before that happens.
"""
from __future__ import annotations
import ast
from typing import Dict, List, Optional, Set, Tuple
from ..model import Program, FuncInfo, own_nodes, norm, names_in
from ..cfg import cfg_of
from ..util import calls_named, callee_last, enclosing_stmt, depends_on
from ..report import Report

COMPLETE = {'edge_labels'}
PARTIAL = {'nonterminals', 'terminals'}


def _alias_map(f: FuncInfo) -> Dict[str, str]:
    """local = <attribute chain>  (single assignment) -> text, to normalise `rhs = rule.rhs`."""
    out: Dict[str, str] = {}
    count: Dict[str, int] = {}
    for n in own_nodes(f.node):
        if isinstance(n, ast.Assign) and len(n.targets) == 1 and isinstance(n.targets[0], ast.Name):
            count[n.targets[0].id] = count.get(n.targets[0].id, 0) + 1
            if isinstance(n.value, (ast.Attribute, ast.Name)):
                out[n.targets[0].id] = norm(n.value)
    return {k: v for k, v in out.items() if count.get(k) == 1}


def _recv_text(e: ast.AST, alias: Dict[str, str]) -> str:
    t = norm(e)
    head = t.split('.')[0]
    if head in alias:
        t = alias[head] + t[len(head):]
    return t


def seeds_of(f: FuncInfo, setname: str) -> List[Tuple[str, ast.AST, ast.AST]]:
    """[(kind, source expr, stmt)] kind in {'init','update','add'} for operations that put labels into `setname` in f."""
    out = []
    for n in own_nodes(f.node):
        if isinstance(n, ast.Assign) and any(isinstance(t, ast.Name) and t.id == setname for t in n.targets):
            out.append(('init', n.value, n))
        elif isinstance(n, ast.AugAssign) and isinstance(n.target, ast.Name) and n.target.id == setname:
            out.append(('update', n.value, n))
        elif isinstance(n, ast.Call) and isinstance(n.func, ast.Attribute) and isinstance(n.func.value, ast.Name) \
                and n.func.value.id == setname and n.func.attr in ('update', 'add', 'union'):
            for a in n.args:
                out.append(('add' if n.func.attr == 'add' else 'update', a, n))
    return out


def registry_views(expr: ast.AST, alias: Dict[str, str]) -> List[Tuple[str, str]]:
    """[(receiver text, view method)] for X.edge_labels()/X.nonterminals()/X.terminals() calls inside expr."""
    out = []
    for x in ast.walk(expr):
        if isinstance(x, ast.Call) and isinstance(x.func, ast.Attribute) and x.func.attr in COMPLETE | PARTIAL and not x.args:
            out.append((_recv_text(x.func.value, alias), x.func.attr))
    return out


def check_fresh_names(rep: Report, prog: Program, rule: str, funcs: List[FuncInfo]) -> int:
    n_calls = 0
    for f in funcs:
        for c in calls_named(f, 'unique_label_name'):
            n_calls += 1
            where = f.fq()
            construct = norm(c)
            if len(c.args) < 2:
                rep.error(f"{rule}: {f.loc(c)} unique_label_name call without an avoid-set argument")
                continue
            avoid = c.args[1]
            # ---- (a) seeding
            owner: Optional[FuncInfo] = None
            if isinstance(avoid, ast.Name):
                g: Optional[FuncInfo] = f
                while g is not None:
                    if avoid.id in prog.local_names(g):
                        owner = g; break
                    g = g.parent
            if owner is None:
                # avoid set given as an expression (e.g. graph.edge_labels())
                views = registry_views(avoid, _alias_map(f))
                ok = any(v in COMPLETE for _, v in views)
                rep.ob(rule + ' (a) complete seed', where, construct, f.loc(c), ok,
                       f"avoid set is the expression `{norm(avoid)}`" + ('' if ok else ' which is not a complete label registry'))
                continue
            alias = _alias_map(owner)
            seeds = seeds_of(owner, avoid.id)
            views: List[Tuple[str, str]] = []
            for kind, src, st in seeds:
                views += registry_views(src, alias)
                # also resolve a Name source that is itself an alias of a registry view
                if isinstance(src, ast.Name):
                    for n in own_nodes(owner.node):
                        if isinstance(n, ast.Assign) and any(isinstance(t, ast.Name) and t.id == src.id for t in n.targets):
                            views += registry_views(n.value, alias)
            complete = {r for r, v in views if v in COMPLETE}
            partial = {r for r, v in views if v in PARTIAL}
            is_param = avoid.id in owner.param_names()
            bad_partial = sorted(partial - complete)
            rep.ob(rule + ' (a) no partial view', owner.fq(), f"seeds of avoid set `{avoid.id}` for {construct}", owner.loc(), not bad_partial,
                   (f"`{avoid.id}` is seeded from the partial registry view(s) {[r + '.nonterminals()/terminals()' for r in bad_partial]} "
                    f"without {[r + '.edge_labels()' for r in bad_partial]}: a fresh name may collide with a label of the other kind")
                   if bad_partial else f"seed views: {sorted(set(views))}")
            # every object whose labels the owner reads must be completely seeded
            readers = set()
            for x in own_nodes(owner.node, into_lambdas=True):
                if isinstance(x, ast.Call) and isinstance(x.func, ast.Attribute) and x.func.attr in PARTIAL | COMPLETE | {'all_rules'} and not x.args:
                    rt = _recv_text(x.func.value, alias)
                    if rt.split('.')[0] in owner.param_names():
                        readers.add(rt)
            unseeded = sorted(readers - complete)
            if readers:
                rep.ob(rule + ' (a) every source seeded', owner.fq(), f"avoid set `{avoid.id}` covers every label source of {owner.name}", owner.loc(),
                       not unseeded or is_param and not seeds,
                       f"label sources read: {sorted(readers)}; completely seeded: {sorted(complete)}" + (f"; not seeded: {unseeded}" if unseeded else ''))
            if not is_param:
                rep.ob(rule + ' (a) complete seed', owner.fq(), f"avoid set `{avoid.id}` for {construct}", owner.loc(), bool(complete),
                       f"complete registries seeded: {sorted(complete)}" if complete else f"`{avoid.id}` is never seeded from a complete registry (X.edge_labels())")
            if is_param:
                # callers that supply the avoid set: their seeds are checked the same way
                for g2 in prog.all_functions():
                    for c2 in calls_named(g2, owner.name):
                        arg = None
                        for k in c2.keywords:
                            if k.arg == avoid.id: arg = k.value
                        pos = owner.positional_params()
                        if arg is None and avoid.id in pos and pos.index(avoid.id) < len(c2.args):
                            arg = c2.args[pos.index(avoid.id)]
                        if not isinstance(arg, ast.Name) or arg.id not in prog.local_names(g2):
                            continue
                        if arg.id in g2.param_names():
                            continue
                        al2 = _alias_map(g2)
                        v2: List[Tuple[str, str]] = []
                        for kind, src, st in seeds_of(g2, arg.id):
                            v2 += registry_views(src, al2)
                        comp2 = {r for r, v in v2 if v in COMPLETE}
                        part2 = sorted({r for r, v in v2 if v in PARTIAL} - comp2)
                        readers2 = set()
                        for x in own_nodes(g2.node, into_lambdas=True):
                            if isinstance(x, ast.Call) and isinstance(x.func, ast.Attribute) and x.func.attr in PARTIAL | COMPLETE | {'all_rules'} and not x.args:
                                rt = _recv_text(x.func.value, al2)
                                if rt.split('.')[0] in g2.param_names():
                                    readers2.add(rt)
                        unseeded2 = sorted(readers2 - comp2)
                        if unseeded2:
                            part2 = part2 + [f"{u} (its labels are read but never seeded)" for u in unseeded2]
                        rep.ob(rule + ' (a) complete seed', g2.fq(), f"avoid set `{arg.id}` passed to {owner.name}(...)", g2.loc(c2),
                               bool(comp2) and not part2,
                               f"complete registries seeded: {sorted(comp2)}" + (f"; partial views without the complete one: {part2}" if part2 else '')
                               if comp2 else f"`{arg.id}` is never seeded from a complete registry (X.edge_labels()); seeds: {sorted(set(v2))}")
            # ---- (b) add-before-reuse
            cfg = cfg_of(f)
            st = enclosing_stmt(f, c)
            node = cfg.node_of(st)
            if node is None:
                rep.error(f"{rule}: {f.loc(c)} cannot place the call in the CFG")
                continue
            resdeps = set()
            if isinstance(st, ast.Assign):
                seeds_names = set()
                for t in st.targets:
                    seeds_names |= {x.id for x in ast.walk(t) if isinstance(x, ast.Name)}
                resdeps = depends_on(f, seeds_names) if seeds_names else set()

            def is_add(n: int) -> bool:
                s = cfg.nodes[n].stmt
                if s is None or cfg.nodes[n].kind != 'stmt':
                    return False
                for x in ast.walk(s):
                    if isinstance(x, ast.Call) and isinstance(x.func, ast.Attribute) and x.func.attr in ('add', 'update') \
                            and isinstance(x.func.value, ast.Name) and x.func.value.id == avoid.id \
                            and x.args and (names_in(x.args[0]) & resdeps):
                        return True
                return False

            def is_reuse(n: int) -> bool:
                if n == node:
                    return False
                s = cfg.nodes[n].stmt
                if s is None:
                    return False
                exprs = [cfg.nodes[n].expr] if cfg.nodes[n].kind in ('test', 'for') and cfg.nodes[n].expr is not None else [s] if cfg.nodes[n].kind not in ('test', 'for', 'with') else []
                for e in exprs:
                    for x in ast.walk(e):
                        if isinstance(x, ast.Call):
                            nm = callee_last(x)
                            if nm == 'unique_label_name' or nm == f.name or (f.parent is not None and nm == f.parent.name):
                                return True
                            if any(isinstance(a, ast.Name) and a.id == avoid.id for a in list(x.args) + [k.value for k in x.keywords]):
                                return True
                return False
            loops = cfg.nodes[node].loops
            targets = {n for n in cfg.nodes if is_reuse(n)} | set(loops)
            recursive = any(isinstance(x, ast.Call) and callee_last(x) == f.name for x in own_nodes(f.node))
            if recursive or loops:
                targets.add(cfg.exit)
            if not targets:
                rep.ob(rule + ' (b) add before reuse', where, construct, f.loc(c), True,
                       'single call per invocation on a set that is not used again: nothing to protect', nontrivial=False)
                continue
            starts = [b for b, l in cfg.succ[node] if l != 'exc']
            ok = True; wit = None
            for s0 in starts:
                o, w = cfg.all_paths_pass(s0, is_add, targets=targets)
                if not o:
                    ok = False; wit = w
            rep.ob(rule + ' (b) add before reuse', where, construct, f.loc(c), ok,
                   'the label built from the fresh name is added to the avoid set on every path before the set is consulted again'
                   if ok else 'a path reaches the next use of the avoid set (loop / recursion / another call) without adding the new label: '
                   + ' -> '.join(cfg.describe(n) for n in (wit or [])[:6]))
    return n_calls


def check_generators_once(rep: Report, prog: Program, rule: str, funcs: List[FuncInfo]) -> int:
    """A local bound to a generator expression is a one-shot iterable: it may be consumed (iterated, tested with `in`,
    passed to a consumer) at most once on any path; a consumption inside a loop counts as repeated."""
    n = 0
    for f in funcs:
        cfg = cfg_of(f)
        gens = {}
        for a in own_nodes(f.node):
            if isinstance(a, ast.Assign) and len(a.targets) == 1 and isinstance(a.targets[0], ast.Name) and isinstance(a.value, ast.GeneratorExp):
                gens[a.targets[0].id] = a
        for name, a in gens.items():
            n += 1
            def consumes(nd) -> bool:
                exprs = []
                if nd.kind in ('test', 'for') and nd.expr is not None: exprs = [nd.expr]
                elif nd.kind in ('stmt', 'return') and nd.stmt is not None and nd.stmt is not a: exprs = [nd.stmt]
                for e in exprs:
                    for x in ast.walk(e):
                        if isinstance(x, ast.Compare) and any(isinstance(o, (ast.In, ast.NotIn)) for o in x.ops) and any(isinstance(c, ast.Name) and c.id == name for c in x.comparators):
                            return True
                        if isinstance(x, ast.Call) and any(isinstance(arg, ast.Name) and arg.id == name for arg in x.args) and callee_last(x) != 'next':
                            return True
                        if isinstance(x, ast.comprehension) and isinstance(x.iter, ast.Name) and x.iter.id == name:
                            return True
                    if nd.kind == 'for' and isinstance(nd.expr, ast.Name) and nd.expr.id == name:
                        return True
                return False
            cons = [m for m, nd in cfg.nodes.items() if consumes(nd)]
            bad = None
            for m in cons:
                succs = [b for b, l in cfg.succ[m] if l != 'exc']
                reach = cfg.reachable(succs)
                again = [k for k in cons if k in reach]
                if again:
                    bad = (m, again[0]); break
            rep.ob(rule, f.fq(), f"{norm(a)[:80]} (one-shot generator)", f.loc(a), bad is None,
                   'consumed at most once' if bad is None else
                   f"consumed at {cfg.describe(bad[0])} and again at {cfg.describe(bad[1])}: the second use only sees what the first left over")
    return n


def check_returns_verified(rep: Report, rule: str, f: FuncInfo) -> int:
    """unique_label_name(base, avoid): whatever is returned was, on every path, last seen failing a membership test against the
    names to avoid -- walking back from each `return X`, every path meets the false side of `X in <names>` (or the true side of
    `X not in <names>`) before it meets a binding of X or the function entry.  A name computed and returned untested (a count of
    the names taken so far, a suffix remembered from last time) is only unique under assumptions about how the names were made."""
    import ast as _ast
    from ..cfg import cfg_of
    from ..guards import collect_atoms, assigned_names
    from ..model import norm as _norm, names_in as _names_in
    cfg = cfg_of(f)
    n = 0
    for r, nd in cfg.nodes.items():
        if nd.kind != 'return' or nd.stmt is None or nd.stmt.value is None:
            continue
        n += 1
        X = _norm(nd.stmt.value)
        xnames = _names_in(nd.stmt.value)
        bad = None
        seen = set()
        work = [(r, None)]
        while work and bad is None:
            m, via = work.pop()
            for p_, lab in cfg.pred[m]:
                if lab == 'exc' or (p_, lab) in seen:
                    continue
                seen.add((p_, lab))
                pn = cfg.nodes[p_]
                if pn.kind == 'test' and pn.expr is not None:
                    ok_edge = False
                    e = pn.expr
                    neg = False
                    while isinstance(e, _ast.UnaryOp) and isinstance(e.op, _ast.Not):
                        e = e.operand; neg = not neg
                    if isinstance(e, _ast.Compare) and len(e.ops) == 1 and isinstance(e.ops[0], (_ast.In, _ast.NotIn)) and _norm(e.left) == X:
                        is_in = isinstance(e.ops[0], _ast.In) != neg
                        ok_edge = (lab == 'false') if is_in else (lab == 'true')
                    if ok_edge:
                        continue                       # verified on this path
                    work.append((p_, lab))
                    continue
                if pn.kind == 'entry':
                    bad = 'the function entry'
                    break
                if pn.kind in ('stmt', 'for', 'with') and pn.stmt is not None and (assigned_names(pn.stmt) & xnames):
                    bad = f"`{_norm(pn.stmt)[:60]}`"
                    break
                work.append((p_, lab))
        rep.ob(rule, f.fq(), f"return {X[:50]}: tested against the names to avoid after it was last computed", f.loc(nd.stmt), bad is None,
               'every path to this return comes from the not-in side of a membership test of the returned name' if bad is None else
               f"a path reaches this return from {bad} without testing `{X[:40]}` against the names to avoid: the name is fresh only if the existing names follow the pattern the computation assumes")
    return n
