"""E5 budget-must-warn: a loop whose trip count is bounded by an iteration-budget parameter must reach a
warning on every path from its *budget exit* (range exhausted / counter conjunct false) to the function exit.

Guards on that path that compare the loop counter with the bound are evaluated under the fact the exit establishes:
  for X in range(B)            exhausted  =>  X == B-1
  while ... and C <= B ...     false by the counter conjunct, C initialised to a constant and stepped by +1 => C == B+1
Boolean flags assigned only constants are tracked (convergence flag set right before `break`).
"""
from __future__ import annotations
import ast
from typing import Dict, List, Optional, Set, Tuple
from ..model import FuncInfo, own_nodes, norm, names_in
from ..cfg import cfg_of, CFG
from ..guards import Env, walk
from ..util import depends_on, callee_last, assignments_to
from ..report import Report


def affine(e: ast.AST) -> Optional[Tuple[str, int]]:
    """e == S + c  ->  (text of S, c)."""
    if isinstance(e, ast.BinOp) and isinstance(e.op, (ast.Add, ast.Sub)):
        if isinstance(e.right, ast.Constant) and isinstance(e.right.value, int):
            a = affine(e.left)
            if a: return (a[0], a[1] + (e.right.value if isinstance(e.op, ast.Add) else -e.right.value))
        if isinstance(e.left, ast.Constant) and isinstance(e.left.value, int) and isinstance(e.op, ast.Add):
            a = affine(e.right)
            if a: return (a[0], a[1] + e.left.value)
        return None
    if isinstance(e, ast.Constant):
        return ('', e.value) if isinstance(e.value, int) and not isinstance(e.value, bool) else None
    return (norm(e), 0)


class Fact:
    def __init__(self, counter: str, kind: str, sym: str, off: int):
        self.counter, self.kind, self.sym, self.off = counter, kind, sym, off  # kind: 'eq' | 'ge'

    def __str__(self):
        op = '==' if self.kind == 'eq' else '>='
        return f"{self.counter} {op} {self.sym}{self.off:+d}"

    def decide(self, e: ast.AST) -> Optional[bool]:
        if not isinstance(e, ast.Compare) or len(e.ops) != 1:
            return None
        l, op, r = e.left, e.ops[0], e.comparators[0]
        if isinstance(r, ast.Name) and r.id == self.counter and not (isinstance(l, ast.Name) and l.id == self.counter):
            l, r = r, l
            op = {ast.Lt: ast.Gt, ast.Gt: ast.Lt, ast.LtE: ast.GtE, ast.GtE: ast.LtE}.get(type(op), type(op))()
        if not (isinstance(l, ast.Name) and l.id == self.counter):
            return None
        a = affine(r)
        if a is None or a[0] != self.sym:
            return None
        c, d = self.off, a[1]
        t = type(op)
        if self.kind == 'eq':
            return {ast.Eq: c == d, ast.NotEq: c != d, ast.Lt: c < d, ast.LtE: c <= d, ast.Gt: c > d, ast.GtE: c >= d}.get(t)
        # counter >= sym + c
        if t is ast.Gt: return True if c > d else None
        if t is ast.GtE: return True if c >= d else None
        if t is ast.Lt: return False if c >= d else None
        if t is ast.LtE: return False if c > d else None
        if t is ast.Eq: return False if c > d else None
        if t is ast.NotEq: return True if c > d else None
        return None


def _is_warn(cfg: CFG, n: int) -> bool:
    st = cfg.nodes[n].stmt
    if st is None or cfg.nodes[n].kind not in ('stmt',):
        return False
    for x in ast.walk(st):
        if isinstance(x, ast.Call) and callee_last(x) == 'warn':
            return True
    return False


def _const_flags(f: FuncInfo) -> Dict[str, List[ast.Assign]]:
    """Names that are only ever assigned boolean constants in f."""
    cands: Dict[str, List[ast.Assign]] = {}
    bad: Set[str] = set(f.param_names())
    for n in own_nodes(f.node):
        if isinstance(n, ast.Assign) and len(n.targets) == 1 and isinstance(n.targets[0], ast.Name):
            nm = n.targets[0].id
            if isinstance(n.value, ast.Constant) and isinstance(n.value.value, bool):
                cands.setdefault(nm, []).append(n)
            else:
                bad.add(nm)
        elif isinstance(n, ast.Name) and isinstance(n.ctx, ast.Store):
            pass
    for n in own_nodes(f.node):
        if isinstance(n, (ast.AugAssign, ast.AnnAssign)) and isinstance(n.target, ast.Name):
            bad.add(n.target.id)
        elif isinstance(n, (ast.For, ast.comprehension)):
            bad |= names_in(n.target)
        elif isinstance(n, ast.Assign):
            for t in n.targets:
                if not isinstance(t, ast.Name):
                    bad |= {x.id for x in ast.walk(t) if isinstance(x, ast.Name) and isinstance(x.ctx, ast.Store)}
    return {k: v for k, v in cands.items() if k not in bad}


def check_budget_loops(rep: Report, f: FuncInfo, budget_param: str, rule: str) -> int:
    """Returns the number of budget loops recognised in f."""
    cfg = cfg_of(f)
    deps = depends_on(f, {budget_param})
    where = f.fq()
    found = 0
    for hid, nd in sorted(cfg.nodes.items()):
        fact: Optional[Fact] = None
        exit_label = None
        construct = None
        if nd.kind == 'for' and isinstance(nd.expr, ast.Call) and callee_last(nd.expr) == 'range' and names_in(nd.expr) & deps:
            args = nd.expr.args
            construct = f"for {norm(nd.stmt.target)} in {norm(nd.expr)}"
            found += 1
            if len(args) not in (1, 2) or not isinstance(nd.stmt.target, ast.Name):
                rep.error(f"{rule}: {f.loc(nd.stmt)} budget loop `{construct}` has a form the rule does not model (step/tuple target)")
                continue
            a = affine(args[-1])
            if a is None:
                rep.error(f"{rule}: {f.loc(nd.stmt)} bound of `{construct}` is not of the form <expr> +/- const")
                continue
            fact = Fact(nd.stmt.target.id, 'eq', a[0], a[1] - 1)
            exit_label = 'exhaust'
        elif nd.kind == 'test' and isinstance(nd.stmt, ast.While):
            conj = nd.expr.values if isinstance(nd.expr, ast.BoolOp) and isinstance(nd.expr.op, ast.And) else [nd.expr]
            bc = [c for c in conj if isinstance(c, ast.Compare) and len(c.ops) == 1 and names_in(c) & deps]
            if not bc:
                continue
            found += 1
            construct = f"while {norm(nd.expr)}"
            c = bc[0]
            l, op, r = c.left, c.ops[0], c.comparators[0]
            if not isinstance(l, ast.Name) or names_in(l) & deps:
                if isinstance(r, ast.Name) and not (names_in(r) & deps):
                    l, r = r, l
                    op = {ast.Lt: ast.Gt, ast.Gt: ast.Lt, ast.LtE: ast.GtE, ast.GtE: ast.LtE}.get(type(op), type(op))()
                else:
                    rep.error(f"{rule}: {f.loc(nd.stmt)} cannot identify the counter in `{norm(c)}`")
                    continue
            a = affine(r)
            if a is None or not isinstance(op, (ast.Lt, ast.LtE)):
                rep.error(f"{rule}: {f.loc(nd.stmt)} budget conjunct `{norm(c)}` is not `counter < bound` / `counter <= bound`")
                continue
            counter = l.id
            # counter discipline: constant initialisation, only `counter += 1` inside the loop
            asg = assignments_to(f, counter)
            inits = [s for s in asg if not isinstance(s, ast.AugAssign)]
            steps = [s for s in asg if isinstance(s, ast.AugAssign)]
            exact = bool(inits) and all(_const_init(s, counter) is not None for s in inits) and bool(steps) and all(
                isinstance(s.op, ast.Add) and isinstance(s.value, ast.Constant) and s.value.value == 1 for s in steps)
            off = a[1] + (1 if isinstance(op, ast.LtE) else 0)
            fact = Fact(counter, 'eq' if exact else 'ge', a[0], off)
            exit_label = 'false'
            # progress: every trip round the loop increases the counter (otherwise the budget never runs out)
            be_ = [b for b, l_ in cfg.succ[hid] if l_ == 'true']
            def _steps(k, counter=counter):
                st_ = cfg.nodes[k].stmt
                if cfg.nodes[k].kind != 'stmt' or st_ is None:
                    return False
                if isinstance(st_, ast.AugAssign) and isinstance(st_.target, ast.Name) and st_.target.id == counter and isinstance(st_.op, ast.Add):
                    return True
                return isinstance(st_, ast.Assign) and any(isinstance(t_, ast.Name) and t_.id == counter for t_ in st_.targets) and isinstance(st_.value, ast.BinOp) \
                    and isinstance(st_.value.op, ast.Add) and counter in names_in(st_.value)
            okp = bool(be_) and cfg.all_paths_pass(be_[0], _steps, targets={hid})[0]
            rep.ob(rule + ' progress', where, f"while {norm(nd.expr)}: `{counter}` grows on every iteration", f.loc(nd.stmt), okp,
                   'the counter is incremented on every path back to the loop test' if okp else
                   f"an iteration can return to the loop test without increasing `{counter}`: the budget is never exhausted, a non-converging iteration runs forever instead of warning")
        else:
            continue
        starts = [b for b, l in cfg.succ[hid] if l == exit_label]
        if not starts:
            rep.error(f"{rule}: {f.loc(nd.stmt)} `{construct}` has no budget exit edge")
            continue
        # flags: value at the budget exit = pre-loop constant if every in-loop assignment leads to break (cannot reach the header again)
        flags = _const_flags(f)
        atoms: Dict[str, bool] = {}
        body = cfg.loop_body.get(hid, set())
        for nm, assigns in flags.items():
            pre = [s for s in assigns if cfg.node_of(s) not in body]
            inl = [s for s in assigns if cfg.node_of(s) in body]
            if len(pre) != 1 or exit_label != 'exhaust':
                continue
            if all(hid not in cfg.reachable([cfg.node_of(s)], skip_labels=('exc', 'break')) for s in inl):
                atoms[nm] = bool(pre[0].value.value)
        env = Env(atoms=atoms, hook=fact.decide)
        start = starts[0]
        stop = lambda n: _is_warn(cfg, n)
        r_both = walk(cfg, start, env, stop=stop, unknown='both')
        und: Set[int] = set()
        r_dec = walk(cfg, start, env, stop=stop, unknown='block', track_undecided=und)
        detail = f"budget exit establishes {fact}" + (f", flags {atoms}" if atoms else '')
        if cfg.exit not in r_both:
            rep.ob(rule, where, construct, f.loc(nd.stmt), True, detail + "; every path from the budget exit to the function exit passes a warn(...) call")
        elif cfg.exit in r_dec:
            guards = [cfg.describe(n) for n in sorted(r_dec) if cfg.nodes[n].kind == 'test' and n != hid]
            rep.ob(rule, where, construct, f.loc(nd.stmt), False,
                   detail + "; a path from the budget exit reaches the function exit without any warn(...) call"
                   + (f"; guards decided on it: {guards}" if guards else ''),
                   trace={'fact': str(fact), 'path_nodes': [cfg.describe(n) for n in sorted(r_dec)]})
        else:
            rep.error(f"{rule}: {f.loc(nd.stmt)} `{construct}`: whether the warning is reached depends on guards the rule cannot evaluate: "
                      + '; '.join(cfg.describe(n) for n in sorted(und)))
    return found


def _const_init(s: ast.AST, name: str) -> Optional[int]:
    if isinstance(s, ast.Assign) and len(s.targets) == 1:
        t, v = s.targets[0], s.value
        if isinstance(t, ast.Name) and isinstance(v, ast.Constant) and isinstance(v.value, int):
            return v.value
        if isinstance(t, ast.Tuple) and isinstance(v, ast.Tuple) and len(t.elts) == len(v.elts):
            for a, b in zip(t.elts, v.elts):
                if isinstance(a, ast.Name) and a.id == name and isinstance(b, ast.Constant) and isinstance(b.value, int):
                    return b.value
    return None
