"""E5 accumulate-all: a loop that builds its result by appending to a list must contribute on every non-raising
path of every iteration and must not leave the function from inside the loop."""
from __future__ import annotations
import ast
from typing import List, Optional, Set
from ..model import FuncInfo, own_nodes, norm, names_in
from ..cfg import cfg_of
from ..report import Report


def _appends(cfg, n: int, acc: str, methods=('append', 'extend', 'add', 'update')) -> bool:
    nd = cfg.nodes[n]
    if nd.kind != 'stmt' or nd.stmt is None:
        return False
    for x in ast.walk(nd.stmt):
        if isinstance(x, ast.Call) and isinstance(x.func, ast.Attribute) and x.func.attr in methods \
                and isinstance(x.func.value, ast.Name) and x.func.value.id == acc:
            return True
    return False


def check_accumulate(rep: Report, rule: str, f: FuncInfo, loop: ast.For, acc: str, extra_contrib=None) -> None:
    cfg = cfg_of(f)
    hdr = cfg.node_of(loop)
    construct = f"for {norm(loop.target)} in {norm(loop.iter)}: ... {acc}.append(...)"
    body_entry = [b for b, l in cfg.succ[hdr] if l == 'iter'][0]
    contrib = lambda n: _appends(cfg, n, acc) or (extra_contrib is not None and extra_contrib(cfg, n))
    # (1) leaving the function from inside the loop
    body = cfg.loop_body.get(hdr, set())
    rets = [n for n in body if cfg.nodes[n].kind == 'return']
    rep.ob(rule + ' no-return-in-loop', f.fq(), construct, f.loc(loop), not rets,
           'no return statement inside the loop' if not rets else
           'the loop returns from the function at ' + ', '.join(cfg.describe(n) for n in rets) + ': the remaining iterations never contribute')
    # (2) every iteration contributes: every path from the body entry back to the header (or out through break) passes a contribution
    after = [b for b, l in cfg.succ[hdr] if l == 'exhaust']
    targets = {hdr} | set(after)
    ok, wit = cfg.all_paths_pass(body_entry, contrib, targets=targets)
    rep.ob(rule + ' every-iteration-contributes', f.fq(), construct, f.loc(loop), ok,
           'every non-raising path through one iteration passes a contribution to the accumulator' if ok else
           'an iteration can finish without contributing: ' + ' -> '.join(cfg.describe(n) for n in (wit or [])[:8]))


def find_accumulating_loops(f: FuncInfo) -> List:
    """(loop, accumulator) pairs: top-level-in-function `for` loops appending to a list initialised to [] earlier."""
    inits = {}
    for n in own_nodes(f.node):
        if isinstance(n, ast.Assign) and len(n.targets) == 1 and isinstance(n.targets[0], ast.Name) \
                and isinstance(n.value, (ast.List, ast.Dict, ast.Set)) and not getattr(n.value, 'elts', getattr(n.value, 'keys', [])):
            inits[n.targets[0].id] = n
        elif isinstance(n, ast.AnnAssign) and isinstance(n.target, ast.Name) and isinstance(n.value, (ast.List, ast.Dict)) \
                and not getattr(n.value, 'elts', getattr(n.value, 'keys', [])):
            inits[n.target.id] = n
    out = []
    for n in own_nodes(f.node):
        if isinstance(n, ast.For):
            for x in ast.walk(n):
                if isinstance(x, ast.Call) and isinstance(x.func, ast.Attribute) and x.func.attr in ('append',) \
                        and isinstance(x.func.value, ast.Name) and x.func.value.id in inits and inits[x.func.value.id].lineno < n.lineno:
                    if (n, x.func.value.id) not in out:
                        out.append((n, x.func.value.id))
    return out
