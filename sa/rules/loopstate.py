"""Iteration-local state of a per-component loop: a name that the loop body binds and reads must be bound on every path from
the start of the iteration to the read -- otherwise the read can see the value left behind by the previous iteration
(the flag computed for the previous component, the result of the previous component).

Inner `for` loops are assumed to run at least once when first reached (stated in the obligation); names that are only
ever augmented (`n += 1`: accumulators) are carried by design and skipped."""
from __future__ import annotations
import ast
from typing import Dict, List, Optional, Set, Tuple
from ..model import FuncInfo, norm, own_nodes
from ..cfg import cfg_of, CFG
from ..report import Report


def _bound_names(st: ast.AST) -> Set[str]:
    out: Set[str] = set()
    for x in ast.walk(st):
        if isinstance(x, ast.Name) and isinstance(x.ctx, ast.Store):
            out.add(x.id)
    return out


def _node_binds(cfg: CFG, n: int) -> Set[str]:
    nd = cfg.nodes[n]
    st = nd.stmt
    if st is None:
        return set()
    if nd.kind == 'for':
        return _bound_names(st.target)
    if nd.kind == 'stmt':
        if isinstance(st, (ast.FunctionDef, ast.ClassDef)):
            return {st.name}
        if isinstance(st, ast.AugAssign):
            return set()
        if isinstance(st, (ast.Assign, ast.AnnAssign, ast.Import, ast.ImportFrom, ast.Delete)):
            out = set()
            for t in (st.targets if isinstance(st, ast.Assign) else [st.target] if isinstance(st, ast.AnnAssign) and st.value is not None else []):
                out |= _bound_names(t)
            return out
    if nd.kind == 'with':
        out = set()
        for i in st.items:
            if i.optional_vars is not None:
                out |= _bound_names(i.optional_vars)
        return out
    if nd.kind == 'except' and getattr(st, 'name', None):
        return {st.name}
    # walrus inside tests / expressions
    e = nd.expr if nd.kind in ('test', 'return', 'assert') else None
    if e is not None:
        return {x.target.id for x in ast.walk(e) if isinstance(x, ast.NamedExpr) and isinstance(x.target, ast.Name)}
    return set()


def _node_reads(cfg: CFG, n: int) -> Set[str]:
    nd = cfg.nodes[n]
    st = nd.stmt
    if st is None:
        return set()
    if nd.kind in ('test', 'for', 'except', 'return', 'assert', 'raise'):
        roots = [nd.expr] if nd.expr is not None else []
    elif nd.kind == 'with':
        roots = [i.context_expr for i in st.items]
    elif nd.kind == 'stmt':
        if isinstance(st, (ast.FunctionDef, ast.ClassDef)):
            roots = []          # closures read at call time
        else:
            roots = [st]
    else:
        roots = []
    out: Set[str] = set()
    def visit(x: ast.AST, hidden: frozenset) -> None:
        if isinstance(x, (ast.ListComp, ast.SetComp, ast.GeneratorExp, ast.DictComp)):
            # names bound by the generators are local to the comprehension (the first iterable is evaluated outside)
            local = frozenset(n for g in x.generators for n in _bound_names(g.target))
            visit(x.generators[0].iter, hidden)
            inner = hidden | local
            for i, g in enumerate(x.generators):
                if i > 0:
                    visit(g.iter, inner)
                for c in g.ifs:
                    visit(c, inner)
            for part in ([x.key, x.value] if isinstance(x, ast.DictComp) else [x.elt]):
                visit(part, inner)
            return
        if isinstance(x, ast.Lambda):
            visit(x.body, hidden | frozenset(a.arg for a in x.args.args + x.args.posonlyargs + x.args.kwonlyargs))
            return
        if isinstance(x, ast.Name) and isinstance(x.ctx, ast.Load) and x.id not in hidden:
            out.add(x.id)
        if isinstance(x, ast.AugAssign) and isinstance(x.target, ast.Name):
            out.add(x.target.id)
        for c in ast.iter_child_nodes(x):
            visit(c, hidden)
    for r in roots:
        visit(r, frozenset())
    return out


def check_iteration_local(rep: Report, rule: str, f: FuncInfo, loop: ast.For, exempt: Set[str] = frozenset()) -> int:
    cfg = cfg_of(f)
    hdr = cfg.node_of(loop)
    body = cfg.loop_body[hdr]
    entry = [b for b, l in cfg.succ[hdr] if l == 'iter'][0]
    binds: Dict[str, Set[int]] = {}
    aug_only: Dict[str, bool] = {}
    for n in body:
        for v in _node_binds(cfg, n):
            binds.setdefault(v, set()).add(n)
    # names bound by the loop header itself are bound at the start of every iteration
    header_bound = _bound_names(loop.target)
    comp_targets = set()
    for n in body:
        st = cfg.nodes[n].stmt
        if st is not None:
            for x in ast.walk(cfg.nodes[n].expr if cfg.nodes[n].kind in ('test', 'for') and cfg.nodes[n].expr is not None else st):
                if isinstance(x, ast.comprehension):
                    comp_targets |= _bound_names(x.target)
    count = 0
    for v in sorted(binds):
        if v in header_bound or v in exempt:
            continue
        readers = [n for n in body if v in _node_reads(cfg, n)]
        if not readers:
            continue
        # search: paths from the iteration entry that avoid every binding of v; inner for-headers run at least once on first arrival
        seen: Set[Tuple[int, bool]] = set()
        stack: List[Tuple[int, Optional[int], List[int]]] = [(entry, hdr, [entry])]
        witness: Optional[List[int]] = None
        reached: Set[int] = set()
        while stack and witness is None:
            n, prev, path = stack.pop()
            if n not in body or n == hdr:
                continue
            nd = cfg.nodes[n]
            if n in readers and not (n in binds[v] and nd.kind == 'for'):
                # a statement such as `x = f(x)` reads before it binds
                witness = path
                break
            if n in binds[v]:
                continue
            for b, lab in cfg.succ[n]:
                if lab == 'exc':
                    continue
                if nd.kind == 'for' and lab == 'exhaust' and not (prev is not None and prev in cfg.loop_body.get(n, set())):
                    continue        # first arrival at an inner for-loop: assume one iteration
                key = (b, n in cfg.loop_body.get(b, set()) if cfg.nodes[b].kind == 'for' else False)
                if key in seen:
                    continue
                seen.add(key)
                stack.append((b, n, path + [b]))
        count += 1
        ok = witness is None
        rep.ob(rule, f.fq(), f"`{v}` is bound in every iteration of `for {norm(loop.target)} in {norm(loop.iter)[:50]}` before it is read", f.loc(loop), ok,
               'every read inside the loop is preceded, on all paths of the same iteration, by a binding (inner for-loops assumed to run at least once)' if ok else
               f"`{v}` can be read at {cfg.describe(witness[-1])} without having been bound in this iteration (path: " + ' -> '.join(cfg.describe(x).split(': ', 1)[0] for x in witness[-5:]) +
               '): it then still holds the value computed for the previous component')
    return count


def multitensor_names(f: FuncInfo, with_params: bool = True) -> Set[str]:
    """Names of `f` that hold a MultiTensor under construction: bound to MultiTensor(...), MultiTensor-annotated parameters, and
    selector names every assignment of which copies one of those (or None): `target = Jx` / `target = J_inputs` / `target = None`."""
    from ..util import callee_last
    multis: Set[str] = set()
    for n in own_nodes(f.node):
        if isinstance(n, (ast.Assign, ast.AnnAssign)) and n.value is not None and isinstance(n.value, ast.Call) and callee_last(n.value) == 'MultiTensor':
            tgts = n.targets if isinstance(n, ast.Assign) else [n.target]
            multis |= {t.id for t in tgts if isinstance(t, ast.Name)}
    if with_params:
        for pn in f.param_names():
            ann = f.param_annotation(pn)
            if ann is not None and 'MultiTensor' in norm(ann):
                multis.add(pn)
    changed = True
    while changed:
        changed = False
        srcs: Dict[str, List[ast.AST]] = {}
        for n in own_nodes(f.node):
            if isinstance(n, ast.Assign) and len(n.targets) == 1 and isinstance(n.targets[0], ast.Name):
                srcs.setdefault(n.targets[0].id, []).append(n.value)
        for name, vals in srcs.items():
            if name not in multis and any(isinstance(v, ast.Name) and v.id in multis for v in vals) \
                    and all(isinstance(v, ast.Name) and v.id in multis or isinstance(v, ast.Constant) and v.value is None for v in vals):
                multis.add(name); changed = True
    return multis


def check_jacobi_sweep(rep: Report, rule: str, f: FuncInfo) -> int:
    """The iterate a sweep function builds (a local bound to MultiTensor(...) and written inside a loop) is an output only: inside
    the loops it is never handed to another computation as an argument.  The products of one sweep read the previous iterate;
    a value that is complete only at the end of the sweep (the sum / maximum over all rules of a nonterminal) must not shadow it."""
    multis = multitensor_names(f)
    # a selector (`target = Jx` / `target = J_inputs`) written inside the loop writes what it selects
    selects: Dict[str, Set[str]] = {}
    for n in own_nodes(f.node):
        if isinstance(n, ast.Assign) and len(n.targets) == 1 and isinstance(n.targets[0], ast.Name) and isinstance(n.value, ast.Name) and n.value.id in multis:
            selects.setdefault(n.targets[0].id, set()).add(n.value.id)
    count = 0
    for loop in [n for n in own_nodes(f.node) if isinstance(n, ast.For)]:
        written = {m for m in multis for x in ast.walk(loop)
                   if isinstance(x, ast.Subscript) and isinstance(x.ctx, ast.Store) and isinstance(x.value, ast.Name) and x.value.id == m
                   or isinstance(x, ast.Call) and isinstance(x.func, ast.Attribute) and x.func.attr == 'add_single' and isinstance(x.func.value, ast.Name) and x.func.value.id == m}
        written |= {src for w in list(written) for src in selects.get(w, ())}
        for m in sorted(written):
            count += 1
            handed = [c for c in ast.walk(loop) if isinstance(c, ast.Call)
                      and any(isinstance(a, ast.Name) and a.id == m or isinstance(a, ast.Starred) and isinstance(a.value, ast.Name) and a.value.id == m
                              for a in list(c.args) + [k.value for k in c.keywords])]
            rep.ob(rule, f.fq(), f"`{m}` is built in `for {norm(loop.target)} in {norm(loop.iter)[:50]}` and read by no computation of the same sweep", f.loc(loop), not handed,
                   'the iterate under construction is only written (and read back block-wise by its own accumulation)' if not handed else
                   f"`{norm(handed[0])[:90]}` receives the iterate under construction: partial values of this sweep (the maximum / sum over the rules seen so far) shadow the previous iterate")
    return count
