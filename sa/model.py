"""E0 -- whole-program model of /repo (fggs/ and bin/), built from source with `ast` only.

Nothing here imports or executes the analysed code.
"""
from __future__ import annotations
import ast, os, hashlib
from dataclasses import dataclass, field
from typing import Dict, List, Optional, Tuple, Iterator, Set, Any


from .inline import inline_new_helpers, load_inventory, normalize_aliases, desugar_modern_syntax, relocate_moved_definitions, _abs_module


class AnalysisError(Exception):
    """An anchor vanished / an idiom is not recognised: exit 2, never a verdict."""


FUNC_NODES = (ast.FunctionDef, ast.AsyncFunctionDef, ast.Lambda)


@dataclass
class FuncInfo:
    qualname: str                    # 'PatternedTensor.add', 'factorize_rule.visit', 'f.<lambda@12:3>'
    module: "Module"
    node: ast.AST                    # FunctionDef or Lambda
    cls: Optional["ClassInfo"] = None
    parent: Optional["FuncInfo"] = None
    decorators: List[str] = field(default_factory=list)
    children: List["FuncInfo"] = field(default_factory=list)

    @property
    def name(self) -> str:
        return self.qualname.rsplit('.', 1)[-1]

    @property
    def is_lambda(self) -> bool:
        return isinstance(self.node, ast.Lambda)

    @property
    def is_static(self) -> bool:
        return 'staticmethod' in self.decorators

    @property
    def is_property(self) -> bool:
        return 'property' in self.decorators

    @property
    def is_setter(self) -> bool:
        return any(d.endswith('.setter') for d in self.decorators)

    @property
    def is_method(self) -> bool:
        return self.cls is not None and self.parent is None

    @property
    def args(self) -> ast.arguments:
        return self.node.args

    def param_names(self, with_self: bool = True) -> List[str]:
        a = self.node.args
        names = [x.arg for x in a.posonlyargs + a.args]
        if a.vararg: names.append(a.vararg.arg)
        names += [x.arg for x in a.kwonlyargs]
        if a.kwarg: names.append(a.kwarg.arg)
        if not with_self and self.is_method and not self.is_static and names:
            names = names[1:]
        return names

    def positional_params(self) -> List[str]:
        a = self.node.args
        return [x.arg for x in a.posonlyargs + a.args]

    def self_name(self) -> Optional[str]:
        if self.is_method and not self.is_static:
            pos = self.positional_params()
            return pos[0] if pos else None
        return None

    def param_annotation(self, name: str) -> Optional[ast.AST]:
        a = self.node.args
        for x in a.posonlyargs + a.args + a.kwonlyargs + ([a.vararg] if a.vararg else []) + ([a.kwarg] if a.kwarg else []):
            if x.arg == name:
                return x.annotation
        return None

    def param_default(self, name: str) -> Optional[ast.AST]:
        a = self.node.args
        pos = a.posonlyargs + a.args
        nd = len(a.defaults)
        for i, x in enumerate(pos):
            if x.arg == name:
                j = i - (len(pos) - nd)
                return a.defaults[j] if j >= 0 else None
        for x, d in zip(a.kwonlyargs, a.kw_defaults):
            if x.arg == name:
                return d
        return None

    @property
    def body(self) -> List[ast.stmt]:
        if self.is_lambda:
            r = ast.Return(value=self.node.body)
            ast.copy_location(r, self.node.body)
            return [r]
        return self.node.body

    @property
    def lineno(self) -> int:
        return getattr(self.node, 'lineno', 0)

    def loc(self, node: Optional[ast.AST] = None) -> str:
        n = node if node is not None else self.node
        return f"{getattr(n, '_src_file', self.module.relpath)}:{getattr(n, '_src_lineno', getattr(n, 'lineno', self.lineno))}"

    def fq(self) -> str:
        return f"{self.module.name}:{self.qualname}"

    def __hash__(self):
        return hash((self.module.name, self.qualname))

    def __eq__(self, other):
        return isinstance(other, FuncInfo) and self.module.name == other.module.name and self.qualname == other.qualname

    def __repr__(self):
        return f"<Func {self.fq()}>"


@dataclass
class ClassInfo:
    name: str
    module: "Module"
    node: ast.ClassDef
    base_exprs: List[ast.AST] = field(default_factory=list)
    methods: Dict[str, FuncInfo] = field(default_factory=dict)
    setters: Dict[str, FuncInfo] = field(default_factory=dict)
    aliases: Dict[str, ast.AST] = field(default_factory=dict)   # name = <expr> at class level
    fields: Dict[str, Optional[ast.AST]] = field(default_factory=dict)  # annotated class-level names -> annotation
    decorators: List[str] = field(default_factory=list)
    dataclass_kw: Dict[str, Any] = field(default_factory=dict)

    @property
    def is_dataclass(self) -> bool:
        return 'dataclass' in self.decorators

    @property
    def is_frozen(self) -> bool:
        return bool(self.dataclass_kw.get('frozen'))

    def fq(self) -> str:
        return f"{self.module.name}:{self.name}"

    def __hash__(self):
        return hash((self.module.name, self.name))

    def __eq__(self, other):
        return isinstance(other, ClassInfo) and self.fq() == other.fq()

    def __repr__(self):
        return f"<Class {self.fq()}>"


@dataclass
class Module:
    name: str          # 'fggs.indices', 'bin.sum_product'
    path: str
    relpath: str
    source: str
    tree: ast.Module
    functions: Dict[str, FuncInfo] = field(default_factory=dict)   # by qualname (all nesting levels)
    classes: Dict[str, ClassInfo] = field(default_factory=dict)
    imports: Dict[str, Tuple] = field(default_factory=dict)        # local -> ('module', modname) | ('symbol', modname, name)
    star_imports: List[str] = field(default_factory=list)
    all_names: Optional[List[str]] = None
    globals_assigned: Dict[str, ast.AST] = field(default_factory=dict)  # module-level name = expr (last)

    def digest(self) -> str:
        return hashlib.sha256(self.source.encode()).hexdigest()[:16]


def decorator_name(d: ast.AST) -> str:
    if isinstance(d, ast.Call):
        d = d.func
    try:
        return ast.unparse(d)
    except Exception:
        return '?'


def own_nodes(root: ast.AST, include_root: bool = False, into_lambdas: bool = False) -> Iterator[ast.AST]:
    """Nodes of a function body excluding nested function/class bodies (and lambdas unless asked)."""
    stack = list(ast.iter_child_nodes(root)) if not include_root else [root]
    # For FunctionDef roots skip decorators/defaults? They are evaluated in the enclosing scope; keep args defaults out.
    if isinstance(root, (ast.FunctionDef, ast.AsyncFunctionDef)) and not include_root:
        stack = list(root.body)
    elif isinstance(root, ast.Lambda) and not include_root:
        stack = [root.body]
    while stack:
        n = stack.pop()
        yield n
        if isinstance(n, (ast.FunctionDef, ast.AsyncFunctionDef, ast.ClassDef)):
            continue
        if isinstance(n, ast.Lambda) and not into_lambdas:
            continue
        stack.extend(ast.iter_child_nodes(n))


class Program:
    def __init__(self, repo: str, packages=('fggs', 'bin'), inline: bool = True):
        self.repo = os.path.abspath(repo)
        self.modules: Dict[str, Module] = {}
        self.parse_errors: List[str] = []
        self.inventory = load_inventory() if inline else set()
        self.new_functions: Set[str] = set()
        self.inline_log: List[str] = []
        parsed = []
        for pkg in packages:
            d = os.path.join(self.repo, pkg)
            if not os.path.isdir(d):
                raise AnalysisError(f"directory {d} not found")
            for fn in sorted(os.listdir(d)):
                if not fn.endswith('.py'):
                    continue
                path = os.path.join(d, fn)
                modname = f"{pkg}.{fn[:-3]}" if fn != '__init__.py' else pkg
                with open(path, encoding='utf-8') as f:
                    src = f.read()
                try:
                    tree = ast.parse(src, filename=path)
                except SyntaxError as e:
                    raise AnalysisError(f"cannot parse {path}: {e}")
                desugar_modern_syntax(tree)        # match / walrus -> if-chains / assignments (no such syntax in the baseline tree)
                if not os.environ.get('SA_NO_ALIAS'):      # selector aliases read through (sa/inline.py normalize_aliases)
                    normalize_aliases(tree)
                parsed.append((modname, path, src, tree))
        if inline:
            from .inline import load_inventory_extras
            from .callstyle import restore_call_style, propagate_new_constants
            base_globals, style = load_inventory_extras()
            from .callstyle import loops_to_comprehensions, membership_set_aliases
            for mn, _, _, t in parsed:
                self.inline_log += propagate_new_constants(t, mn, base_globals)
                membership_set_aliases(t)
                k = loops_to_comprehensions(t)
                if k:
                    self.inline_log.append(f"{mn}: {k} single-statement building loop(s) read as comprehensions")
            n_style = restore_call_style({mn: t for mn, _, _, t in parsed}, style)
            if n_style:
                self.inline_log.append(f"{n_style} argument(s) respelled to the baseline's positional/keyword style")
        # baseline definitions that were moved to another module are analysed where the baseline has them (sa/inline.py)
        self.inline_log += relocate_moved_definitions({mn: t for mn, _, _, t in parsed},
                                                      {mn: os.path.relpath(p, self.repo) for mn, p, _, _ in parsed}, self.inventory)
        from .inline import adopt_foreign_helpers
        self.inline_log += adopt_foreign_helpers({mn: t for mn, _, _, t in parsed}, {mn: os.path.relpath(p, self.repo) for mn, p, _, _ in parsed}, self.inventory)
        from .inline import methods_from_function_aliases
        for modname, path, src, tree in parsed:
            self.inline_log += methods_from_function_aliases(tree, modname, self.inventory)
            # code cut out into functions the baseline does not have is pasted back into its callers (sa/inline.py)
            new, log = inline_new_helpers(tree, modname, self.inventory)
            self.new_functions |= {f"{modname}:{q}" for q in new}
            self.inline_log += log
            m = Module(modname, path, os.path.relpath(path, self.repo), src, tree)
            self.modules[modname] = m
            self._index_module(m)
        self._parents: Dict[int, ast.AST] = {}

    def is_new_helper(self, f: "FuncInfo") -> bool:
        """A private or nested function the baseline inventory does not have: its code is analysed where it is inlined."""
        return f.fq() in self.new_functions and (f.name.startswith('_') and not f.name.startswith('__') or f.parent is not None)

    # ------------------------------------------------------------------ indexing
    def _index_module(self, m: Module) -> None:
        for st in m.tree.body:
            self._index_stmt_imports(m, st)
            if isinstance(st, ast.Assign):
                for t in st.targets:
                    if isinstance(t, ast.Name):
                        m.globals_assigned[t.id] = st.value
                        if t.id == '__all__' and isinstance(st.value, (ast.List, ast.Tuple)):
                            m.all_names = [e.value for e in st.value.elts if isinstance(e, ast.Constant)]
            elif isinstance(st, ast.AnnAssign) and isinstance(st.target, ast.Name) and st.value is not None:
                m.globals_assigned[st.target.id] = st.value
        # also imports inside `if __name__ == '__main__':` etc. are ignored (none relevant)
        self._index_scope(m, m.tree.body, prefix='', cls=None, parent=None)

    def _index_stmt_imports(self, m: Module, st: ast.stmt) -> None:
        if isinstance(st, ast.Import):
            for a in st.names:
                local = a.asname or a.name.split('.')[0]
                m.imports[local] = ('module', a.name if a.asname else a.name.split('.')[0])
        elif isinstance(st, ast.ImportFrom):
            mod = _abs_module(m.name, st, is_pkg=m.path.endswith('__init__.py'))
            for a in st.names:
                if a.name == '*':
                    m.star_imports.append(mod)
                else:
                    m.imports[a.asname or a.name] = ('symbol', mod, a.name)

    def _index_scope(self, m: Module, body: List[ast.stmt], prefix: str, cls: Optional[ClassInfo], parent: Optional[FuncInfo]) -> None:
        for st in body:
            if isinstance(st, (ast.FunctionDef, ast.AsyncFunctionDef)):
                self._index_function(m, st, prefix, cls, parent)
            elif isinstance(st, ast.ClassDef):
                ci = ClassInfo(st.name, m, st, list(st.bases), decorators=[decorator_name(d) for d in st.decorator_list])
                for d in st.decorator_list:
                    if isinstance(d, ast.Call) and decorator_name(d) == 'dataclass':
                        for kw in d.keywords:
                            if isinstance(kw.value, ast.Constant):
                                ci.dataclass_kw[kw.arg] = kw.value.value
                if parent is None and cls is None:
                    m.classes[st.name] = ci
                else:
                    m.classes[prefix + st.name] = ci
                for s2 in st.body:
                    if isinstance(s2, ast.Assign):
                        for t in s2.targets:
                            if isinstance(t, ast.Name):
                                ci.aliases[t.id] = s2.value
                    elif isinstance(s2, ast.AnnAssign) and isinstance(s2.target, ast.Name):
                        ci.fields[s2.target.id] = s2.annotation
                        if s2.value is not None:
                            ci.aliases[s2.target.id] = s2.value
                self._index_scope(m, st.body, prefix + st.name + '.', ci, None)
            elif isinstance(st, (ast.If, ast.Try, ast.With, ast.For, ast.While)):
                # definitions nested in compound statements at this level
                for sub in ast.iter_child_nodes(st):
                    if isinstance(sub, ast.stmt):
                        self._index_scope(m, [sub], prefix, cls, parent)
                    elif isinstance(sub, ast.ExceptHandler):
                        self._index_scope(m, sub.body, prefix, cls, parent)
            # lambdas in module/class-level simple statements
            if not isinstance(st, (ast.FunctionDef, ast.AsyncFunctionDef, ast.ClassDef, ast.If, ast.Try, ast.With, ast.For, ast.While)):
                self._index_lambdas(m, st, prefix, cls, parent)

    def _index_function(self, m: Module, node, prefix: str, cls: Optional[ClassInfo], parent: Optional[FuncInfo]) -> FuncInfo:
        fi = FuncInfo(prefix + node.name, m, node, cls=cls, parent=parent,
                      decorators=[decorator_name(d) for d in node.decorator_list])
        if fi.qualname in m.functions:
            # property getter/setter pairs share a name: keep getter under the name, setter under 'name.setter'
            if fi.is_setter:
                fi.qualname = fi.qualname + '.setter'
        m.functions[fi.qualname] = fi
        if parent is not None:
            parent.children.append(fi)
        if cls is not None and parent is None:
            if fi.is_setter:
                cls.setters[node.name] = fi
            else:
                cls.methods[node.name] = fi
        self._index_body(m, fi)
        return fi

    def _index_body(self, m: Module, fi: FuncInfo) -> None:
        base = fi.qualname
        # nested defs
        stack = list(fi.node.body) if not fi.is_lambda else [fi.node.body]
        while stack:
            n = stack.pop()
            if isinstance(n, (ast.FunctionDef, ast.AsyncFunctionDef)):
                self._index_function(m, n, base + '.', fi.cls, fi)
                continue
            if isinstance(n, ast.ClassDef):
                continue
            if isinstance(n, ast.Lambda):
                q = f"{base}.<lambda@{n.lineno}:{n.col_offset}>"
                k = 1
                while q in m.functions and m.functions[q].node is not n:      # two lambdas of a rewritten statement carry the same position
                    k += 1
                    q = f"{base}.<lambda@{n.lineno}:{n.col_offset}#{k}>"
                li = FuncInfo(q, m, n, cls=fi.cls, parent=fi)
                m.functions[q] = li
                fi.children.append(li)
                self._index_body(m, li)
                continue
            stack.extend(ast.iter_child_nodes(n))

    def _index_lambdas(self, m: Module, st: ast.AST, prefix: str, cls, parent) -> None:
        for n in ast.walk(st):
            if isinstance(n, ast.Lambda):
                q = f"{prefix}<lambda@{n.lineno}:{n.col_offset}>"
                if q in m.functions and m.functions[q].node is n:
                    continue
                k = 1
                while q in m.functions:         # two lambdas of a rewritten statement carry the same position
                    k += 1
                    q = f"{prefix}<lambda@{n.lineno}:{n.col_offset}#{k}>"
                    if q in m.functions and m.functions[q].node is n:
                        break
                if q in m.functions:
                    continue
                li = FuncInfo(q, m, n, cls=cls, parent=parent)
                m.functions[q] = li
                self._index_body(m, li)

    # ------------------------------------------------------------------ lookup
    def module(self, name: str) -> Module:
        if name not in self.modules:
            raise AnalysisError(f"anchor module {name} not found")
        return self.modules[name]

    def func(self, module: str, qualname: str) -> FuncInfo:
        m = self.module(module)
        if qualname not in m.functions and '.' in qualname:
            # a nested anchor that was renamed when it was lifted out and put back (sa/inline.py): the only recursive new function
            # nested in the same parent takes its place
            parent = qualname.rsplit('.', 1)[0]
            cands = [f for q, f in m.functions.items() if q.startswith(parent + '.') and q.count('.') == qualname.count('.') and f.fq() in self.new_functions
                     and any(isinstance(c, ast.Call) and isinstance(c.func, ast.Name) and c.func.id == f.name for c in ast.walk(f.node))]
            if len(cands) == 1:
                return cands[0]
        if qualname not in m.functions:
            raise AnalysisError(f"anchor function {module}:{qualname} not found")
        return m.functions[qualname]

    def has_func(self, module: str, qualname: str) -> bool:
        return module in self.modules and qualname in self.modules[module].functions

    def cls(self, module: str, name: str) -> ClassInfo:
        m = self.module(module)
        if name not in m.classes:
            raise AnalysisError(f"anchor class {module}:{name} not found")
        return m.classes[name]

    def all_functions(self) -> Iterator[FuncInfo]:
        for m in self.modules.values():
            yield from m.functions.values()

    def all_classes(self) -> Iterator[ClassInfo]:
        for m in self.modules.values():
            yield from m.classes.values()

    def exported(self, modname: str, _seen=None) -> Dict[str, Tuple]:
        """Names visible via `from modname import *` -> ('func'|'class'|'module'|'other', object)."""
        _seen = _seen or set()
        if modname in _seen or modname not in self.modules:
            return {}
        if not hasattr(self, '_exp_cache'):
            self._exp_cache = {}; self._exp_busy = set()
        if modname in self._exp_cache:
            return self._exp_cache[modname]
        if modname in self._exp_busy:
            return {}
        self._exp_busy.add(modname)
        try:
            out = self._exported(modname, _seen)
        finally:
            self._exp_busy.discard(modname)
        if not self._exp_busy:
            self._exp_cache[modname] = out
        return out

    def _exported(self, modname: str, _seen) -> Dict[str, Tuple]:
        _seen.add(modname)
        m = self.modules[modname]
        out: Dict[str, Tuple] = {}
        for s in m.star_imports:
            out.update(self.exported(s, _seen))
        for local in m.imports:
            r = self.resolve_global(m, local, _seen=set(_seen))
            if r is not None:
                out[local] = r
        for q, f in m.functions.items():
            if '.' not in q and not f.is_lambda:
                out[q] = ('func', f)
        for c, ci in m.classes.items():
            if '.' not in c:
                out[c] = ('class', ci)
        for g in m.globals_assigned:
            out.setdefault(g, ('global', (m, g)))
        if m.all_names is not None:
            out = {k: v for k, v in out.items() if k in m.all_names}
        else:
            out = {k: v for k, v in out.items() if not k.startswith('_')}
        return out

    def resolve_global(self, m: Module, name: str, _seen=None) -> Optional[Tuple]:
        """Resolve a module-level name: ('func', FuncInfo) | ('class', ClassInfo) | ('module', name) | ('global', (Module, name)) | ('external', dotted)."""
        if name in m.functions and not m.functions[name].is_lambda:
            return ('func', m.functions[name])
        if name in m.classes:
            return ('class', m.classes[name])
        if name in m.imports:
            imp = m.imports[name]
            if imp[0] == 'module':
                return ('module', imp[1])
            _, mod, sym = imp
            if mod in self.modules:
                tm = self.modules[mod]
                sub = f"{mod}.{sym}"
                if sub in self.modules and sym not in tm.functions and sym not in tm.classes:
                    return ('module', sub)
                r = self.resolve_global(tm, sym) if (sym in tm.functions or sym in tm.classes or sym in tm.imports or sym in tm.globals_assigned) else None
                if r is not None:
                    return r
                ex = self.exported(mod)
                if sym in ex:
                    return ex[sym]
                return ('external', f"{mod}.{sym}")
            sub = f"{mod}.{sym}"
            if sub in self.modules:
                return ('module', sub)
            return ('external', f"{mod}.{sym}")
        if name in m.globals_assigned:
            return ('global', (m, name))
        for s in m.star_imports:
            ex = self.exported(s)
            if name in ex:
                return ex[name]
        return None

    # ------------------------------------------------------------------ classes
    def resolve_base(self, ci: ClassInfo, b: ast.AST) -> Optional[ClassInfo]:
        if isinstance(b, ast.Name):
            r = self.resolve_global(ci.module, b.id)
            if r and r[0] == 'class':
                return r[1]
        elif isinstance(b, ast.Attribute) and isinstance(b.value, ast.Name):
            r = self.resolve_global(ci.module, b.value.id)
            if r and r[0] == 'module' and r[1] in self.modules:
                r2 = self.resolve_global(self.modules[r[1]], b.attr)
                if r2 and r2[0] == 'class':
                    return r2[1]
        elif isinstance(b, ast.Subscript):
            return self.resolve_base(ci, b.value)
        return None

    def bases(self, ci: ClassInfo) -> List[ClassInfo]:
        out = []
        for b in ci.base_exprs:
            r = self.resolve_base(ci, b)
            if r is not None:
                out.append(r)
        return out

    def base_names(self, ci: ClassInfo) -> List[str]:
        return [ast.unparse(b) for b in ci.base_exprs]

    def mro(self, ci: ClassInfo) -> List[ClassInfo]:
        # C3 is overkill: depth-first left-to-right, duplicates removed keeping the last occurrence (good enough for
        # the repo's mixin diamonds: FGG(InterpretationMixin, HRG) with LabelingMixin shared).
        order: List[ClassInfo] = []
        def visit(c):
            order.append(c)
            for b in self.bases(c):
                visit(b)
        visit(ci)
        out: List[ClassInfo] = []
        for i, c in enumerate(order):
            if c not in order[i + 1:]:
                out.append(c)
        return out

    def subclasses(self, ci: ClassInfo, strict: bool = False) -> List[ClassInfo]:
        out = []
        for c in self.all_classes():
            if c == ci:
                if not strict: out.append(c)
                continue
            if ci in self.mro(c):
                out.append(c)
        return out

    def find_method(self, ci: ClassInfo, name: str) -> Optional[FuncInfo]:
        for c in self.mro(ci):
            if name in c.methods:
                return c.methods[name]
            if name in c.aliases:
                tgt = c.aliases[name]
                if isinstance(tgt, ast.Name) and tgt.id in c.methods:
                    return c.methods[tgt.id]
        return None

    def find_setter(self, ci: ClassInfo, name: str) -> Optional[FuncInfo]:
        for c in self.mro(ci):
            if name in c.setters:
                return c.setters[name]
        return None

    def class_attr_alias(self, ci: ClassInfo, name: str) -> Optional[ast.AST]:
        for c in self.mro(ci):
            if name in c.methods:
                return None
            if name in c.aliases:
                return c.aliases[name]
        return None

    def methods_named(self, name: str) -> List[FuncInfo]:
        out = []
        for c in self.all_classes():
            if name in c.methods:
                out.append(c.methods[name])
        return out

    # ------------------------------------------------------------------ scopes
    def local_names(self, f: FuncInfo) -> Set[str]:
        """Names bound in f's own scope (params, assignments, for targets, with, except, imports, nested defs)."""
        names = set(f.param_names())
        nonlocal_: Set[str] = set()
        for n in own_nodes(f.node):
            if isinstance(n, ast.Name) and isinstance(n.ctx, (ast.Store, ast.Del)):
                names.add(n.id)
            elif isinstance(n, (ast.FunctionDef, ast.AsyncFunctionDef, ast.ClassDef)):
                names.add(n.name)
            elif isinstance(n, ast.ExceptHandler) and n.name:
                names.add(n.name)
            elif isinstance(n, (ast.Import, ast.ImportFrom)):
                for a in n.names:
                    names.add((a.asname or a.name).split('.')[0])
            elif isinstance(n, (ast.Nonlocal, ast.Global)):
                nonlocal_.update(n.names)
        return names - nonlocal_

    def resolve_name(self, f: Optional[FuncInfo], m: Module, name: str) -> Tuple:
        """('local', FuncInfo owner) | ('nested', FuncInfo) | global resolutions | ('builtin', name)."""
        g = f
        while g is not None:
            for ch in g.children:
                if not ch.is_lambda and ch.name == name and ch.parent is g:
                    return ('func', ch)
            if name in self.local_names(g):
                return ('local', g)
            g = g.parent
        r = self.resolve_global(m, name)
        if r is not None:
            return r
        return ('builtin', name)

    # ------------------------------------------------------------------ misc
    def digest(self) -> str:
        h = hashlib.sha256()
        for k in sorted(self.modules):
            h.update(k.encode()); h.update(self.modules[k].source.encode())
        return h.hexdigest()[:16]

    def stats(self) -> Dict[str, int]:
        return {
            'modules': len(self.modules),
            'classes': sum(len(m.classes) for m in self.modules.values()),
            'functions_and_lambdas': sum(len(m.functions) for m in self.modules.values()),
            'lines': sum(m.source.count('\n') + 1 for m in self.modules.values()),
        }


def norm(node: ast.AST) -> str:
    """Normalised text of a construct (whitespace/line independent)."""
    try:
        return ast.unparse(node)
    except Exception:
        return ast.dump(node)


def names_in(node: ast.AST) -> Set[str]:
    return {n.id for n in ast.walk(node) if isinstance(n, ast.Name)}


def attr_chain(node: ast.AST) -> Optional[List[str]]:
    """a.b.c -> ['a','b','c'] ; None if not a pure name/attribute chain."""
    parts: List[str] = []
    while isinstance(node, ast.Attribute):
        parts.append(node.attr)
        node = node.value
    if isinstance(node, ast.Name):
        parts.append(node.id)
        return list(reversed(parts))
    return None


def call_name(call: ast.Call) -> str:
    c = attr_chain(call.func)
    if c:
        return '.'.join(c)
    if isinstance(call.func, ast.Attribute):
        return '?.' + call.func.attr
    return norm(call.func)


def const_value(node: Optional[ast.AST], default=None):
    if isinstance(node, ast.Constant):
        return node.value
    return default
