"""Shared helpers: parent maps, own-scope queries, flow-insensitive data dependence."""
from __future__ import annotations
import ast
from typing import Dict, Iterable, Iterator, List, Optional, Set, Tuple
from .model import FuncInfo, own_nodes, norm, names_in, attr_chain, call_name


def parent_map(root: ast.AST) -> Dict[int, ast.AST]:
    pm: Dict[int, ast.AST] = {}
    for n in ast.walk(root):
        for c in ast.iter_child_nodes(n):
            pm[id(c)] = n
    return pm


import weakref
_pm_cache: "weakref.WeakKeyDictionary" = weakref.WeakKeyDictionary()


def parents(f: FuncInfo) -> Dict[int, ast.AST]:
    pm = _pm_cache.get(f.node)          # keyed by the node object, weakly (never by id(): addresses are reused)
    if pm is None:
        pm = parent_map(f.node)
        _pm_cache[f.node] = pm
    return pm


def enclosing_stmt(f: FuncInfo, node: ast.AST) -> Optional[ast.stmt]:
    pm = parents(f)
    n = node
    while n is not None and not isinstance(n, ast.stmt):
        n = pm.get(id(n))
    return n


def ancestors(f: FuncInfo, node: ast.AST) -> Iterator[ast.AST]:
    pm = parents(f)
    n = pm.get(id(node))
    while n is not None:
        yield n
        n = pm.get(id(n))


def calls_in(f: FuncInfo, into_lambdas: bool = False) -> List[ast.Call]:
    return [n for n in own_nodes(f.node, into_lambdas=into_lambdas) if isinstance(n, ast.Call)]


def calls_named(f: FuncInfo, *names: str, into_lambdas: bool = False) -> List[ast.Call]:
    """Calls whose callee's last path component is one of names (f(..), x.f(..), m.x.f(..))."""
    out = []
    for c in calls_in(f, into_lambdas):
        fn = c.func
        last = fn.attr if isinstance(fn, ast.Attribute) else fn.id if isinstance(fn, ast.Name) else None
        if last in names:
            out.append(c)
    return sorted(out, key=lambda c: (c.lineno, c.col_offset))


def callee_last(c: ast.Call) -> Optional[str]:
    fn = c.func
    return fn.attr if isinstance(fn, ast.Attribute) else fn.id if isinstance(fn, ast.Name) else None


def get_arg(call: ast.Call, pos: Optional[int], kw: Optional[str]) -> Optional[ast.AST]:
    if kw is not None:
        for k in call.keywords:
            if k.arg == kw:
                return k.value
    if pos is not None and pos < len(call.args) and not any(isinstance(a, ast.Starred) for a in call.args[:pos + 1]):
        return call.args[pos]
    return None


def bind_args(call: ast.Call, callee: FuncInfo, bound_method: bool) -> Dict[str, ast.AST]:
    """Map callee parameter names to argument expressions at this call (positional + keyword; no *args expansion)."""
    pos = callee.positional_params()
    if bound_method and callee.is_method and not callee.is_static and pos:
        pos = pos[1:]
    out: Dict[str, ast.AST] = {}
    for p, a in zip(pos, call.args):
        if isinstance(a, ast.Starred):
            break
        out[p] = a
    allp = set(callee.param_names())
    for k in call.keywords:
        if k.arg is not None and k.arg in allp:
            out[k.arg] = k.value
    return out


def depends_on(f: FuncInfo, seeds: Set[str], include_control: bool = False) -> Set[str]:
    """Flow-insensitive closure: local names whose value may data-depend on one of the seed names."""
    tainted = set(seeds)
    changed = True
    assigns: List[Tuple[List[ast.AST], ast.AST]] = []
    for n in own_nodes(f.node):
        if isinstance(n, ast.Assign):
            assigns.append((n.targets, n.value))
        elif isinstance(n, ast.AugAssign):
            assigns.append(([n.target], n.value))
        elif isinstance(n, ast.AnnAssign) and n.value is not None:
            assigns.append(([n.target], n.value))
        elif isinstance(n, (ast.For, ast.AsyncFor)):
            assigns.append(([n.target], n.iter))
        elif isinstance(n, ast.NamedExpr):
            assigns.append(([n.target], n.value))
        elif isinstance(n, ast.comprehension):
            assigns.append(([n.target], n.iter))
        elif isinstance(n, (ast.With, ast.AsyncWith)):
            for it in n.items:
                if it.optional_vars is not None:
                    assigns.append(([it.optional_vars], it.context_expr))
    while changed:
        changed = False
        for targets, value in assigns:
            if names_in(value) & tainted:
                for t in targets:
                    for nm in ast.walk(t):
                        if isinstance(nm, ast.Name) and nm.id not in tainted:
                            tainted.add(nm.id); changed = True
    return tainted


def expr_depends(f: FuncInfo, expr: ast.AST, seeds: Set[str]) -> bool:
    return bool(names_in(expr) & depends_on(f, seeds))


def is_name(e: Optional[ast.AST], name: str) -> bool:
    return isinstance(e, ast.Name) and e.id == name


def is_self_attr(e: ast.AST, self_name: str, attr: Optional[str] = None) -> bool:
    return (isinstance(e, ast.Attribute) and isinstance(e.value, ast.Name) and e.value.id == self_name
            and (attr is None or e.attr == attr))


def string_constants(node: ast.AST) -> List[str]:
    return [n.value for n in ast.walk(node) if isinstance(n, ast.Constant) and isinstance(n.value, str)]


def assignments_to(f: FuncInfo, name: str) -> List[ast.AST]:
    """Own-scope statements that (re)bind `name` (Assign/AugAssign/AnnAssign/For targets)."""
    out = []
    for n in own_nodes(f.node):
        if isinstance(n, ast.Assign) and any(isinstance(x, ast.Name) and x.id == name for t in n.targets for x in ast.walk(t) if isinstance(x.ctx if hasattr(x, 'ctx') else None, ast.Store)):
            out.append(n)
        elif isinstance(n, (ast.AugAssign, ast.AnnAssign)) and isinstance(n.target, ast.Name) and n.target.id == name:
            out.append(n)
        elif isinstance(n, (ast.For, ast.AsyncFor)) and any(isinstance(x, ast.Name) and x.id == name for x in ast.walk(n.target)):
            out.append(n)
    return sorted(out, key=lambda s: s.lineno)


def docstring_free_body(f: FuncInfo) -> List[ast.stmt]:
    b = f.body
    if b and isinstance(b[0], ast.Expr) and isinstance(b[0].value, ast.Constant) and isinstance(b[0].value.value, str):
        return b[1:]
    return b


def single_assignments(root: ast.AST) -> Dict[str, ast.AST]:
    """Local temporaries of `root` (a function or a loop): names bound exactly once, by a plain `name = expr`."""
    stores: Dict[str, int] = {}
    rhs: Dict[str, ast.AST] = {}
    for n in own_nodes(root):
        if isinstance(n, ast.Name) and isinstance(n.ctx, (ast.Store, ast.Del)):
            stores[n.id] = stores.get(n.id, 0) + 1
        if isinstance(n, ast.Assign) and len(n.targets) == 1 and isinstance(n.targets[0], ast.Name):
            rhs[n.targets[0].id] = n.value
        if isinstance(n, ast.AnnAssign) and isinstance(n.target, ast.Name) and n.value is not None:
            rhs[n.target.id] = n.value
    if isinstance(root, (ast.FunctionDef, ast.AsyncFunctionDef)):
        for a in root.args.posonlyargs + root.args.args + root.args.kwonlyargs:
            stores[a.arg] = stores.get(a.arg, 0) + 1
    return {k: v for k, v in rhs.items() if stores.get(k) == 1}


def inline_temps(root: ast.AST, expr: ast.AST, depth: int = 4) -> ast.AST:
    """`expr` with the single-assignment temporaries of `root` replaced by their defining expressions (a rule that matches the
    shape of a test must not depend on whether an operand was given a name first)."""
    import copy
    temps = single_assignments(root)

    class Sub(ast.NodeTransformer):
        def __init__(self, d): self.d = d
        def visit_Name(self, n):
            if isinstance(n.ctx, ast.Load) and n.id in temps and self.d > 0:
                return Sub(self.d - 1).visit(copy.deepcopy(temps[n.id]))
            return n
    return Sub(depth).visit(copy.deepcopy(expr))


def local_defs(root: ast.AST) -> Dict[str, List[ast.FunctionDef]]:
    out: Dict[str, List[ast.FunctionDef]] = {}
    for n in ast.walk(root):
        if n is not root and isinstance(n, ast.FunctionDef):
            out.setdefault(n.name, []).append(n)
    return out


def expand_local_calls(root: ast.AST, expr: ast.AST, depth: int = 3) -> List[ast.AST]:
    """Alternatives of `expr` in which calls to functions defined locally inside `root` (closures chosen by a condition, small
    helpers) are replaced by the helper's returned expression with the parameters substituted -- one alternative per definition
    of the name.  A helper with more than one `return` is left unexpanded."""
    import copy
    defs = local_defs(root)
    if depth <= 0 or not defs:
        return [expr]
    target = None
    for x in ast.walk(expr):
        if isinstance(x, ast.Call) and isinstance(x.func, ast.Name) and x.func.id in defs:
            cands = []
            for d in defs[x.func.id]:
                rets = [r for r in own_nodes(d) if isinstance(r, ast.Return) and r.value is not None]
                if len(rets) != 1:
                    cands = []; break
                params = [a.arg for a in d.args.posonlyargs + d.args.args]
                sub = dict(zip(params, x.args))
                sub.update({k.arg: k.value for k in x.keywords if k.arg})
                cands.append((rets[0].value, sub))
            if cands:
                target = (x, cands); break
    if target is None:
        return [expr]
    call, cands = target
    out: List[ast.AST] = []
    for body, sub in cands:
        class SubP(ast.NodeTransformer):
            def visit_Name(self, n):
                return copy.deepcopy(sub[n.id]) if isinstance(n.ctx, ast.Load) and n.id in sub else n
        new_body = SubP().visit(copy.deepcopy(body))

        class Rep(ast.NodeTransformer):
            def visit_Call(self, n):
                if norm(n) == norm(call):
                    return new_body
                return self.generic_visit(n)
        e2 = Rep().visit(copy.deepcopy(expr))
        out += expand_local_calls(root, e2, depth - 1)
    return out


class Renaming(dict):
    """parameter -> caller-side text; .args: parameter -> caller-side expression; .caller: the calling FuncInfo"""
    args: Dict[str, ast.AST] = {}
    caller: Optional[FuncInfo] = None


def helper_scopes(prog, f: FuncInfo, depth: int = 1):
    """(FuncInfo g, rename) for f itself and for the module-level functions f calls by plain name (an extracted helper):
    `rename` maps g's parameter names to the normalised text of the caller's arguments, so that a rule phrased over f's
    names can read the helper's body."""
    from .model import norm as _norm
    out = [(f, Renaming())]
    seen = {f.fq()}
    frontier = [(f, Renaming())]
    for _ in range(depth):
        nxt = []
        for g, ren in frontier:
            for c in own_nodes(g.node):
                if isinstance(c, ast.Call) and isinstance(c.func, ast.Name):
                    r = prog.resolve_global(g.module, c.func.id)
                    if r and r[0] == 'func' and r[1].fq() not in seen:
                        h = r[1]
                        seen.add(h.fq())
                        b = bind_args(c, h, False)
                        ren2 = Renaming({p: ren.get(_norm(a), _norm(a)) for p, a in b.items()})
                        ren2.args = dict(b); ren2.caller = g
                        out.append((h, ren2)); nxt.append((h, ren2))
        frontier = nxt
    return out


BUILTIN_EXC_BASES = {'ValueError': ['ValueError', 'Exception'], 'KeyError': ['KeyError', 'LookupError', 'Exception'], 'IndexError': ['IndexError', 'LookupError', 'Exception'],
                     'TypeError': ['TypeError', 'Exception'], 'RuntimeError': ['RuntimeError', 'Exception'], 'AssertionError': ['AssertionError', 'Exception'],
                     'NotImplementedError': ['NotImplementedError', 'RuntimeError', 'Exception'], 'ZeroDivisionError': ['ZeroDivisionError', 'ArithmeticError', 'Exception'],
                     'AttributeError': ['AttributeError', 'Exception'], 'Exception': ['Exception'], 'OverflowError': ['OverflowError', 'ArithmeticError', 'Exception'],
                     'StopIteration': ['StopIteration', 'Exception'], 'LookupError': ['LookupError', 'Exception'], 'ArithmeticError': ['ArithmeticError', 'Exception'],
                     'UnicodeError': ['UnicodeError', 'ValueError', 'Exception'], 'OSError': ['OSError', 'Exception']}


def raised_types(prog, f, st: ast.Raise):
    """Names of the exception classes a `raise X(...)` statement's exception is an instance of: the class itself, the project
    classes it derives from and the built-in chain (`class GrammarError(ValueError)` -> ['GrammarError', 'ValueError', 'Exception']);
    None when the raised expression is not a class or a call of one (a re-raise, a variable)."""
    e = st.exc
    if e is None:
        return None
    if isinstance(e, ast.Call):
        e = e.func
    name = e.id if isinstance(e, ast.Name) else e.attr if isinstance(e, ast.Attribute) else None
    if name is None:
        return None
    out, seen = [], set()
    work = [name]
    while work:
        n = work.pop(0)
        if n in seen:
            continue
        seen.add(n)
        if n in BUILTIN_EXC_BASES:
            out += [x for x in BUILTIN_EXC_BASES[n] if x not in out]
            continue
        cands = [c for c in prog.all_classes() if c.name == n]
        if not cands:
            return None if not out else out
        out.append(n)
        for b in cands[0].node.bases:
            bn = b.id if isinstance(b, ast.Name) else b.attr if isinstance(b, ast.Attribute) else None
            if bn:
                work.append(bn)
    return out


def check_raise_type(rep, rule: str, prog, f, st: ast.Raise, want: str, what: str) -> None:
    ts = raised_types(prog, f, st)
    if ts is None:
        rep.ob(rule, f.fq(), f"{what}: raises {want}", f.loc(st), True, 'the raised object is not a class expression (re-raise or variable): not decided here')
        return
    rep.ob(rule, f.fq(), f"{what}: raises {want}", f.loc(st), want in ts,
           f"raises {ts[0]}" + (f" (a {want})" if ts[0] != want and want in ts else '') if want in ts else
           f"raises {ts[0]} ({' -> '.join(ts)}), which is not a {want}: callers that handle the documented {want} no longer see the rejection")
