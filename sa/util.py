"""Shared helpers: parent maps, own-scope queries, flow-insensitive data dependence."""
from __future__ import annotations
import ast
from typing import Dict, Iterable, Iterator, List, Optional, Set, Tuple
from .model import FuncInfo, own_nodes, norm, names_in, attr_chain, call_name


def parent_map(root: ast.AST) -> Dict[int, ast.AST]:
    pm: Dict[int, ast.AST] = {}
    for n in ast.walk(root):
        for c in ast.iter_child_nodes(n):
            pm[id(c)] = n
    return pm


_pm_cache: Dict[int, Dict[int, ast.AST]] = {}


def parents(f: FuncInfo) -> Dict[int, ast.AST]:
    k = id(f.node)
    if k not in _pm_cache:
        _pm_cache[k] = parent_map(f.node)
    return _pm_cache[k]


def enclosing_stmt(f: FuncInfo, node: ast.AST) -> Optional[ast.stmt]:
    pm = parents(f)
    n = node
    while n is not None and not isinstance(n, ast.stmt):
        n = pm.get(id(n))
    return n


def ancestors(f: FuncInfo, node: ast.AST) -> Iterator[ast.AST]:
    pm = parents(f)
    n = pm.get(id(node))
    while n is not None:
        yield n
        n = pm.get(id(n))


def calls_in(f: FuncInfo, into_lambdas: bool = False) -> List[ast.Call]:
    return [n for n in own_nodes(f.node, into_lambdas=into_lambdas) if isinstance(n, ast.Call)]


def calls_named(f: FuncInfo, *names: str, into_lambdas: bool = False) -> List[ast.Call]:
    """Calls whose callee's last path component is one of names (f(..), x.f(..), m.x.f(..))."""
    out = []
    for c in calls_in(f, into_lambdas):
        fn = c.func
        last = fn.attr if isinstance(fn, ast.Attribute) else fn.id if isinstance(fn, ast.Name) else None
        if last in names:
            out.append(c)
    return sorted(out, key=lambda c: (c.lineno, c.col_offset))


def callee_last(c: ast.Call) -> Optional[str]:
    fn = c.func
    return fn.attr if isinstance(fn, ast.Attribute) else fn.id if isinstance(fn, ast.Name) else None


def get_arg(call: ast.Call, pos: Optional[int], kw: Optional[str]) -> Optional[ast.AST]:
    if kw is not None:
        for k in call.keywords:
            if k.arg == kw:
                return k.value
    if pos is not None and pos < len(call.args) and not any(isinstance(a, ast.Starred) for a in call.args[:pos + 1]):
        return call.args[pos]
    return None


def bind_args(call: ast.Call, callee: FuncInfo, bound_method: bool) -> Dict[str, ast.AST]:
    """Map callee parameter names to argument expressions at this call (positional + keyword; no *args expansion)."""
    pos = callee.positional_params()
    if bound_method and callee.is_method and not callee.is_static and pos:
        pos = pos[1:]
    out: Dict[str, ast.AST] = {}
    for p, a in zip(pos, call.args):
        if isinstance(a, ast.Starred):
            break
        out[p] = a
    allp = set(callee.param_names())
    for k in call.keywords:
        if k.arg is not None and k.arg in allp:
            out[k.arg] = k.value
    return out


def depends_on(f: FuncInfo, seeds: Set[str], include_control: bool = False) -> Set[str]:
    """Flow-insensitive closure: local names whose value may data-depend on one of the seed names."""
    tainted = set(seeds)
    changed = True
    assigns: List[Tuple[List[ast.AST], ast.AST]] = []
    for n in own_nodes(f.node):
        if isinstance(n, ast.Assign):
            assigns.append((n.targets, n.value))
        elif isinstance(n, ast.AugAssign):
            assigns.append(([n.target], n.value))
        elif isinstance(n, ast.AnnAssign) and n.value is not None:
            assigns.append(([n.target], n.value))
        elif isinstance(n, (ast.For, ast.AsyncFor)):
            assigns.append(([n.target], n.iter))
        elif isinstance(n, ast.NamedExpr):
            assigns.append(([n.target], n.value))
        elif isinstance(n, ast.comprehension):
            assigns.append(([n.target], n.iter))
        elif isinstance(n, (ast.With, ast.AsyncWith)):
            for it in n.items:
                if it.optional_vars is not None:
                    assigns.append(([it.optional_vars], it.context_expr))
    while changed:
        changed = False
        for targets, value in assigns:
            if names_in(value) & tainted:
                for t in targets:
                    for nm in ast.walk(t):
                        if isinstance(nm, ast.Name) and nm.id not in tainted:
                            tainted.add(nm.id); changed = True
    return tainted


def expr_depends(f: FuncInfo, expr: ast.AST, seeds: Set[str]) -> bool:
    return bool(names_in(expr) & depends_on(f, seeds))


def is_name(e: Optional[ast.AST], name: str) -> bool:
    return isinstance(e, ast.Name) and e.id == name


def is_self_attr(e: ast.AST, self_name: str, attr: Optional[str] = None) -> bool:
    return (isinstance(e, ast.Attribute) and isinstance(e.value, ast.Name) and e.value.id == self_name
            and (attr is None or e.attr == attr))


def string_constants(node: ast.AST) -> List[str]:
    return [n.value for n in ast.walk(node) if isinstance(n, ast.Constant) and isinstance(n.value, str)]


def assignments_to(f: FuncInfo, name: str) -> List[ast.AST]:
    """Own-scope statements that (re)bind `name` (Assign/AugAssign/AnnAssign/For targets)."""
    out = []
    for n in own_nodes(f.node):
        if isinstance(n, ast.Assign) and any(isinstance(x, ast.Name) and x.id == name for t in n.targets for x in ast.walk(t) if isinstance(x.ctx if hasattr(x, 'ctx') else None, ast.Store)):
            out.append(n)
        elif isinstance(n, (ast.AugAssign, ast.AnnAssign)) and isinstance(n.target, ast.Name) and n.target.id == name:
            out.append(n)
        elif isinstance(n, (ast.For, ast.AsyncFor)) and any(isinstance(x, ast.Name) and x.id == name for x in ast.walk(n.target)):
            out.append(n)
    return sorted(out, key=lambda s: s.lineno)


def docstring_free_body(f: FuncInfo) -> List[ast.stmt]:
    b = f.body
    if b and isinstance(b[0], ast.Expr) and isinstance(b[0].value, ast.Constant) and isinstance(b[0].value.value, str):
        return b[1:]
    return b
