"""python -m sa.showinl <repo> <module:qualname> ... : print functions as the analyses see them (after inlining of new helpers)."""
import ast, sys
from .model import Program
prog = Program(sys.argv[1])
print('# new functions:', sorted(prog.new_functions))
for l in prog.inline_log: print('#', l)
for spec in sys.argv[2:]:
    mod, q = spec.split(':')
    f = prog.func(mod, q)
    print(ast.unparse(f.node))
