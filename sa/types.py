"""Coarse kinds for E1, from annotations and constructors only (no general type inference).

kind ::= 'imm'      immutable value (numbers, str, None, frozen dataclasses of the repo, tuples/sequences of immutables)
       | 'tensor'   torch.Tensor
       | 'dict' | 'list' | 'set' | 'tuple'   builtin containers  (+ elem_imm: their elements are immutable)
       | 'obj:<Class>'   instance of a repo class
       | None       unknown
"""
from __future__ import annotations
import ast
from typing import Dict, List, Optional, Set, Tuple
from .model import Program, ClassInfo, FuncInfo, Module, own_nodes, norm

IMM_BUILTIN = {'int', 'float', 'bool', 'str', 'bytes', 'None', 'NumberType', 'Size', 'dtype', 'complex', 'NoneType', 'device'}
SEQ_IMM = {'Tuple', 'tuple', 'Sequence', 'Iterable', 'Iterator', 'FrozenSet', 'frozenset', 'Optional', 'Union', 'Collection', 'Type', 'Callable', 'Final', 'ClassVar'}
CONTAINERS = {'Dict': 'dict', 'dict': 'dict', 'Mapping': 'dict', 'MutableMapping': 'dict', 'List': 'list', 'list': 'list', 'Set': 'set', 'set': 'set'}


class Types:
    def __init__(self, prog: Program):
        self.prog = prog
        self.frozen: Set[str] = set()
        for c in prog.all_classes():
            if c.is_dataclass and c.is_frozen:
                self.frozen.add(c.name)
        # abstract bases all of whose repo subclasses are frozen (Axis)
        for c in prog.all_classes():
            subs = prog.subclasses(c, strict=True)
            if subs and all(s.name in self.frozen for s in subs) and c.name not in self.frozen and not c.is_dataclass:
                self.frozen.add(c.name)
        self._attr_decl: Dict[str, List[Tuple[ClassInfo, Optional[ast.AST]]]] = {}
        self._index_attrs()
        self._aliases = self._type_aliases()

    def _type_aliases(self) -> Dict[str, ast.AST]:
        out: Dict[str, ast.AST] = {}
        for m in self.prog.modules.values():
            for k, v in m.globals_assigned.items():
                if isinstance(v, (ast.Subscript, ast.Name, ast.Attribute)) and k[0].isupper():
                    out[k] = v
        return out

    # ------------------------------------------------------------------ annotations
    def ann_kind(self, ann: Optional[ast.AST], depth: int = 0) -> Tuple[Optional[str], bool]:
        """(kind, elements immutable)"""
        if ann is None or depth > 6:
            return None, False
        if isinstance(ann, ast.Constant):
            if ann.value is None:
                return 'imm', True
            if isinstance(ann.value, str):
                try:
                    return self.ann_kind(ast.parse(ann.value, mode='eval').body, depth + 1)
                except SyntaxError:
                    return None, False
            return None, False
        if isinstance(ann, ast.Attribute):
            if ann.attr in ('Tensor', 'LongTensor'): return 'tensor', False
            if ann.attr in IMM_BUILTIN: return 'imm', True
            return self.ann_kind(ast.Name(id=ann.attr, ctx=ast.Load()), depth + 1)
        if isinstance(ann, ast.Name):
            n = ann.id
            if n in ('Tensor', 'LongTensor'): return 'tensor', False
            if n in IMM_BUILTIN or n in self.frozen: return 'imm', True
            if n in CONTAINERS: return CONTAINERS[n], False
            if n in ('Tuple', 'tuple', 'Sequence', 'Iterable'): return None, False
            if n in self._aliases and depth < 4:
                return self.ann_kind(self._aliases[n], depth + 1)
            for c in self.prog.all_classes():
                if c.name == n:
                    return f"obj:{n}", False
            return None, False
        if isinstance(ann, ast.Subscript):
            head = ann.value.attr if isinstance(ann.value, ast.Attribute) else ann.value.id if isinstance(ann.value, ast.Name) else None
            args = list(ann.slice.elts) if isinstance(ann.slice, ast.Tuple) else [ann.slice]
            args = [a for a in args if not (isinstance(a, ast.Constant) and a.value is Ellipsis)]
            if head in ('Optional', 'Union'):
                kinds = [self.ann_kind(a, depth + 1) for a in args]
                ks = {k for k, _ in kinds if k != 'imm' or len(kinds) == 1}
                if all(k == 'imm' for k, _ in kinds): return 'imm', True
                non = [(k, e) for k, e in kinds if k != 'imm']
                if len({k for k, _ in non}) == 1: return non[0]
                return None, False
            if head in SEQ_IMM:
                if head == 'Callable': return 'imm', True
                sub = [self.ann_kind(a, depth + 1) for a in args]
                if sub and all(k == 'imm' for k, _ in sub): return 'imm', True
                return ('tuple' if head in ('Tuple', 'tuple') else None), False
            if head in CONTAINERS:
                vals = args[-1:] if CONTAINERS[head] == 'dict' else args
                sub = [self.ann_kind(a, depth + 1) for a in vals]
                return CONTAINERS[head], bool(sub) and all(k == 'imm' for k, _ in sub)
            return None, False
        if isinstance(ann, ast.BinOp) and isinstance(ann.op, ast.BitOr):
            a, b = self.ann_kind(ann.left, depth + 1), self.ann_kind(ann.right, depth + 1)
            if a[0] == 'imm' and b[0] == 'imm': return 'imm', True
            if a[0] == 'imm': return b
            if b[0] == 'imm': return a
            return (a if a == b else (None, False))
        return None, False

    # ------------------------------------------------------------------ attributes
    def _index_attrs(self) -> None:
        for c in self.prog.all_classes():
            for name, ann in c.fields.items():
                self._attr_decl.setdefault(name, []).append((c, ann))
            for mname, m in c.methods.items():
                if m.is_property:
                    ann = m.node.returns
                    if ann is None:
                        # `return self._x` with an annotated backing field
                        rets = [n.value for n in own_nodes(m.node) if isinstance(n, ast.Return) and n.value is not None]
                        if len(rets) == 1 and isinstance(rets[0], ast.Attribute) and isinstance(rets[0].value, ast.Name):
                            ann = ast.Name(id=f"__backing__{rets[0].attr}", ctx=ast.Load())
                    self._attr_decl.setdefault(mname, []).append((c, ann))
            init = c.methods.get('__init__')
            if init is not None:
                selfn = init.self_name()
                for n in own_nodes(init.node):
                    if isinstance(n, ast.AnnAssign) and isinstance(n.target, ast.Attribute) and isinstance(n.target.value, ast.Name) and n.target.value.id == selfn:
                        self._attr_decl.setdefault(n.target.attr, []).append((c, n.annotation))
                    elif isinstance(n, ast.Assign) and len(n.targets) == 1 and isinstance(n.targets[0], ast.Attribute) and isinstance(n.targets[0].value, ast.Name) \
                            and n.targets[0].value.id == selfn:
                        ann = None
                        if isinstance(n.value, ast.Name) and n.value.id in init.param_names():
                            ann = init.param_annotation(n.value.id)      # self.x = x  with an annotated parameter
                        self._attr_decl.setdefault(n.targets[0].attr, []).append((c, ann))
                    elif isinstance(n, ast.Call) and isinstance(n.func, ast.Attribute) and n.func.attr == '__setattr__' and len(n.args) >= 2 and isinstance(n.args[1], ast.Constant):
                        pass

    def attr_kind(self, attr: str, recv_class: Optional[str]) -> Tuple[Optional[str], bool, bool]:
        """(kind, elem immutable, known) of attribute `attr`; restricted to recv_class's hierarchy when given."""
        decls = self._attr_decl.get(attr, [])
        if recv_class is not None:
            ci = next((c for c in self.prog.all_classes() if c.name == recv_class), None)
            if ci is not None:
                fam = set(x.name for x in self.prog.mro(ci)) | set(x.name for x in self.prog.subclasses(ci))
                decls = [(c, a) for c, a in decls if c.name in fam]
        if not decls:
            return None, False, False
        kinds = []
        for c, a in decls:
            if isinstance(a, ast.Name) and a.id.startswith('__backing__'):
                k = self.attr_kind(a.id[len('__backing__'):], c.name)
                kinds.append((k[0], k[1]))
            else:
                kinds.append(self.ann_kind(a))
        if all(k == kinds[0] for k in kinds):
            return kinds[0][0], kinds[0][1], True
        if all(k[0] == 'imm' for k in kinds):
            return 'imm', True, True
        return None, False, True

    def mapping_value_kind(self, kind: Optional[str]) -> Tuple[Optional[str], bool, bool]:
        """For an instance of a repo class derived from (Mutable)Mapping[K, V]: (kind of V, elem imm, known)."""
        ci = self.class_of(kind)
        if ci is None:
            return None, False, False
        for c in self.prog.mro(ci):
            for b in c.base_exprs:
                if isinstance(b, ast.Subscript):
                    head = b.value.attr if isinstance(b.value, ast.Attribute) else b.value.id if isinstance(b.value, ast.Name) else ''
                    if head in ('MutableMapping', 'Mapping', 'Dict', 'dict') and isinstance(b.slice, ast.Tuple) and len(b.slice.elts) == 2:
                        k, e = self.ann_kind(b.slice.elts[1])
                        return k, e, True
        return None, False, False

    def class_of(self, kind: Optional[str]) -> Optional[ClassInfo]:
        if kind and kind.startswith('obj:'):
            n = kind[4:]
            return next((c for c in self.prog.all_classes() if c.name == n), None)
        return None

    def param_kind(self, f: FuncInfo, p: str) -> Tuple[Optional[str], bool]:
        if p == f.self_name() and f.cls is not None:
            return (('imm', True) if f.cls.name in self.frozen and f.name not in ('__init__', '__post_init__') else (f"obj:{f.cls.name}", False))
        return self.ann_kind(f.param_annotation(p))
