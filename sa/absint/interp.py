"""E3 interpreter: evaluates the AST of small element-wise method bodies over the abstract domain of `domain.py`.

Supported subset (sized on the pinned tree): Return / Assign / AugAssign / Expr (in-place calls) / If / IfExp / BoolOp /
Compare / BinOp / UnaryOp / Call (tensor methods, torch.<f>, math.<f>, builtins max/min/abs/isnan/isinf/isinstance/float/bool,
PatternedTensor(...) construction, new_tensor/item) / Attribute (self.physical, self.default, self.dtype, float_info.max) /
Name / Constant / Tuple / Subscript([0]).  Anything else raises Unsupported naming the node.
"""
from __future__ import annotations
import ast, math
from typing import Any, Callable, Dict, List, Optional, Tuple
from .domain import AV, apply, const, classify, NONE, FMAX, ALL_NUM
from ..model import Program, FuncInfo, norm


class Unsupported(Exception):
    def __init__(self, node: ast.AST, why: str = ''):
        self.node = node
        super().__init__(f"unsupported construct `{norm(node)[:80]}` ({type(node).__name__}) {why}")


class SelfObj:
    """The receiver of a PatternedTensor method: physical elements (tensor mode) and default (scalar mode)."""
    def __init__(self, physical: AV, default: AV):
        self.physical = physical.with_mode('tensor')
        self.default = default.with_mode('scalar')

    def copy(self):
        return SelfObj(self.physical, self.default)


class PTResult:
    def __init__(self, physical: Any, default: Any):
        self.physical, self.default = physical, default


class Opaque:
    def __init__(self, what: str):
        self.what = what

    def __repr__(self):
        return f"<opaque {self.what}>"


class Closure:
    def __init__(self, node: ast.AST, env: Dict[str, Any]):
        self.node, self.env = node, env


UNARY = {'neg', 'abs', 'exp', 'expm1', 'log', 'log1p', 'relu', 'reciprocal', 'logical_not', 'isnan', 'isinf'}
BINARY = {'add', 'sub', 'mul', 'div', 'true_divide', 'logaddexp', 'maximum', 'minimum', 'logical_and', 'logical_or',
          'lt', 'le', 'gt', 'ge', 'eq', 'ne', 'clamp_min', 'clamp_max'}
IDENT_METHODS = {'clone', 'detach', 'expand', 'expand_as', 'view', 'reshape', 'contiguous', 'float', 'double', 'squeeze', 'unsqueeze', 'to'}
BINOPS = {ast.Add: 'add', ast.Sub: 'sub', ast.Mult: 'mul', ast.Div: 'div'}
CMPOPS = {ast.Lt: 'lt', ast.LtE: 'le', ast.Gt: 'gt', ast.GtE: 'ge', ast.Eq: 'eq', ast.NotEq: 'ne'}
MATH_SCALAR = {'math.log': 'log', 'math.log1p': 'log1p', 'math.exp': 'exp', 'math.expm1': 'expm1', 'math.isnan': 'isnan', 'math.isinf': 'isinf'}


# functions of the standard `operator` module: the Python operator they stand for (same transfer function as the operator itself)
OPERATOR_FN = {'lt': ('lt', 2), 'le': ('le', 2), 'gt': ('gt', 2), 'ge': ('ge', 2), 'eq': ('eq', 2), 'ne': ('ne', 2), 'add': ('add', 2), 'sub': ('sub', 2),
               'mul': ('mul', 2), 'truediv': ('div', 2), 'neg': ('neg', 1), 'abs': ('abs', 1), 'not_': ('logical_not', 1), 'pos': ('ident', 1)}


class Interp:
    def __init__(self, prog: Program, func: FuncInfo, isinstance_answers: Optional[Dict[str, bool]] = None):
        self.prog = prog
        self.func = func
        self.isinstance_answers = isinstance_answers or {}
        self.in_place_log: List[str] = []

    # ------------------------------------------------------------------ names
    def lookup(self, name: str, env: Dict[str, Any]) -> Any:
        if name in env:
            return env[name]
        r = self.prog.resolve_name(self.func, self.func.module, name)
        if r[0] == 'external':
            d = r[1]
            if d == 'math.inf': return const(math.inf)
            if d == 'math.nan': return const(math.nan)
            if d in MATH_SCALAR: return Opaque('scalarfn:' + MATH_SCALAR[d])
            if d == 'sys.float_info': return Opaque('float_info')
            return Opaque('external:' + d)
        if r[0] == 'module':
            return Opaque('module:' + r[1])
        if r[0] == 'builtin':
            if name in ('True', 'False'): return const(name == 'True')
            return Opaque('builtin:' + name)
        if r[0] == 'class':
            return Opaque('class:' + r[1].name)
        if r[0] == 'func':
            return Opaque('func:' + r[1].qualname)
        if r[0] == 'global':
            return Opaque('global:' + name)
        # a variable of an enclosing function (a flag computed once per call of the outer function and read by the callback):
        # its value is not known here, so every use sees an arbitrary value (both branches of a test on it are followed)
        par = self.func.parent
        while par is not None:
            if name in self.prog.local_names(par):
                return Opaque('closure:' + name)
            par = par.parent
        raise Unsupported(ast.Name(id=name, ctx=ast.Load()), 'unbound name')

    # ------------------------------------------------------------------ statements
    def run(self, env: Dict[str, Any]) -> Tuple[Any, Dict[str, Any]]:
        """Returns (return value or None, final env)."""
        rets: List[Any] = []
        final = self.block(self.func.body, env, rets)
        ret = None
        for r in rets:
            ret = r if ret is None else join_any(ret, r)
        return ret, final

    def block(self, stmts: List[ast.stmt], env: Dict[str, Any], rets: List[Any]) -> Optional[Dict[str, Any]]:
        """Executes statements; returns the environment at fall-through, or None if every path returned."""
        for st in stmts:
            if env is None:
                return None
            env = self.stmt(st, env, rets)
        return env

    def stmt(self, st: ast.stmt, env: Dict[str, Any], rets: List[Any]) -> Optional[Dict[str, Any]]:
        if isinstance(st, ast.Expr):
            if isinstance(st.value, ast.Constant):
                return env       # docstring
            self.expr_effect(st.value, env)
            return env
        if isinstance(st, ast.Return):
            rets.append(self.snapshot(self.eval(st.value, env) if st.value is not None else None, env))
            return None
        if isinstance(st, ast.Assign):
            v = self.eval_effect(st.value, env)
            for t in st.targets:
                self.assign(t, v, env)
            return env
        if isinstance(st, ast.AnnAssign):
            if st.value is not None:
                self.assign(st.target, self.eval_effect(st.value, env), env)
            return env
        if isinstance(st, ast.AugAssign):
            op = BINOPS.get(type(st.op))
            if op is None:
                raise Unsupported(st)
            cur = self.eval(_load(st.target), env)
            val = self.eval(st.value, env)
            self.assign(st.target, self.binop(op, cur, val, st), env)
            return env
        if isinstance(st, ast.If):
            c = self.truth(self.eval(st.test, env), st.test)
            outs = []
            if 'T' in c:
                outs.append(self.block(st.body, copy_env(env), rets))
            if 'F' in c:
                outs.append(self.block(st.orelse, copy_env(env), rets))
            outs = [o for o in outs if o is not None]
            if not outs:
                return None
            e = outs[0]
            for o in outs[1:]:
                e = join_env(e, o)
            return e
        if isinstance(st, (ast.FunctionDef,)):
            env[st.name] = Closure(st, env)
            return env
        if isinstance(st, ast.Pass):
            return env
        if isinstance(st, ast.Assert):
            return env
        if isinstance(st, ast.Raise):
            rets.append(AV([], 'scalar', True, 'raise statement'))
            return None
        raise Unsupported(st)

    def snapshot(self, v: Any, env: Dict[str, Any]) -> Any:
        if isinstance(v, SelfObj):
            return PTResult(v.physical, v.default)
        return v

    def assign(self, t: ast.AST, v: Any, env: Dict[str, Any]) -> None:
        if isinstance(t, ast.Name):
            env[t.id] = v
        elif isinstance(t, ast.Attribute) and isinstance(t.value, ast.Name) and isinstance(env.get(t.value.id), SelfObj):
            so = env[t.value.id]
            if t.attr == 'default':
                so.default = as_av(v, t).with_mode('scalar')
            elif t.attr == 'physical':
                so.physical = as_av(v, t).with_mode('tensor')
            else:
                raise Unsupported(t, 'store to another attribute of self')
        elif isinstance(t, ast.Tuple) and isinstance(v, tuple) and len(v) == len(t.elts):
            for a, b in zip(t.elts, v):
                self.assign(a, b, env)
        else:
            raise Unsupported(t, 'assignment target')

    # ------------------------------------------------------------------ expressions with in-place effects on names
    def expr_effect(self, e: ast.AST, env: Dict[str, Any]) -> Any:
        return self.eval_effect(e, env)

    def eval_effect(self, e: ast.AST, env: Dict[str, Any]) -> Any:
        """Evaluate; if the outermost calls are in-place operations on a named receiver / out= target, update the binding."""
        v = self.eval(e, env)
        for tgt in in_place_targets(e):
            if isinstance(tgt, ast.Name) and tgt.id in env and isinstance(v, AV):
                env[tgt.id] = v
            elif isinstance(tgt, ast.Attribute) and isinstance(tgt.value, ast.Name) and isinstance(env.get(tgt.value.id), SelfObj) and isinstance(v, AV):
                if tgt.attr == 'physical':
                    env[tgt.value.id].physical = v.with_mode('tensor')
        return v

    # ------------------------------------------------------------------ expressions
    def truth(self, v: Any, node: ast.AST) -> set:
        if isinstance(v, AV):
            out = set()
            for c in v.cls:
                if c in ('T', 'F'): out.add(c)
                elif c == 'Z': out.add('F')
                elif c == 'NONE': out.add('F')
                else: out.add('T')
            return out or {'T', 'F'}
        if isinstance(v, Opaque):
            return {'T', 'F'}
        if v is None:
            return {'F'}
        return {'T', 'F'}

    def eval(self, e: ast.AST, env: Dict[str, Any]) -> Any:
        if isinstance(e, ast.Constant):
            if e.value is None: return AV([NONE], 'scalar')
            if isinstance(e.value, (bool, int, float)): return const(e.value)
            return Opaque('const:' + repr(e.value))
        if isinstance(e, ast.Name):
            return self.lookup(e.id, env)
        if isinstance(e, ast.Attribute):
            base = self.eval(e.value, env)
            if isinstance(base, SelfObj):
                if e.attr == 'default': return base.default
                if e.attr == 'physical': return base.physical
                return Opaque('self.' + e.attr)
            if isinstance(base, PTResult):
                if e.attr == 'default': return base.default
                if e.attr == 'physical': return base.physical
            if isinstance(base, Opaque):
                if base.what == 'float_info' and e.attr == 'max': return const(FMAX)
                if base.what == 'module:math' or base.what == 'external:math':
                    if e.attr == 'inf': return const(math.inf)
                    if e.attr == 'nan': return const(math.nan)
                    if 'math.' + e.attr in MATH_SCALAR: return Opaque('scalarfn:' + MATH_SCALAR['math.' + e.attr])
                return Opaque(base.what + '.' + e.attr)
            if isinstance(base, AV):
                if e.attr in ('dtype', 'device', 'shape'): return Opaque('tensorattr:' + e.attr)
                if e.attr == 'T': return base
            raise Unsupported(e, 'attribute')
        if isinstance(e, ast.UnaryOp):
            v = self.eval(e.operand, env)
            if isinstance(e.op, ast.USub): return self.unop('neg', v, e)
            if isinstance(e.op, ast.UAdd): return v
            if isinstance(e.op, ast.Invert): return self.unop('logical_not', v, e)
            if isinstance(e.op, ast.Not):
                t = self.truth(v, e)
                return AV({'T' if x == 'F' else 'F' for x in t}, 'scalar', getattr(v, 'may_raise', False), getattr(v, 'why', ''))
        if isinstance(e, ast.BinOp):
            op = BINOPS.get(type(e.op))
            if op is None:
                if isinstance(e.op, ast.Pow):
                    return apply('pow', as_av(self.eval(e.left, env), e), as_av(self.eval(e.right, env), e), mode='scalar')
                raise Unsupported(e, 'operator')
            return self.binop(op, self.eval(e.left, env), self.eval(e.right, env), e)
        if isinstance(e, ast.Compare):
            if len(e.ops) != 1:
                raise Unsupported(e, 'chained comparison')
            l, r = self.eval(e.left, env), self.eval(e.comparators[0], env)
            if isinstance(e.ops[0], (ast.Is, ast.IsNot)):
                lv, rv = as_av(l, e), as_av(r, e)
                if rv.cls == {NONE}:
                    res = set()
                    if NONE in lv.cls: res.add('T')
                    if lv.cls - {NONE}: res.add('F')
                    if isinstance(e.ops[0], ast.IsNot): res = {'T' if x == 'F' else 'F' for x in res}
                    return AV(res, 'scalar')
                raise Unsupported(e, 'identity comparison')
            op = CMPOPS.get(type(e.ops[0]))
            if op is None:
                raise Unsupported(e, 'comparison operator')
            return self.binop(op, l, r, e)
        if isinstance(e, ast.BoolOp):
            vals = [self.eval(v, env) for v in e.values]
            # Python `a or b` / `a and b` return operands; on booleans this is logical or/and
            acc = as_av(vals[0], e)
            for v in vals[1:]:
                acc = apply('logical_or' if isinstance(e.op, ast.Or) else 'logical_and', truth_av(acc), truth_av(as_av(v, e)), mode='scalar')
            return acc
        if isinstance(e, ast.IfExp):
            c = self.truth(self.eval(e.test, env), e.test)
            out = None
            if 'T' in c: out = self.eval(e.body, env)
            if 'F' in c:
                o2 = self.eval(e.orelse, env)
                out = o2 if out is None else join_any(out, o2)
            return out
        if isinstance(e, ast.Tuple):
            return tuple(self.eval(x, env) for x in e.elts)
        if isinstance(e, ast.Subscript):
            b = self.eval(e.value, env)
            if isinstance(b, tuple) and isinstance(e.slice, ast.Constant):
                return b[e.slice.value]
            if isinstance(b, AV):
                return b      # indexing / slicing a tensor keeps its element classes
            raise Unsupported(e, 'subscript')
        if isinstance(e, ast.Lambda):
            return Closure(e, env)
        if isinstance(e, ast.Call):
            return self.call(e, env)
        raise Unsupported(e)

    def unop(self, op: str, v: Any, node: ast.AST) -> AV:
        return apply(op, as_av(v, node))

    def binop(self, op: str, l: Any, r: Any, node: ast.AST) -> AV:
        return apply(op, as_av(l, node), as_av(r, node))

    # ------------------------------------------------------------------ calls
    def call(self, e: ast.Call, env: Dict[str, Any]) -> Any:
        fn = e.func
        kws = {k.arg: k.value for k in e.keywords if k.arg is not None}
        if isinstance(fn, ast.Attribute):
            name = fn.attr
            recv = self.eval(fn.value, env)
            if isinstance(recv, (AV,)):
                return self.tensor_method(recv, name, e, env, kws)
            if isinstance(recv, SelfObj):
                return self.self_method(recv, name, e, env, kws)
            if isinstance(recv, Opaque):
                w = recv.what
                if w in ('module:torch', 'external:torch'):
                    return self.torch_fn(name, e, env, kws)
                if w in ('module:math', 'external:math') and 'math.' + name in MATH_SCALAR:
                    return apply(MATH_SCALAR['math.' + name], as_av(self.eval(e.args[0], env), e).with_mode('scalar'), mode='scalar')
                if w in ('module:operator', 'external:operator') and name in OPERATOR_FN:
                    return self.operator_fn(name, [self.eval(a, env) for a in e.args], e)
                if w.startswith('class:PatternedTensor') and name == 'from_int':
                    raise Unsupported(e, 'PatternedTensor.from_int')
                if w == 'builtin:object' and name == '__setattr__':
                    raise Unsupported(e)
                if w.startswith('self.') or w.startswith('tensorattr'):
                    return Opaque(w + '.' + name + '()')
            if isinstance(recv, PTResult):
                so = SelfObj(as_av(recv.physical, e), as_av(recv.default, e))
                return self.self_method(so, name, e, env, kws)
            raise Unsupported(e, f"call on {recv!r}")
        if isinstance(fn, ast.Name):
            target = self.lookup(fn.id, env)
            args = [self.eval(a, env) for a in e.args]
            if isinstance(target, Opaque):
                w = target.what
                if w.startswith('scalarfn:'):
                    return apply(w.split(':', 1)[1], as_av(args[0], e).with_mode('scalar'), mode='scalar')
                if w in ('builtin:max', 'builtin:min') and len(args) == 2:
                    return apply(w.split(':')[1], as_av(args[0], e).with_mode('scalar'), as_av(args[1], e).with_mode('scalar'), mode='scalar')
                if w == 'builtin:abs':
                    return apply('abs', as_av(args[0], e).with_mode('scalar'), mode='scalar')
                if w in ('builtin:float', 'builtin:bool', 'builtin:int') and len(args) == 1:
                    return as_av(args[0], e).with_mode('scalar') if w != 'builtin:bool' else truth_av(as_av(args[0], e))
                if w == 'builtin:isinstance':
                    key = norm(e.args[0])
                    if key in self.isinstance_answers:
                        return const(self.isinstance_answers[key])
                    return AV(['T', 'F'], 'scalar')
                if w == 'class:PatternedTensor':
                    phys = args[0] if args else self.eval(kws['physical'], env)
                    dflt = args[3] if len(args) > 3 else (self.eval(kws['default'], env) if 'default' in kws else const(0))
                    return PTResult(phys, dflt)
                if w.startswith('builtin:cast') or w.endswith('typing.cast'):
                    return args[1]
            if isinstance(target, Closure):
                return self.call_closure(target, args, e)
            if isinstance(target, Opaque) and target.what.startswith(('module:operator.', 'external:operator.')) and target.what.rsplit('.', 1)[1] in OPERATOR_FN:
                # a function of the operator module passed around as a value (e.g. `_compare(other, operator.lt, torch.lt)`)
                return self.operator_fn(target.what.rsplit('.', 1)[1], args, e)
            if isinstance(target, Opaque) and target.what.startswith(('module:torch.', 'external:torch.')):
                # a torch function passed around as a value (e.g. `_default_op(torch.log)`)
                fake = ast.Call(func=ast.Attribute(value=ast.Name(id='torch', ctx=ast.Load()), attr=target.what.rsplit('.', 1)[1], ctx=ast.Load()),
                                args=e.args, keywords=e.keywords)
                return self.torch_fn(target.what.rsplit('.', 1)[1], fake, env, kws)
            raise Unsupported(e, f"call of {target!r}")
        raise Unsupported(e)

    def operator_fn(self, name: str, args: List[Any], node: ast.AST) -> Any:
        op, arity = OPERATOR_FN[name]
        if len(args) != arity:
            raise Unsupported(node, f"operator.{name} with {len(args)} arguments")
        return self.unop(op, args[0], node) if arity == 1 else self.binop(op, args[0], args[1], node)

    def call_closure(self, cl: Closure, args: List[Any], node: ast.AST) -> Any:
        n = cl.node
        params = [a.arg for a in n.args.args]
        env = dict(cl.env)
        env.update(dict(zip(params, args)))
        if isinstance(n, ast.Lambda):
            return self.eval_effect(n.body, env)
        rets: List[Any] = []
        self.block(n.body, env, rets)
        out = None
        for r in rets:
            out = r if out is None else join_any(out, r)
        # in-place effects on arguments are reported back through env of the closure: the caller reads env['a'] if needed
        cl.last_env = env  # type: ignore
        return out

    def kwarg_av(self, e: ast.Call, env, kws, name: str, pos: Optional[int]) -> AV:
        if name in kws:
            return as_av(self.eval(kws[name], env), e).with_mode('scalar')
        if pos is not None and pos < len(e.args):
            return as_av(self.eval(e.args[pos], env), e).with_mode('scalar')
        return AV([NONE], 'scalar')

    def tensor_method(self, recv: AV, name: str, e: ast.Call, env, kws) -> Any:
        base = name[:-1] if name.endswith('_') and not name.endswith('__') else name
        args = [self.eval(a, env) for a in e.args]
        if base in ('nan_to_num',):
            nan = self.kwarg_av(e, env, kws, 'nan', 0); pinf = self.kwarg_av(e, env, kws, 'posinf', 1); ninf = self.kwarg_av(e, env, kws, 'neginf', 2)
            return apply('nan_to_num', recv, nan, pinf, ninf, mode=recv.mode)
        if base in UNARY and not args:
            return apply(base, recv, mode=recv.mode)
        if base in BINARY and len(args) == 1:
            return apply('div' if base == 'true_divide' else base, recv, as_av(args[0], e), mode=recv.mode if recv.mode == 'tensor' else None)
        if base == 'where' and len(args) == 2:
            return self.where(as_av(args[0], e), recv, as_av(args[1], e))
        if base == 'masked_fill' and len(args) == 2:
            return self.where(as_av(args[0], e), as_av(args[1], e).with_mode('tensor'), recv)
        if name == 'new_tensor':
            return as_av(args[0], e).with_mode('tensor')
        if name == 'item':
            return recv.with_mode('scalar')
        if name in IDENT_METHODS:
            return recv
        if name in ('new_full',) and len(args) == 2:
            return as_av(args[1], e).with_mode('tensor')
        if name in ('any', 'all') and not args and not e.keywords and recv.cls and set(recv.cls) <= {'T', 'F'}:
            # a whole-tensor test: the abstract value stands for one element among unknown others, so only the element that settles
            # the reduction on its own gives a definite answer
            settles = 'T' if name == 'any' else 'F'
            return AV([settles] if set(recv.cls) == {settles} else ['T', 'F'], 'scalar')
        if name in ('any', 'all', 'sum', 'max', 'min', 'logsumexp'):
            raise Unsupported(e, 'reduction')
        raise Unsupported(e, f"tensor method {name}")

    def where(self, c: AV, a: AV, b: AV) -> AV:
        t = self.truth(c, None)  # type: ignore
        out = None
        if 'T' in t: out = a
        if 'F' in t: out = b if out is None else out.join(b)
        return AV(out.cls, 'tensor', out.may_raise or c.may_raise, out.why or c.why)

    def torch_fn(self, name: str, e: ast.Call, env, kws) -> Any:
        if name in ('finfo', 'iinfo'):
            return Opaque('float_info')          # torch.finfo(dtype).max: the largest finite value, like sys.float_info.max
        args = [self.eval(a, env) for a in e.args]
        base = name
        res: Optional[AV] = None
        if base == 'where' and len(args) == 3:
            res = self.where(as_av(args[0], e), as_av(args[1], e).with_mode('tensor'), as_av(args[2], e).with_mode('tensor'))
        elif base == 'nan_to_num':
            nan = self.kwarg_av(e, env, kws, 'nan', 1); pinf = self.kwarg_av(e, env, kws, 'posinf', 2); ninf = self.kwarg_av(e, env, kws, 'neginf', 3)
            res = apply('nan_to_num', as_av(args[0], e).with_mode('tensor'), nan, pinf, ninf, mode='tensor')
        elif base in UNARY and len(args) == 1:
            res = apply(base, as_av(args[0], e).with_mode('tensor'), mode='tensor')
        elif base in BINARY and len(args) == 2:
            res = apply(base, as_av(args[0], e).with_mode('tensor'), as_av(args[1], e), mode='tensor')
        elif base in ('as_tensor', 'tensor', 'clone') and args:
            res = as_av(args[0], e).with_mode('tensor')
        elif base in ('full_like',) and len(args) == 2:
            res = as_av(args[1], e).with_mode('tensor')
        elif base in ('zeros_like', 'zeros'):
            res = const(0.0, 'tensor')
        elif base in ('ones_like', 'ones'):
            res = const(1.0, 'tensor')
        elif base in ('eye',):
            res = AV(['Z', 'ONE'], 'tensor')
        elif base in ('get_default_dtype',):
            return Opaque('dtype')
        elif base in ('max', 'min', 'sum', 'any', 'all', 'logsumexp', 'amax'):
            raise Unsupported(e, 'reduction')
        if res is None:
            raise Unsupported(e, f"torch.{name}")
        return res

    def self_method(self, so: SelfObj, name: str, e: ast.Call, env, kws) -> Any:
        """A PatternedTensor method called on the receiver object: interpret the callee body on the same abstract state."""
        ci = self.func.cls or self.prog.cls('fggs.indices', 'PatternedTensor')
        ci = self.prog.cls('fggs.indices', 'PatternedTensor')
        m = self.prog.find_method(ci, name)
        if m is None:
            raise Unsupported(e, f"PatternedTensor.{name} not found")
        sub = Interp(self.prog, m, {})
        pos = m.positional_params()
        new_env: Dict[str, Any] = {pos[0]: so}
        args = [self.eval(a, env) for a in e.args]
        for p, a in zip(pos[1:], args):
            new_env[p] = a
        for k, v in kws.items():
            new_env[k] = self.eval(v, env)
        for p in m.param_names():
            if p not in new_env:
                d = m.param_default(p)
                new_env[p] = sub.eval(d, {}) if d is not None else AV([NONE], 'scalar')
        for p in pos[1:]:
            v = new_env.get(p)
            sub.isinstance_answers[p] = isinstance(v, (SelfObj, PTResult))
        ret, _ = sub.run(new_env)
        if isinstance(ret, PTResult):
            return SelfObj(as_av(ret.physical, e), as_av(ret.default, e))
        return ret


def in_place_targets(e: ast.AST) -> List[ast.AST]:
    """Receivers / out= targets mutated by the outermost in-place calls of expression e."""
    out: List[ast.AST] = []
    if isinstance(e, ast.Call):
        for k in e.keywords:
            if k.arg == 'out':
                out.append(k.value)
        if isinstance(e.func, ast.Attribute) and e.func.attr.endswith('_') and not e.func.attr.endswith('__'):
            # x.op_(...)  possibly at the end of a chain whose head is the named receiver:  a.neg_().add_(1)
            r = e.func.value
            while isinstance(r, ast.Call) and isinstance(r.func, ast.Attribute) and r.func.attr.endswith('_'):
                r = r.func.value
            out.append(r)
    return out


def _load(t: ast.AST) -> ast.AST:
    import copy
    t2 = copy.deepcopy(t)
    for n in ast.walk(t2):
        if hasattr(n, 'ctx'):
            n.ctx = ast.Load()
    return t2


def as_av(v: Any, node: Optional[ast.AST]) -> AV:
    if isinstance(v, AV):
        return v
    if isinstance(v, (bool, int, float)):
        return const(v)
    if v is None:
        return AV([NONE], 'scalar')
    if isinstance(v, PTResult):
        raise Unsupported(node or ast.Pass(), 'PatternedTensor value used as an element')
    raise Unsupported(node or ast.Pass(), f"value {v!r} is not an element value")


def truth_av(v: AV) -> AV:
    out = set()
    for c in v.cls:
        if c in ('T', 'F'): out.add(c)
        elif c in ('Z', NONE): out.add('F')
        else: out.add('T')
    return AV(out, 'scalar', v.may_raise, v.why)


def join_any(a: Any, b: Any) -> Any:
    if isinstance(a, AV) and isinstance(b, AV):
        return a.join(b)
    if isinstance(a, PTResult) and isinstance(b, PTResult):
        return PTResult(join_any(a.physical, b.physical), join_any(a.default, b.default))
    if isinstance(a, tuple) and isinstance(b, tuple) and len(a) == len(b):
        return tuple(join_any(x, y) for x, y in zip(a, b))
    if a is None: return b
    if b is None: return a
    return a


def copy_env(env: Dict[str, Any]) -> Dict[str, Any]:
    return {k: (v.copy() if isinstance(v, SelfObj) else v) for k, v in env.items()}


def join_env(a: Dict[str, Any], b: Dict[str, Any]) -> Dict[str, Any]:
    out = dict(a)
    for k, v in b.items():
        if k in out:
            if isinstance(out[k], SelfObj) and isinstance(v, SelfObj):
                out[k] = SelfObj(out[k].physical.join(v.physical), out[k].default.join(v.default))
            elif isinstance(out[k], AV) and isinstance(v, AV):
                out[k] = out[k].join(v)
        else:
            out[k] = v
    return out
