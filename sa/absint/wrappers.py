def check_wrappers(prog, rep, rule, only_semiring_used=False):
    pass
