"""C06-D1/D2 and C08-L9: element-wise PatternedTensor methods are homomorphisms.

For a wrapper method M (functional `return PatternedTensor(P(self.physical), .., .., D(self.default))` or in-place
`self.default = D(...); self.physical.<op>_(...)`), the interpreter evaluates the body with the receiver's physical
elements and its default both ranging over each input class; obligation: physical result == default result == the torch
operation of that name (REF, from the tables), and the default path never raises where torch returns a value.
"""
from __future__ import annotations
import ast, itertools
from typing import Any, Dict, List, Optional, Set, Tuple
from .domain import AV, NUM_CLASSES, NONE, const, apply, SINGLETONS
from .interp import Interp, Unsupported, SelfObj, PTResult, Opaque, as_av
from ..model import Program, ClassInfo, FuncInfo, AnalysisError, own_nodes, norm, names_in
from ..report import Report
from ..util import callee_last

IDX = 'fggs.indices'
BOOL_IN = ['F', 'T']


def float_in() -> List[str]:
    from . import domain as _D
    return [c for c in _D.NUM_CLASSES if c != 'NAN']

# method name -> (reference primitive, arity kind)
REF = {
    'neg_': ('neg', 'unary'), 'log_': ('log', 'unary'), 'log1p_': ('log1p', 'unary'), 'relu_': ('relu', 'unary'), 'abs_': ('abs', 'unary'),
    'abs': ('abs', 'unary'), 'exp': ('exp', 'unary'), 'expm1': ('expm1', 'unary'), 'log': ('log', 'unary'), 'logical_not': ('logical_not', 'bool-unary'),
    'nan_to_num_': ('nan_to_num', 'nan_to_num'),
    'lt': ('lt', 'scalar'), 'le': ('le', 'scalar'), 'gt': ('gt', 'scalar'), 'ge': ('ge', 'scalar'), 'eq': ('eq', 'scalar'),
    'add': ('add', 'scalar'), 'mul': ('mul', 'scalar'), 'sub': ('sub', 'scalar'), 'div': ('div', 'scalar'),
    '__imul__': ('mul', 'scalar'), '__itruediv__': ('div', 'scalar'),
    'clamp_min': ('clamp_min', 'scalar'), 'clamp_max': ('clamp_max', 'scalar'),
    'to': ('ident', 'unary-opaque'),
}
COMM_PRIM = {'add_': 'add', 'mul_': 'mul', 'logaddexp': 'logaddexp', 'maximum': 'maximum', 'logical_or_': 'logical_or', 'logical_and_': 'logical_and'}


def tensorlike_members(prog: Program) -> Set[str]:
    ci = prog.cls('fggs.typing', 'TensorLike')
    return {m for m in ci.methods if not m.startswith('_')}


def nan_to_num_configs(prog: Program) -> List[Dict[str, AV]]:
    """Keyword configurations used at the repo's call sites of nan_to_num_ / nan_to_num (plus the all-defaults call)."""
    seen = {}
    for f in prog.all_functions():
        if f.module.name == IDX and f.cls is not None and f.name == 'nan_to_num_':
            continue
        for c in [x for x in own_nodes(f.node) if isinstance(x, ast.Call) and callee_last(x) in ('nan_to_num_', 'nan_to_num')]:
            cfg = {}
            ok = True
            for k in c.keywords:
                if k.arg in ('nan', 'posinf', 'neginf'):
                    try:
                        cfg[k.arg] = as_av(Interp(prog, f).eval(k.value, {}), k.value).with_mode('scalar')
                    except Unsupported:
                        ok = False
            if ok:
                seen[tuple(sorted((k, tuple(sorted(v.cls))) for k, v in cfg.items()))] = cfg
    out = list(seen.values())
    out.append({})
    return out


def run_method(prog: Program, m: FuncInfo, phys: AV, dflt: AV, extra: Dict[str, Any], isinst: Dict[str, bool]) -> Tuple[AV, AV]:
    """Interpret m with receiver (phys, dflt); return (resulting physical elements, resulting default)."""
    it = Interp(prog, m, isinst)
    pos = m.positional_params()
    so = SelfObj(phys, dflt)
    env: Dict[str, Any] = {pos[0]: so}
    for p in m.param_names():
        if p == pos[0]:
            continue
        if p in extra:
            env[p] = extra[p]
        else:
            d = m.param_default(p)
            env[p] = it.eval(d, {}) if d is not None else Opaque('param:' + p)
    ret, final = it.run(env)
    if isinstance(ret, PTResult):
        return as_av(ret.physical, m.node).with_mode('tensor'), as_av(ret.default, m.node).with_mode('scalar')
    if isinstance(ret, SelfObj):
        return ret.physical, ret.default
    raise Unsupported(m.node, f"{m.qualname} returned {ret!r}, not a PatternedTensor")


def check_wrappers(prog: Program, rep: Report, rule: str, only_semiring_used: bool = False) -> None:
    pt = prog.cls(IDX, 'PatternedTensor')
    members = tensorlike_members(prog)
    covered = 0
    not_covered: List[str] = []
    n_eval = 0
    for name, (prim, kind) in REF.items():
        if only_semiring_used and name not in members:
            continue
        m = pt.methods.get(name)
        if m is None:
            if name in members:
                rep.ob(rule, pt.fq(), f"PatternedTensor.{name} exists (TensorLike member)", f"{pt.module.relpath}:{pt.node.lineno}", False,
                       'the protocol every semiring operand must implement lists this method but PatternedTensor does not define it')
            continue
        isinst = {}
        pos = m.positional_params()
        others = [p for p in pos[1:]]
        for p in others:
            isinst[p] = False           # scalar branch
        ins = BOOL_IN if kind == 'bool-unary' else float_in()
        configs: List[Dict[str, AV]] = [{}]
        if kind == 'nan_to_num':
            configs = nan_to_num_configs(prog)
            from . import domain as _D
            ins = list(_D.NUM_CLASSES)
        elif kind == 'scalar':
            configs = [{others[0]: AV([c], 'scalar')} for c in float_in()] if others else [{}]
            if prim in ('lt', 'le', 'gt', 'ge', 'eq'):
                # comparisons are crisp on NaN (always False): include it on both sides
                ins = ins + ['NAN']
                configs = configs + ([{others[0]: AV(['NAN'], 'scalar')}] if others else [])
        elif kind == 'unary-opaque':
            configs = [{others[0]: Opaque('dtype')}] if others else [{}]
        bad: List[str] = []
        try:
            for cfg in configs:
                for c in ins:
                    x_t, x_s = AV([c], 'tensor'), AV([c], 'scalar')
                    got_p, got_d = run_method(prog, m, x_t, x_s, dict(cfg), isinst)
                    n_eval += 1
                    if kind == 'nan_to_num':
                        ref = apply('nan_to_num', x_t, cfg.get('nan', AV([NONE], 'scalar')) if 'nan' in cfg else const(0.0), cfg.get('posinf', AV([NONE], 'scalar')),
                                    cfg.get('neginf', AV([NONE], 'scalar')), mode='tensor')
                    elif kind == 'scalar' and others:
                        ref = apply(prim, x_t, cfg[others[0]], mode='tensor')
                    elif kind == 'unary-opaque':
                        ref = x_t
                    else:
                        ref = apply(prim, x_t, mode='tensor')
                    cfgtxt = ', '.join(f"{k}={v}" for k, v in cfg.items() if isinstance(v, AV))
                    tag = f"x in {c}" + (f", {cfgtxt}" if cfgtxt else '')
                    if got_d.may_raise:
                        bad.append(f"[{tag}] the default path raises ({got_d.why}) where torch.{prim} returns {ref}")
                    elif got_p.cls != ref.cls:
                        bad.append(f"[{tag}] physical elements become {got_p} but torch.{prim} gives {ref}")
                    elif got_d.cls != ref.cls:
                        bad.append(f"[{tag}] default becomes {got_d} but the elements it stands for become {ref}")
        except Unsupported as u:
            not_covered.append(f"{name}: {u}")
            continue
        covered += 1
        rep.ob(rule, m.fq(), f"PatternedTensor.{name}: physical path == default path == torch.{prim} on every input class", m.loc(), not bad,
               '; '.join(bad[:4]) + (f" (+{len(bad) - 4} more)" if len(bad) > 4 else '') if bad else f"{len(configs) * len(ins)} class/parameter combinations agree")
    rep.analysed['wrapper_methods_covered'] = covered
    rep.analysed['wrapper_evaluations'] = n_eval
    rep.analysed['wrapper_methods_not_covered'] = not_covered
    rep.floor(rule.split(' ')[0] + ' wrappers covered', covered, 12 if only_semiring_used else 22)
    if not_covered:
        for nc in not_covered:
            rep.error(f"{rule}: wrapper not interpretable: {nc}")


# ------------------------------------------------------------------------------------------ commutative / binary (C06-D2)
def check_binary(prog: Program, rep: Report, rule: str) -> None:
    pt = prog.cls(IDX, 'PatternedTensor')
    n = 0
    for m in pt.methods.values():
        for call in [x for x in own_nodes(m.node) if isinstance(x, ast.Call) and isinstance(x.func, ast.Attribute) and x.func.attr == 'commutative']:
            if len(call.args) != 4:
                rep.error(f"{rule}: {m.loc(call)} commutative(...) call with {len(call.args)} arguments")
                continue
            n += 1
            t_name = norm(call.func.value)
            u_arg, ident, dflt, lam = call.args
            u_name = norm(u_arg)
            # primitive of the in-place lambda
            prim = None
            if isinstance(lam, ast.Lambda):
                b = lam.body
                if isinstance(b, ast.Call):
                    nm = callee_last(b)
                    prim = COMM_PRIM.get(nm or '')
            if prim is None:
                rep.error(f"{rule}: {m.loc(call)} cannot identify the in-place operation `{norm(lam)[:60]}`")
                continue
            ins = BOOL_IN if prim.startswith('logical') else float_in()
            # (1) the operation is the one the method is named after
            want = {'__add__': 'add', '__mul__': 'mul'}.get(m.name, m.name)
            rep.ob(rule, m.fq(), f"{m.name}: in-place operation of the pattern-aware path is torch.{want}", m.loc(call), prim == want,
                   f"lambda applies `{prim}`")
            # (2) identity
            try:
                iv = as_av(Interp(prog, m).eval(ident, {}), ident)
            except Unsupported as u:
                rep.error(f"{rule}: {m.loc(call)} identity argument: {u}"); continue
            bad = []
            for c in ins:
                x = AV([c], 'tensor')
                if apply(prim, iv.with_mode('tensor'), x, mode='tensor').cls != {c} or apply(prim, x, iv.with_mode('tensor'), mode='tensor').cls != {c}:
                    bad.append(c)
            rep.ob(rule, m.fq(), f"{m.name}: identity argument {norm(ident)} is the identity of torch.{prim}", m.loc(call), not bad,
                   f"{prim}({iv}, x) = x on every class" if not bad else f"{prim}({iv}, x) != x for x in {bad}: unbacked elements that keep the other operand's value would be wrong")
            # (3) default of the result
            badd = []
            try:
                for c1, c2 in itertools.product(ins, repeat=2):
                    env = {t_name: SelfObj(AV([c1], 'tensor'), AV([c1], 'scalar')), u_name: SelfObj(AV([c2], 'tensor'), AV([c2], 'scalar'))}
                    from ..util import inline_temps as _it
                    got = as_av(Interp(prog, m).eval(_it(m.node, dflt), env), dflt)       # `default = ...` named first
                    ref = apply(prim, AV([c1], 'tensor'), AV([c2], 'tensor'), mode='tensor')
                    if got.may_raise:
                        badd.append(f"({c1},{c2}) raises: {got.why}")
                    elif got.cls != ref.cls:
                        badd.append(f"({c1},{c2}) default {got} but torch.{prim} gives {ref}")
            except Unsupported as u:
                rep.error(f"{rule}: {m.loc(call)} default argument: {u}"); continue
            rep.ob(rule, m.fq(), f"{m.name}: result default `{norm(dflt)[:60]}` == torch.{prim}(t.default, u.default)", m.loc(call), not badd,
                   '; '.join(badd[:3]) if badd else f"{len(ins) ** 2} class pairs agree")
    rep.floor(rule.split(' ')[0] + ' commutative calls', n, 6)
    # binary(other, <default>, torch.<op>): the default of the result is <op> applied to the two defaults
    nb = 0
    for m in pt.methods.values():
        for call in [x for x in own_nodes(m.node) if isinstance(x, ast.Call) and isinstance(x.func, ast.Attribute) and x.func.attr == 'binary' and len(x.args) == 3]:
            u_arg, dflt, opx = call.args
            from ..util import inline_temps
            dflt = inline_temps(m.node, dflt)       # the default may have been given a name first
            prim = opx.attr if isinstance(opx, ast.Attribute) and norm(opx.value) == 'torch' else None
            if prim is None:
                continue
            nb += 1
            t_name, u_name = norm(call.func.value), norm(u_arg)
            want = {'__lt__': 'lt', '__le__': 'le', '__gt__': 'gt', '__ge__': 'ge', '__eq__': 'eq'}.get(m.name, m.name)
            rep.ob(rule, m.fq(), f"{m.name}: element-wise operation of the pattern-aware path is torch.{want}", m.loc(call), prim == want, f"binary(..., torch.{prim})")
            badd = []
            try:
                for c1, c2 in itertools.product(float_in(), repeat=2):
                    env = {t_name: SelfObj(AV([c1], 'tensor'), AV([c1], 'scalar')), u_name: SelfObj(AV([c2], 'tensor'), AV([c2], 'scalar'))}
                    from ..util import inline_temps as _it
                    got = as_av(Interp(prog, m).eval(_it(m.node, dflt), env), dflt)       # `default = ...` named first
                    ref = apply(prim, AV([c1], 'tensor'), AV([c2], 'tensor'), mode='tensor')
                    if got.may_raise:
                        badd.append(f"({c1},{c2}) raises: {got.why}")
                    elif got.cls != ref.cls:
                        badd.append(f"({c1},{c2}) default {got} but torch.{prim} gives {ref}")
            except Unsupported as u:
                rep.error(f"{rule}: {m.loc(call)} default argument of binary(): {u}"); continue
            rep.ob(rule, m.fq(), f"{m.name}: result default `{norm(dflt)[:60]}` == torch.{prim}(t.default, u.default)", m.loc(call), not badd,
                   '; '.join(badd[:3]) if badd else f"{len(float_in()) ** 2} class pairs agree")
    rep.floor(rule.split(' ')[0] + ' binary calls', nb, 3)
    # sub / div: constants the pattern shortcuts compare defaults with are the right identities; result default == op on defaults
    for name, prim, rid in (('sub', 'sub', 0), ('div', 'div', 1)):
        m = pt.methods.get(name)
        if m is None:
            continue
        other = m.positional_params()[1]
        selfn = m.positional_params()[0]
        for c in [x for x in own_nodes(m.node) if isinstance(x, ast.Compare) and len(x.ops) == 1 and isinstance(x.ops[0], (ast.Eq, ast.NotEq))
                  and isinstance(x.comparators[0], ast.Constant) and norm(x.left) in (f"{selfn}.default", f"{other}.default")]:
            k = c.comparators[0].value
            kv = const(float(k), 'tensor')
            okk = all(apply(prim, AV([cl], 'tensor'), kv, mode='tensor').cls == {cl} for cl in float_in())
            rep.ob(rule, m.fq(), f"{name}: shortcut test `{norm(c)}` compares with the right identity of torch.{prim}", m.loc(c), okk and k == rid,
                   f"x {prim} {k} == x on every class: {okk}")
        asg = [a for a in own_nodes(m.node) if isinstance(a, ast.Assign) and len(a.targets) == 1 and norm(a.targets[0]) == 'default']
        for a in asg:
            badd = []
            try:
                for c1, c2 in itertools.product(float_in(), repeat=2):
                    env = {selfn: SelfObj(AV([c1], 'tensor'), AV([c1], 'scalar')), other: SelfObj(AV([c2], 'tensor'), AV([c2], 'scalar'))}
                    got = as_av(Interp(prog, m).eval(a.value, env), a.value)
                    ref = apply(prim, AV([c1], 'tensor'), AV([c2], 'tensor'), mode='tensor')
                    if got.may_raise:
                        badd.append(f"({c1},{c2}) raises: {got.why}")
                    elif got.cls != ref.cls:
                        badd.append(f"({c1},{c2}) default {got} but torch.{prim} gives {ref}")
            except Unsupported as u:
                rep.error(f"{rule}: {m.loc(a)} {u}"); continue
            rep.ob(rule, m.fq(), f"{name}: result default `{norm(a.value)[:60]}` == torch.{prim}(self.default, other.default)", m.loc(a), not badd,
                   '; '.join(badd[:3]) if badd else f"{len(float_in()) ** 2} class pairs agree")
