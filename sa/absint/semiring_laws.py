def check_star_at_one(prog, rep, rule):
    pass
