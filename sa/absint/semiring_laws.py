"""C08 (and the clauses C01-D2, C02-D3, C07-D1 share it): semiring laws decided on the abstract carrier by
interpreting the ASTs of the semiring methods of fggs/semirings.py."""
from __future__ import annotations
import ast, itertools
from typing import Any, Dict, List, Optional, Tuple
from .domain import AV, NUM_CLASSES, SINGLETONS, const, NONE
from .interp import Interp, Unsupported, Opaque, as_av, PTResult
from ..model import Program, ClassInfo, FuncInfo, AnalysisError, own_nodes, norm
from ..report import Report
from ..util import callee_last

SR = 'fggs.semirings'
from . import domain as _D


def carrier_of(name: str) -> List[str]:
    """Abstract carrier of a semiring in the current partition."""
    if name == 'BoolSemiring':
        return ['F', 'T']
    num = [c for c in _D.NUM_CLASSES if c != 'NAN']
    if name == 'RealSemiring':
        return [c for c in num if _D.class_bounds(c)[0] >= 0]
    if name in ('LogSemiring', 'ViterbiSemiring'):
        return num
    raise KeyError(name)


CARRIER = {'RealSemiring', 'LogSemiring', 'ViterbiSemiring', 'BoolSemiring'}
SUM_FAMILY = {'add': {'sum'}, 'logaddexp': {'logsumexp'}, 'maximum': {'max', 'amax'}, 'logical_or': {'any'}}


class Sem:
    def __init__(self, prog: Program, ci: ClassInfo):
        self.prog, self.ci = prog, ci
        self.name = ci.name
        self.carrier = carrier_of(ci.name)
        self.cache: Dict[Tuple, AV] = {}

    def method(self, name: str) -> FuncInfo:
        f = self.prog.find_method(self.ci, name)
        if f is None:
            raise AnalysisError(f"{self.name}.{name} not found")
        return f

    def call(self, name: str, *args: AV) -> AV:
        key = (name,) + tuple((a.cls, a.mode) for a in args)
        if key in self.cache:
            return self.cache[key]
        f = self.method(name)
        it = Interp(self.prog, f)
        pos = f.positional_params()
        env: Dict[str, Any] = {}
        if not f.is_static and pos:
            env[pos[0]] = Opaque('semiring'); pos = pos[1:]
        for p, a in zip(pos, args):
            env[p] = a
        ret, final = it.run(env)
        if ret is None and name.endswith('_'):
            ret = final.get(pos[0])      # in-place: the updated first argument
        if not isinstance(ret, AV):
            raise Unsupported(f.node, f"{self.name}.{name} returned {ret!r}")
        self.cache[key] = ret
        return ret

    def cls(self, c: str) -> AV:
        return AV([c], 'tensor')

    def elem(self, n: int) -> AV:
        return self.call('from_int', const(n, 'tensor'))


def _eq(a: AV, b: AV) -> bool:
    """Agreement of two abstract results: equal when both are single points, otherwise they must intersect."""
    if a.is_singleton() and b.is_singleton():
        return a.cls == b.cls
    return bool(a.cls & b.cls)


def semirings(prog: Program) -> List[Sem]:
    base = prog.cls(SR, 'Semiring')
    out = []
    subs = prog.subclasses(base, strict=True)
    for c in subs:
        if c.name not in CARRIER and c.name.startswith('_') and any(c in prog.mro(d)[1:] for d in subs):
            continue            # a private intermediate base class shared by concrete semirings: its methods are checked through them (MRO)
        if c.name not in CARRIER:
            raise AnalysisError(f"semiring subclass {c.name} has no carrier description in the checker; add it to CARRIER")
        out.append(Sem(prog, c))
    if len(out) < 4:
        raise AnalysisError(f"expected the four semirings, found {[s.name for s in out]}")
    return out


def run_laws(prog: Program, rep: Report, thorough: bool = False) -> None:
    n_instances = 0
    for S in semirings(prog):
        where = f"{SR}:{S.name}"
        loc = f"{S.ci.module.relpath}:{S.ci.node.lineno}"
        try:
            zero, one, two = S.elem(0), S.elem(1), S.elem(2)
        except Unsupported as u:
            rep.error(f"C08: {where}.from_int: {u}")
            continue

        def ob(rule: str, construct: str, ok: bool, detail: str):
            nonlocal n_instances
            n_instances += 1
            rep.ob(rule, where, construct, loc, ok, detail)
        # L1
        ob('C08-L1 from_int', 'from_int(0), from_int(1) are single elements', zero.is_singleton() and one.is_singleton(), f"from_int(0)={zero}, from_int(1)={one}")
        if not (zero.is_singleton() and one.is_singleton()):
            continue
        Z, O = next(iter(zero.cls)), next(iter(one.cls))
        top = 'T' if S.name == 'BoolSemiring' else 'PINF'
        try:
            ob('C08-L1 from_int', 'from_int(2) = add(one, one)', _eq(two, S.call('add', one, one)), f"from_int(2)={two}, add(one,one)={S.call('add', one, one)}")
            idem = S.call('add', one, one).cls == one.cls
            for c in S.carrier:
                x = S.cls(c)
                # L2 / L3 / L4
                for a, b, side in ((zero, x, 'zero+x'), (x, zero, 'x+zero')):
                    r = S.call('add', a, b)
                    ob('C08-L2 add-identity', f"add {side} at x in {c}", r.cls == {c}, f"add({a},{b}) = {r}, expected {{{c}}}")
                for a, b, side in ((one, x, 'one*x'), (x, one, 'x*one')):
                    r = S.call('mul', a, b)
                    ob('C08-L3 mul-identity', f"mul {side} at x in {c}", r.cls == {c}, f"mul({a},{b}) = {r}, expected {{{c}}}")
                for a, b, side in ((zero, x, 'zero*x'), (x, zero, 'x*zero')):
                    r = S.call('mul', a, b)
                    ob('C08-L4 annihilation', f"mul {side} at x in {c}", r.cls == {Z}, f"mul({a},{b}) = {r}, expected {{{Z}}} (0 x inf = 0)")
            # L5
            for a, b in itertools.combinations_with_replacement(S.carrier, 2):
                for op in ('add', 'mul'):
                    l, r = S.call(op, S.cls(a), S.cls(b)), S.call(op, S.cls(b), S.cls(a))
                    ob('C08-L5 commutativity', f"{op}({a},{b}) = {op}({b},{a})", l.cls == r.cls, f"{l} vs {r}")
            triples = list(itertools.product(S.carrier, repeat=3))
            for a, b, c in triples:
                A, B, C = S.cls(a), S.cls(b), S.cls(c)
                for op in ('add', 'mul'):
                    l = S.call(op, S.call(op, A, B), C); r = S.call(op, A, S.call(op, B, C))
                    special = all(x in SINGLETONS for x in (a, b, c))
                    ob('C08-L5 associativity', f"{op}: ({a},{b}),{c}", _eq(l, r), f"({a}{op}{b}){op}{c} = {l}; {a}{op}({b}{op}{c}) = {r}")
                l = S.call('mul', A, S.call('add', B, C)); r = S.call('add', S.call('mul', A, B), S.call('mul', A, C))
                ob('C08-L5 distributivity', f"{a}*({b}+{c})", _eq(l, r), f"a*(b+c) = {l}; a*b+a*c = {r}")
            # L6 star
            sz = S.call('star', zero)
            ob('C08-L6 star', 'star(zero) = one', sz.cls == {O}, f"star({zero}) = {sz}")
            st = S.call('star', S.cls(top))
            ob('C08-L6 star', 'star(top) = top', st.cls == {top}, f"star({{{top}}}) = {st}")
            so = S.call('star', one)
            want = O if idem else top
            ob('C08-L6 star', f"star(one) = {'one (idempotent semiring: add(one,one)=one)' if idem else 'top (1+1+... diverges)'}", so.cls == {want},
               f"star({one}) = {so}, expected {{{want}}}; least solution of y = 1 + 1*y")
            for c in S.carrier:
                r = S.call('star', S.cls(c))
                # star(x) >= one : add(star(x), one) == star(x) classwise (one is absorbed)
                ob('C08-L6 star', f"star(x) >= one at x in {c}", 'NAN' not in r.cls and not (r.cls & below_one(S, O)),
                   f"star({{{c}}}) = {r}")
                # star(x) solves y = one + x*y
                rhs = S.call('add', one, S.call('mul', S.cls(c), r))
                ob('C08-L6 star', f"star(x) = one + x*star(x) at x in {c}", 'NAN' not in r.cls and _eq(r, rhs), f"star({{{c}}}) = {r}; one + x*star(x) = {rhs}")
            # L7 sub
            for c in S.carrier:
                x = S.cls(c)
                r = S.call('add', S.call('sub', x, zero), zero)
                ob('C08-L7 sub', f"(x - zero) + zero = x at x in {c}", r.cls == {c}, f"= {r}")
                r = S.call('add', S.call('sub', S.cls(top), x), x)
                ob('C08-L7 sub', f"(top - y) + y = top at y in {c}", r.cls == {top}, f"= {r}")
                if c in SINGLETONS:
                    r = S.call('add', S.call('sub', x, x), x)
                    ob('C08-L7 sub', f"(x - x) + x = x at x = {c}", r.cls == {c}, f"= {r}")
            # L8 add_ and sum
            for a, b in itertools.product(S.carrier, repeat=2):
                l = S.call('add', S.cls(a), S.cls(b)); r = S.call('add_', S.cls(a), S.cls(b))
                ob('C08-L8 add_ agrees with add', f"add_({a},{b})", l.cls == r.cls, f"add = {l}, add_ = {r}")
            fam = sum_family(S)
            ob('C08-L8 sum family', f"sum belongs to the family of add", fam[0], fam[1])
            tot = sum_total_on_empty(S)
            ob('C08-L8 sum family', 'sum of an empty dimension is defined (the semiring zero)', tot[0], tot[1])
        except Unsupported as u:
            rep.error(f"C08: {where}: {u}")
    rep.analysed['law_instances'] = n_instances
    rep.floor('C08 law instances', n_instances, 3000)


def below_one(S: Sem, O: str) -> set:
    if S.name == 'BoolSemiring':
        return {'F'}
    one_v = _D.class_bounds(O)[0]
    out = set()
    for c in _D.NUM_CLASSES:
        if c in ('NAN', O):
            continue
        lo, hi = _D.class_bounds(c)
        if hi <= one_v:
            out.add(c)
    return out


def add_primitive(S: Sem) -> Optional[str]:
    f = S.method('add')
    for n in own_nodes(f.node):
        if isinstance(n, ast.Call) and isinstance(n.func, ast.Attribute) and n.func.attr in SUM_FAMILY:
            return n.func.attr
    return None


def sum_family(S: Sem) -> Tuple[bool, str]:
    prim = add_primitive(S)
    if prim is None:
        return False, 'cannot identify the primitive used by add'
    alias = S.prog.class_attr_alias(S.ci, 'sum')
    if alias is not None:
        names = {n.attr for n in ast.walk(alias) if isinstance(n, ast.Attribute)} | {n.id for n in ast.walk(alias) if isinstance(n, ast.Name)}
    else:
        f = S.method('sum')
        names = {callee_last(n) for n in own_nodes(f.node) if isinstance(n, ast.Call)}
    ok = bool(names & SUM_FAMILY[prim])
    return ok, f"add uses `{prim}`; sum is built from {sorted(x for x in names if x and x not in ('staticmethod', 'torch'))}; expected one of {sorted(SUM_FAMILY[prim])}"


PARTIAL_ON_EMPTY = {'max', 'min', 'amax', 'amin', 'argmax', 'argmin'}       # torch reductions that raise on a zero-size dimension


def sum_total_on_empty(S: Sem) -> Tuple[bool, str]:
    """The n-ary sum of zero elements is the semiring zero: a reduction without an identity (torch.max over a dimension) must be
    guarded by a test of the dimension's size."""
    alias = S.prog.class_attr_alias(S.ci, 'sum')
    if alias is not None:
        names = {n.attr for n in ast.walk(alias) if isinstance(n, ast.Attribute)} | {n.id for n in ast.walk(alias) if isinstance(n, ast.Name)}
        bad = names & PARTIAL_ON_EMPTY
        return not bad, f"sum = {ast.unparse(alias)}" + (f": `{sorted(bad)[0]}` raises on an empty dimension" if bad else '')
    f = S.method('sum')
    from ..cfg import cfg_of
    from ..guards import collect_atoms
    cfg = cfg_of(f)
    partial = [n for n, nd in cfg.nodes.items() if nd.stmt is not None and nd.kind in ('stmt', 'return')
               and any(isinstance(x, ast.Call) and callee_last(x) in PARTIAL_ON_EMPTY for x in ast.walk(nd.stmt))]
    if not partial:
        return True, 'every reduction used has an identity (total on an empty dimension)'
    guards = [n for n, nd in cfg.nodes.items() if nd.kind == 'test' and any(isinstance(a, ast.Compare) and ('.shape[' in ast.unparse(a) or '.size(' in ast.unparse(a) or 'numel' in ast.unparse(a))
                                                                             for a in collect_atoms(nd.expr).values())]
    dom = cfg.dominators()
    ok = all(any(g in dom.get(p_, set()) for g in guards) for p_ in partial)
    if ok:
        # polarity: with the dimension empty the partial reduction is unreachable, with a non-empty one it is what is returned
        from ..guards import Env, walk
        size_terms = set()
        for g in guards:
            for a in collect_atoms(cfg.nodes[g].expr).values():
                if isinstance(a, ast.Compare):
                    for x in [a.left] + a.comparators:
                        tx = ast.unparse(x)
                        if '.shape[' in tx or '.size(' in tx or 'numel' in tx:
                            size_terms.add(norm(x))
        for t in size_terms:
            r0 = walk(cfg, cfg.entry, Env(ints={t: 0}), unknown='both')
            r2 = walk(cfg, cfg.entry, Env(ints={t: 2}), unknown='both')
            if any(p_ in r0 for p_ in partial) or not all(p_ in r2 for p_ in partial):
                return False, f"the test on `{t}` has the wrong polarity: the reduction without identity runs for an empty dimension, or the constant zero is returned for a non-empty one"
            fills = [n for n, nd in cfg.nodes.items() if nd.kind == 'return' and nd.expr is not None and any(isinstance(c, ast.Call) and callee_last(c) in ('new_full', 'full', 'full_like', 'new_zeros', 'zeros') for c in ast.walk(nd.expr))]
            if any(n in r2 for n in fills):
                return False, f"the constant result is returned although `{t}` is not 0"

    return ok, ('the reduction without identity is reached only after a test of the dimension size' if ok else
                f"`{callee_last([x for x in ast.walk(cfg.nodes[partial[0]].stmt) if isinstance(x, ast.Call) and callee_last(x) in PARTIAL_ON_EMPTY][0])}` over a dimension raises when the dimension is empty; the sum of no elements is the semiring zero")


def check_star_at_one(prog: Program, rep: Report, rule: str) -> None:
    n = 0
    for S in semirings(prog):
        where = f"{SR}:{S.name}"
        loc = S.method('star').loc()
        try:
            one = S.elem(1)
            idem = S.call('add', one, one).cls == one.cls
            top = 'T' if S.name == 'BoolSemiring' else 'PINF'
            so = S.call('star', one)
            want = next(iter(one.cls)) if idem else top
            n += 1
            rep.ob(rule, where, f"star(one) in {S.name}", loc, so.cls == {want},
                   f"add(one,one) {'=' if idem else '!='} one so the semiring is {'idempotent' if idem else 'not idempotent'}; star(one) = {so}, least solution of y = 1 + y is {{{want}}}"
                   + ('' if so.cls == {want} else ' -- newton/linear would return a different value than fixed-point on weight-one cycles'))
        except Unsupported as u:
            rep.error(f"{rule}: {where}: {u}")
    rep.floor(rule.split(' ')[0] + ' star instances', n, 4)


# ------------------------------------------------------------------------------------------ einsum callbacks (C07-D1)
def einsum_callbacks(prog: Program, S: Sem) -> Dict[str, FuncInfo]:
    """{'mul': callback FuncInfo} -- the nested function passed as the multiply callback to compute_sum in S.einsum."""
    f = S.method('einsum')
    out: Dict[str, FuncInfo] = {}
    nested = {c.name: c for c in f.children if not c.is_lambda}
    for g in [f] + [c for c in f.children]:
        for n in own_nodes(g.node):
            if isinstance(n, ast.Call) and isinstance(n.func, ast.Name) and n.func.id == 'compute_sum' and len(n.args) >= 3:
                m = n.args[2]
                if isinstance(m, ast.Name) and m.id not in nested:
                    from ..util import single_assignments
                    for scope in (g, f):
                        sa_ = single_assignments(scope.node)
                        if m.id in sa_:
                            m = sa_[m.id]          # a local name for the callback
                            break
                if isinstance(m, ast.Name) and m.id in nested:
                    out['mul'] = nested[m.id]
                elif isinstance(m, ast.Name) and m.id in f.module.functions and not f.module.functions[m.id].is_lambda:
                    out['mul'] = f.module.functions[m.id]           # a module-level function given as the callback
                elif isinstance(m, ast.Attribute) and isinstance(m.value, ast.Name) and m.value.id in f.module.classes:
                    cm = prog.find_method(f.module.classes[m.value.id], m.attr)   # a (static) method given as the callback
                    if cm is not None:
                        out['mul'] = cm
                a = n.args[0]
                out.setdefault('add_names', [])  # type: ignore
                out['add_names'].append(norm(a))  # type: ignore
    return out


def check_einsum_callbacks(prog: Program, rep: Report, rule: str) -> None:
    n = 0
    for S in semirings(prog):
        where = f"{SR}:{S.name}.einsum"
        f = S.method('einsum')
        cbs = einsum_callbacks(prog, S)
        if 'mul' not in cbs:
            if S.name == 'BoolSemiring':
                # Boolean einsum = real einsum of 0/1 followed by > 0
                ok = any(isinstance(x, ast.Compare) and isinstance(x.ops[0], ast.Gt) and isinstance(x.comparators[0], ast.Constant) and x.comparators[0].value == 0 for x in own_nodes(f.node))
                rep.ob(rule, where, 'boolean einsum = (real einsum of the 0/1 operands) > 0', f.loc(), ok, '')
                continue
            rep.error(f"{rule}: {where}: cannot find the multiply callback passed to compute_sum")
            continue
        cb = cbs['mul']
        # every path of einsum returns the result of the library driver with this callback (no side path with other semantics)
        rets = [r for r in own_nodes(f.node) if isinstance(r, ast.Return) and r.value is not None]
        nested_rets = set()
        for ch in f.children:
            for r in own_nodes(ch.node):
                if isinstance(r, ast.Return): nested_rets.add(id(r))
        side = []
        for r in rets:
            if id(r) in nested_rets:
                continue
            from ..util import inline_temps as _it
            v = _it(f.node, r.value)           # `result = semiring_einsum_forward(...); <log>; return result`
            okr = isinstance(v, ast.Call) and callee_last(v) == 'semiring_einsum_forward' and any(isinstance(a, ast.Name) and a.id == 'callback' or isinstance(a, ast.Name) and a.id in {c.name for c in f.children} for a in v.args)
            if not okr:
                side.append(norm(v)[:80])
        rep.ob(rule, where, 'every return of einsum is semiring_einsum_forward(..., callback)', f.loc(), not side,
               'no side path' if not side else f"a path returns `{side[0]}`: the product is then not formed by the callback that implements the semiring's mul (0 x inf = 0)")
        bad = []
        k = 0
        for a, b in itertools.product(S.carrier, repeat=2):
            try:
                it = Interp(prog, cb)
                pa, pb = cb.positional_params()[:2]
                _, final = it.run({pa: S.cls(a), pb: S.cls(b)})
                got = final[pa]
                want = S.call('mul', S.cls(a), S.cls(b))
            except Unsupported as u:
                rep.error(f"{rule}: {where}: {u}")
                bad = None
                break
            k += 1
            if got.cls != want.cls:
                bad.append(f"({a},{b}): callback gives {got}, {S.name}.mul gives {want}")
        if bad is None:
            continue
        n += k
        rep.ob(rule, where, f"{cb.name}(a, b) == {S.name}.mul(a, b) on all {k} class pairs", cb.loc(), not bad,
               '; '.join(bad[:4]) if bad else 'the in-place multiply of the einsum is the semiring product (0 x inf = 0 convention included)')
        # the additive callbacks belong to the family of add
        prim = add_primitive(S)
        names = ' '.join(cbs.get('add_names', []))  # type: ignore
        fam = {'add': 'add_in_place', 'logaddexp': 'add_in_place max_in_place', 'maximum': 'max_in_place'}.get(prim or '', '')
        ok = bool(names) and all(x.split('.')[-1] in fam.split() for x in names.split())
        rep.ob(rule, where, 'additive callbacks belong to the family of the semiring add', f.loc(), ok, f"add uses `{prim}`; compute_sum receives {names}")
    rep.floor(rule.split(' ')[0] + ' callback class pairs', n, 150)
