"""E3 abstract domain: a finite partition of the extended reals (plus the two booleans) and transfer tables for the
element-wise operations the repository uses.

The tables are the trusted base of C08/C06/C07/C01/C02: they encode IEEE-754 / torch element semantics
(`TORCH`) and Python scalar semantics (`PY`, including the inputs on which Python *raises* where torch returns
nan/inf).  They are computed once per run from the primitive definitions below over representative members of each
class (including the extremes of the float range, so overflow and underflow are visible); nothing of the analysed
repository is executed.
"""
from __future__ import annotations
import math, sys, itertools
from typing import Callable, Dict, FrozenSet, Iterable, List, Optional, Tuple, Union

FMAX = sys.float_info.max
TINY = 5e-324
EPS = 2.0 ** -52

NUM_CLASSES = ['NINF', 'LT_M1', 'M1', 'M1_0', 'Z', 'P0_1', 'ONE', 'GT1', 'PINF', 'NAN']
BOOL_CLASSES = ['F', 'T']
NONE = 'NONE'      # the Python value None (keyword defaults such as posinf=None)
RAISE = 'RAISE'    # evaluating the expression raises (Python scalar path only)
SINGLETONS = {'NINF', 'M1', 'Z', 'ONE', 'PINF', 'F', 'T', 'NONE'}

SAMPLES: Dict[str, List] = {
    'NINF': [-math.inf],
    'LT_M1': [-FMAX, -1e300, -1e10, -4.0, -3.0, -2.0, -1.5, -(1 + 2 * EPS)],
    'M1': [-1.0],
    'M1_0': [-(1 - EPS), -0.75, -0.5, -0.25, -1e-10, -1e-300, -TINY],
    'Z': [0.0],
    'P0_1': [TINY, 1e-300, 1e-10, 0.25, 0.5, 0.75, 1 - EPS],
    'ONE': [1.0],
    'GT1': [1 + 2 * EPS, 1.5, 2.0, 3.0, 4.0, 1e10, 1e300, FMAX],
    'PINF': [math.inf],
    'NAN': [math.nan],
    'F': [False],
    'T': [True],
    'NONE': [None],
}


class PyRaise(Exception):
    pass


def classify(v) -> str:
    if v is None:
        return NONE
    if isinstance(v, bool):
        return 'T' if v else 'F'
    v = float(v)
    if math.isnan(v): return 'NAN'
    if v == math.inf: return 'PINF'
    if v == -math.inf: return 'NINF'
    if v < -1: return 'LT_M1'
    if v == -1: return 'M1'
    if v < 0: return 'M1_0'
    if v == 0: return 'Z'
    if v < 1: return 'P0_1'
    if v == 1: return 'ONE'
    return 'GT1'


def _f(v) -> float:
    return float(v)


# --------------------------------------------------------------------------- torch element semantics
def t_add(a, b): return _f(a) + _f(b)
def t_sub(a, b): return _f(a) - _f(b)
def t_mul(a, b): return _f(a) * _f(b)
def t_neg(a): return -_f(a)
def t_abs(a): return abs(_f(a))
def t_relu(a):
    a = _f(a)
    return a if math.isnan(a) else max(a, 0.0)


def t_div(a, b):
    a, b = _f(a), _f(b)
    if b == 0:
        if a == 0 or math.isnan(a): return math.nan
        s = math.copysign(1.0, a) * math.copysign(1.0, b)
        return math.inf * s
    return a / b


def t_reciprocal(a): return t_div(1.0, a)


def t_exp(a):
    a = _f(a)
    try: return math.exp(a)
    except OverflowError: return math.inf


def t_expm1(a):
    a = _f(a)
    try: return math.expm1(a)
    except OverflowError: return math.inf


def t_log(a):
    a = _f(a)
    if math.isnan(a) or a < 0: return math.nan
    if a == 0: return -math.inf
    return math.log(a)


def t_log1p(a):
    a = _f(a)
    if math.isnan(a) or a < -1: return math.nan
    if a == -1: return -math.inf
    if abs(a) <= TINY: return math.copysign(0.0, a)      # torch's vectorised log1p flushes the smallest subnormal to zero
    return math.log1p(a)


def t_logaddexp(a, b):
    a, b = _f(a), _f(b)
    if math.isnan(a) or math.isnan(b): return math.nan
    if a == b and math.isinf(a): return a
    m = max(a, b)
    if m == math.inf: return math.inf
    if m == -math.inf: return -math.inf
    return m + math.log1p(math.exp(-abs(a - b)))


def t_maximum(a, b):
    a, b = _f(a), _f(b)
    if math.isnan(a) or math.isnan(b): return math.nan
    return max(a, b)


def t_minimum(a, b):
    a, b = _f(a), _f(b)
    if math.isnan(a) or math.isnan(b): return math.nan
    return min(a, b)


def t_nan_to_num(a, nan=None, posinf=None, neginf=None):
    a = _f(a)
    if math.isnan(a): return 0.0 if nan is None else _f(nan)
    if a == math.inf: return FMAX if posinf is None else _f(posinf)
    if a == -math.inf: return -FMAX if neginf is None else _f(neginf)
    return a


def t_clamp_min(a, m):
    a = _f(a)
    return a if math.isnan(a) else max(a, _f(m))


def t_clamp_max(a, m):
    a = _f(a)
    return a if math.isnan(a) else min(a, _f(m))


def t_lt(a, b): return _f(a) < _f(b)
def t_le(a, b): return _f(a) <= _f(b)
def t_gt(a, b): return _f(a) > _f(b)
def t_ge(a, b): return _f(a) >= _f(b)
def t_eq(a, b): return _f(a) == _f(b)
def t_ne(a, b): return _f(a) != _f(b)
def t_and(a, b): return bool(a) and bool(b)
def t_or(a, b): return bool(a) or bool(b)
def t_not(a): return not bool(a)
def t_where(c, a, b): return a if bool(c) else b
def t_masked_fill(a, m, v): return v if bool(m) else a
def t_tobool(a): return _f(a) != 0
def t_tofloat(a): return _f(a)
def t_isnan(a): return math.isnan(_f(a))
def t_isinf(a): return math.isinf(_f(a))
def t_ident(a): return a


TORCH: Dict[str, Callable] = {
    'add': t_add, 'sub': t_sub, 'mul': t_mul, 'div': t_div, 'true_divide': t_div, 'neg': t_neg, 'abs': t_abs, 'relu': t_relu,
    'reciprocal': t_reciprocal, 'exp': t_exp, 'expm1': t_expm1, 'log': t_log, 'log1p': t_log1p, 'logaddexp': t_logaddexp,
    'maximum': t_maximum, 'minimum': t_minimum, 'nan_to_num': t_nan_to_num, 'clamp_min': t_clamp_min, 'clamp_max': t_clamp_max,
    'lt': t_lt, 'le': t_le, 'gt': t_gt, 'ge': t_ge, 'eq': t_eq, 'ne': t_ne,
    'logical_and': t_and, 'logical_or': t_or, 'logical_not': t_not, 'bitwise_not': t_not,
    'where': t_where, 'masked_fill': t_masked_fill, 'tobool': t_tobool, 'tofloat': t_tofloat, 'isnan': t_isnan, 'isinf': t_isinf,
    'ident': t_ident,
}


# --------------------------------------------------------------------------- Python scalar semantics
def p_div(a, b):
    if _f(b) == 0: raise PyRaise('ZeroDivisionError')
    return _f(a) / _f(b)


def p_log(a):
    a = _f(a)
    if math.isnan(a): return math.nan
    if a <= 0: raise PyRaise('ValueError: math domain error')
    return math.log(a)


def p_log1p(a):
    a = _f(a)
    if math.isnan(a): return math.nan
    if a <= -1: raise PyRaise('ValueError: math domain error')
    return math.log1p(a)


def p_exp(a):
    try: return math.exp(_f(a))
    except OverflowError: raise PyRaise('OverflowError: math range error')


def p_expm1(a):
    try: return math.expm1(_f(a))
    except OverflowError: raise PyRaise('OverflowError: math range error')


def p_max(a, b):
    # builtin max(a, b): returns a unless b > a
    return b if b > a else a


def p_min(a, b):
    return b if b < a else a


def p_pow(a, b):
    try: return _f(a) ** _f(b)
    except (OverflowError, ZeroDivisionError): raise PyRaise('pow')


PY: Dict[str, Callable] = dict(TORCH)
PY.update({'div': p_div, 'true_divide': p_div, 'log': p_log, 'log1p': p_log1p, 'exp': p_exp, 'expm1': p_expm1,
           'max': p_max, 'min': p_min, 'pow': p_pow,
           'reciprocal': lambda a: p_div(1.0, a)})


# --------------------------------------------------------------------------- abstract values and tables
class AV:
    """Abstract value: a set of classes, in tensor mode (torch semantics) or scalar mode (Python semantics)."""
    __slots__ = ('cls', 'mode', 'may_raise', 'why')

    def __init__(self, cls: Iterable[str], mode: str = 'tensor', may_raise: bool = False, why: str = ''):
        self.cls: FrozenSet[str] = frozenset(cls)
        self.mode = mode
        self.may_raise = may_raise
        self.why = why

    def with_mode(self, mode: str) -> "AV":
        return AV(self.cls, mode, self.may_raise, self.why)

    def join(self, o: "AV") -> "AV":
        return AV(self.cls | o.cls, self.mode if self.mode == o.mode else 'tensor', self.may_raise or o.may_raise, self.why or o.why)

    def __repr__(self):
        return f"{'~' if self.mode == 'scalar' else ''}{{{','.join(sorted(self.cls))}}}{'!' if self.may_raise else ''}"

    def is_singleton(self) -> bool:
        return len(self.cls) == 1 and next(iter(self.cls)) in SINGLETONS


_TABLES: Dict[Tuple[str, str], Dict[Tuple[str, ...], Tuple[FrozenSet[str], bool]]] = {}


def table_entry(op: str, mode: str, classes: Tuple[str, ...]) -> Tuple[FrozenSet[str], bool]:
    """Image of one tuple of classes under primitive `op` in the given mode: (result classes, may raise)."""
    tab = _TABLES.setdefault((op, mode), {})
    if classes in tab:
        return tab[classes]
    fn = (PY if mode == 'scalar' else TORCH).get(op)
    if fn is None:
        raise KeyError(op)
    out = set(); rz = False
    for vals in itertools.product(*[SAMPLES[c] for c in classes]):
        try:
            out.add(classify(fn(*vals)))
        except PyRaise:
            rz = True
        except (TypeError, ValueError):
            rz = True      # e.g. float(None): ill-typed application
    tab[classes] = (frozenset(out), rz)
    return tab[classes]


def apply(op: str, *args: AV, mode: Optional[str] = None) -> AV:
    m = mode or ('scalar' if all(a.mode == 'scalar' for a in args) else 'tensor')
    out = set(); rz = any(a.may_raise for a in args); why = next((a.why for a in args if a.why), '')
    for tup in itertools.product(*[sorted(a.cls) for a in args]):
        r, z = table_entry(op, m, tup)
        out |= r
        if z:
            rz = True
            why = why or f"{op}({', '.join(tup)}) raises in Python"
    return AV(out, m, rz, why)


def const(v, mode: str = 'scalar') -> AV:
    return AV([classify(v)], mode)


ALL_NUM = frozenset(NUM_CLASSES)
NONNAN = frozenset(c for c in NUM_CLASSES if c != 'NAN')
