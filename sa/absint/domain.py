"""E3 abstract domain: a finite partition of the extended reals (plus the two booleans) and transfer tables for the
element-wise operations the repository uses.

The tables are the trusted base of C08/C06/C07/C01/C02: they encode IEEE-754 / torch element semantics
(`TORCH`) and Python scalar semantics (`PY`, including the inputs on which Python *raises* where torch returns
nan/inf).  They are computed once per run from the primitive definitions below over representative members of each
class (including the extremes of the float range, so overflow and underflow are visible); nothing of the analysed
repository is executed.
"""
from __future__ import annotations
import math, sys, itertools
from typing import Callable, Dict, FrozenSet, Iterable, List, Optional, Tuple, Union

FMAX = sys.float_info.max
TINY = 5e-324
EPS = 2.0 ** -52

NUM_CLASSES = ['NINF', 'LT_M1', 'M1', 'M1_0', 'Z', 'P0_1', 'ONE', 'GT1', 'PINF', 'NAN']
BOOL_CLASSES = ['F', 'T']
NONE = 'NONE'      # the Python value None (keyword defaults such as posinf=None)
RAISE = 'RAISE'    # evaluating the expression raises (Python scalar path only)
SINGLETONS = {'NINF', 'M1', 'Z', 'ONE', 'PINF', 'F', 'T', 'NONE'}

SAMPLES_BASE: Dict[str, List] = {
    'NINF': [-math.inf],
    'LT_M1': [-FMAX, -1e300, -1e10, -4.0, -3.0, -2.0, -1.5, -(1 + 2 * EPS)],
    'M1': [-1.0],
    'M1_0': [-(1 - EPS), -0.75, -0.5, -0.25, -1e-10, -1e-300, -TINY],
    'Z': [0.0],
    'P0_1': [TINY, 1e-300, 1e-10, 0.25, 0.5, 0.75, 1 - EPS],
    'ONE': [1.0],
    'GT1': [1 + 2 * EPS, 1.5, 2.0, 3.0, 4.0, 1e10, 1e300, FMAX],
    'PINF': [math.inf],
    'NAN': [math.nan],
    'F': [False],
    'T': [True],
    'NONE': [None],
}


SAMPLES: Dict[str, List] = {k: list(v) for k, v in SAMPLES_BASE.items()}


class PyRaise(Exception):
    pass


# the finite cut points of the current partition (base: -1, 0, 1); refine() adds more for the thorough tier
_POINTS: List[float] = [-1.0, 0.0, 1.0]
_POINT_NAME = {-1.0: 'M1', 0.0: 'Z', 1.0: 'ONE'}
_INTERVAL_NAME = {(-math.inf, -1.0): 'LT_M1', (-1.0, 0.0): 'M1_0', (0.0, 1.0): 'P0_1', (1.0, math.inf): 'GT1'}


def _pname(p: float) -> str:
    return _POINT_NAME.get(p) or f"P[{p:g}]"


def _iname(a: float, b: float) -> str:
    return _INTERVAL_NAME.get((a, b)) or f"I({a:g},{b:g})"


def classify(v) -> str:
    if v is None:
        return NONE
    if isinstance(v, bool):
        return 'T' if v else 'F'
    v = float(v)
    if math.isnan(v): return 'NAN'
    if v == math.inf: return 'PINF'
    if v == -math.inf: return 'NINF'
    lo = -math.inf
    for p in _POINTS:
        if v < p: return _iname(lo, p)
        if v == p: return _pname(p)
        lo = p
    return _iname(lo, math.inf)


def _interval_samples(a: float, b: float) -> List[float]:
    out: List[float] = []
    if a == -math.inf:
        out += [-FMAX, -1e300, -1e10]
        base = b if b < 0 else -1.0
        out += [x for x in (base * 4 - 1, base * 3 - 1, base * 2 - 1, base - 1.0, base - 0.5) if x < b]
        out.append(b - max(abs(b), 1.0) * 2 * EPS if b != 0 else -TINY)
    elif b == math.inf:
        out.append(a + max(abs(a), 1.0) * 2 * EPS if a != 0 else TINY)
        base = a if a > 0 else 1.0
        out += [x for x in (base + 0.5, base + 1.0, base * 2 + 1, base * 3 + 1, base * 4 + 1) if x > a]
        out += [1e10, 1e300, FMAX]
    else:
        w = b - a
        out.append(a + max(abs(a), w) * EPS if a != 0 else TINY)
        if a == 0: out += [1e-300, 1e-10]
        out += [a + w * 0.25, a + w * 0.5, a + w * 0.75]
        if b == 0: out += [-1e-10, -1e-300]
        out.append(b - max(abs(b), w) * EPS if b != 0 else -TINY)
    return sorted({x for x in out if a < x < b})


def refine(extra_points: Iterable[float]) -> None:
    """Refine the partition with additional cut points (thorough tier).  Resets the transfer tables."""
    global NUM_CLASSES, SINGLETONS, _POINTS
    _POINTS = sorted(set([-1.0, 0.0, 1.0]) | {float(x) for x in extra_points})
    names = ['NINF']
    samples: Dict[str, List] = {'NINF': [-math.inf]}
    lo = -math.inf
    for p_ in _POINTS + [math.inf]:
        iv = _iname(lo, p_)
        names.append(iv)
        base = SAMPLES_BASE.get(iv)
        samples[iv] = list(base) if base is not None and len(_POINTS) == 3 else _interval_samples(lo, p_)
        if p_ != math.inf:
            names.append(_pname(p_)); samples[_pname(p_)] = [p_]
        lo = p_
    names += ['PINF', 'NAN']
    samples['PINF'] = [math.inf]; samples['NAN'] = [math.nan]
    for k in ('F', 'T', 'NONE'):
        samples[k] = SAMPLES_BASE[k]
    NUM_CLASSES[:] = names
    SAMPLES.clear(); SAMPLES.update(samples)
    SINGLETONS.clear(); SINGLETONS.update({'NINF', 'PINF', 'F', 'T', 'NONE'} | {_pname(p_) for p_ in _POINTS})
    _TABLES.clear()


def class_bounds(c: str) -> Tuple[float, float]:
    """(lo, hi) of a numeric class (lo == hi for points)."""
    if c == 'NINF': return (-math.inf, -math.inf)
    if c == 'PINF': return (math.inf, math.inf)
    lo = -math.inf
    for p_ in _POINTS + [math.inf]:
        if c == _iname(lo, p_): return (lo, p_)
        if p_ != math.inf and c == _pname(p_): return (p_, p_)
        lo = p_
    raise KeyError(c)


def _f(v) -> float:
    return float(v)


# --------------------------------------------------------------------------- torch element semantics
def t_add(a, b): return _f(a) + _f(b)
def t_sub(a, b): return _f(a) - _f(b)
def t_mul(a, b): return _f(a) * _f(b)
def t_neg(a): return -_f(a)
def t_abs(a): return abs(_f(a))
def t_relu(a):
    a = _f(a)
    return a if math.isnan(a) else max(a, 0.0)


def t_div(a, b):
    a, b = _f(a), _f(b)
    if b == 0:
        if a == 0 or math.isnan(a): return math.nan
        s = math.copysign(1.0, a) * math.copysign(1.0, b)
        return math.inf * s
    return a / b


def t_reciprocal(a): return t_div(1.0, a)


def t_exp(a):
    a = _f(a)
    try: return math.exp(a)
    except OverflowError: return math.inf


def t_expm1(a):
    a = _f(a)
    try: return math.expm1(a)
    except OverflowError: return math.inf


def t_log(a):
    a = _f(a)
    if math.isnan(a) or a < 0: return math.nan
    if a == 0: return -math.inf
    return math.log(a)


def t_log1p(a):
    a = _f(a)
    if math.isnan(a) or a < -1: return math.nan
    if a == -1: return -math.inf
    if abs(a) <= TINY: return math.copysign(0.0, a)      # torch's vectorised log1p flushes the smallest subnormal to zero
    return math.log1p(a)


def t_logaddexp(a, b):
    a, b = _f(a), _f(b)
    if math.isnan(a) or math.isnan(b): return math.nan
    if a == b and math.isinf(a): return a
    m = max(a, b)
    if m == math.inf: return math.inf
    if m == -math.inf: return -math.inf
    return m + math.log1p(math.exp(-abs(a - b)))


def t_maximum(a, b):
    a, b = _f(a), _f(b)
    if math.isnan(a) or math.isnan(b): return math.nan
    return max(a, b)


def t_minimum(a, b):
    a, b = _f(a), _f(b)
    if math.isnan(a) or math.isnan(b): return math.nan
    return min(a, b)


def t_nan_to_num(a, nan=None, posinf=None, neginf=None):
    a = _f(a)
    if math.isnan(a): return 0.0 if nan is None else _f(nan)
    if a == math.inf: return FMAX if posinf is None else _f(posinf)
    if a == -math.inf: return -FMAX if neginf is None else _f(neginf)
    return a


def t_clamp_min(a, m):
    a = _f(a)
    return a if math.isnan(a) else max(a, _f(m))


def t_clamp_max(a, m):
    a = _f(a)
    return a if math.isnan(a) else min(a, _f(m))


def t_lt(a, b): return _f(a) < _f(b)
def t_le(a, b): return _f(a) <= _f(b)
def t_gt(a, b): return _f(a) > _f(b)
def t_ge(a, b): return _f(a) >= _f(b)
def t_eq(a, b): return _f(a) == _f(b)
def t_ne(a, b): return _f(a) != _f(b)
def t_and(a, b): return bool(a) and bool(b)
def t_or(a, b): return bool(a) or bool(b)
def t_not(a): return not bool(a)
def t_where(c, a, b): return a if bool(c) else b
def t_masked_fill(a, m, v): return v if bool(m) else a
def t_tobool(a): return _f(a) != 0
def t_tofloat(a): return _f(a)
def t_isnan(a): return math.isnan(_f(a))
def t_isinf(a): return math.isinf(_f(a))
def t_ident(a): return a


TORCH: Dict[str, Callable] = {
    'add': t_add, 'sub': t_sub, 'mul': t_mul, 'div': t_div, 'true_divide': t_div, 'neg': t_neg, 'abs': t_abs, 'relu': t_relu,
    'reciprocal': t_reciprocal, 'exp': t_exp, 'expm1': t_expm1, 'log': t_log, 'log1p': t_log1p, 'logaddexp': t_logaddexp,
    'maximum': t_maximum, 'minimum': t_minimum, 'nan_to_num': t_nan_to_num, 'clamp_min': t_clamp_min, 'clamp_max': t_clamp_max,
    'lt': t_lt, 'le': t_le, 'gt': t_gt, 'ge': t_ge, 'eq': t_eq, 'ne': t_ne,
    'logical_and': t_and, 'logical_or': t_or, 'logical_not': t_not, 'bitwise_not': t_not,
    'where': t_where, 'masked_fill': t_masked_fill, 'tobool': t_tobool, 'tofloat': t_tofloat, 'isnan': t_isnan, 'isinf': t_isinf,
    'ident': t_ident,
}


# --------------------------------------------------------------------------- Python scalar semantics
def p_div(a, b):
    if _f(b) == 0: raise PyRaise('ZeroDivisionError')
    return _f(a) / _f(b)


def p_log(a):
    a = _f(a)
    if math.isnan(a): return math.nan
    if a <= 0: raise PyRaise('ValueError: math domain error')
    return math.log(a)


def p_log1p(a):
    a = _f(a)
    if math.isnan(a): return math.nan
    if a <= -1: raise PyRaise('ValueError: math domain error')
    return math.log1p(a)


def p_exp(a):
    try: return math.exp(_f(a))
    except OverflowError: raise PyRaise('OverflowError: math range error')


def p_expm1(a):
    try: return math.expm1(_f(a))
    except OverflowError: raise PyRaise('OverflowError: math range error')


def p_max(a, b):
    # builtin max(a, b): returns a unless b > a
    return b if b > a else a


def p_min(a, b):
    return b if b < a else a


def p_pow(a, b):
    try: return _f(a) ** _f(b)
    except (OverflowError, ZeroDivisionError): raise PyRaise('pow')


PY: Dict[str, Callable] = dict(TORCH)
PY.update({'div': p_div, 'true_divide': p_div, 'log': p_log, 'log1p': p_log1p, 'exp': p_exp, 'expm1': p_expm1,
           'max': p_max, 'min': p_min, 'pow': p_pow,
           'reciprocal': lambda a: p_div(1.0, a)})


# --------------------------------------------------------------------------- abstract values and tables
class AV:
    """Abstract value: a set of classes, in tensor mode (torch semantics) or scalar mode (Python semantics)."""
    __slots__ = ('cls', 'mode', 'may_raise', 'why')

    def __init__(self, cls: Iterable[str], mode: str = 'tensor', may_raise: bool = False, why: str = ''):
        self.cls: FrozenSet[str] = frozenset(cls)
        self.mode = mode
        self.may_raise = may_raise
        self.why = why

    def with_mode(self, mode: str) -> "AV":
        return AV(self.cls, mode, self.may_raise, self.why)

    def join(self, o: "AV") -> "AV":
        return AV(self.cls | o.cls, self.mode if self.mode == o.mode else 'tensor', self.may_raise or o.may_raise, self.why or o.why)

    def __repr__(self):
        return f"{'~' if self.mode == 'scalar' else ''}{{{','.join(sorted(self.cls))}}}{'!' if self.may_raise else ''}"

    def is_singleton(self) -> bool:
        return len(self.cls) == 1 and next(iter(self.cls)) in SINGLETONS


_TABLES: Dict[Tuple[str, str], Dict[Tuple[str, ...], Tuple[FrozenSet[str], bool]]] = {}


def table_entry(op: str, mode: str, classes: Tuple[str, ...]) -> Tuple[FrozenSet[str], bool]:
    """Image of one tuple of classes under primitive `op` in the given mode: (result classes, may raise)."""
    tab = _TABLES.setdefault((op, mode), {})
    if classes in tab:
        return tab[classes]
    fn = (PY if mode == 'scalar' else TORCH).get(op)
    if fn is None:
        raise KeyError(op)
    out = set(); rz = False
    for vals in itertools.product(*[SAMPLES[c] for c in classes]):
        try:
            out.add(classify(fn(*vals)))
        except PyRaise:
            rz = True
        except (TypeError, ValueError):
            rz = True      # e.g. float(None): ill-typed application
    if op in CONTINUOUS and len(out - {'NAN'}) > 1 and all(c not in ('F', 'T', NONE) for c in classes):
        # each primitive is continuous on a rectangle of classes, so its image is connected: close the sampled classes
        # under "everything in between" (sampling alone can miss a boundary point such as 0.5 * 4 = 2)
        order = [c for c in NUM_CLASSES if c != 'NAN']
        idx = sorted(order.index(c) for c in out if c != 'NAN')
        out |= set(order[idx[0]:idx[-1] + 1])
    tab[classes] = (frozenset(out), rz)
    return tab[classes]


CONTINUOUS = {'add', 'sub', 'mul', 'div', 'true_divide', 'neg', 'abs', 'relu', 'reciprocal', 'exp', 'expm1', 'log', 'log1p', 'logaddexp',
              'maximum', 'minimum', 'clamp_min', 'clamp_max', 'max', 'min'}


def apply(op: str, *args: AV, mode: Optional[str] = None) -> AV:
    m = mode or ('scalar' if all(a.mode == 'scalar' for a in args) else 'tensor')
    out = set(); rz = any(a.may_raise for a in args); why = next((a.why for a in args if a.why), '')
    for tup in itertools.product(*[sorted(a.cls) for a in args]):
        r, z = table_entry(op, m, tup)
        out |= r
        if z:
            rz = True
            why = why or f"{op}({', '.join(tup)}) raises in Python"
    return AV(out, m, rz, why)


def const(v, mode: str = 'scalar') -> AV:
    return AV([classify(v)], mode)


ALL_NUM = frozenset(NUM_CLASSES)
NONNAN = frozenset(c for c in NUM_CLASSES if c != 'NAN')
