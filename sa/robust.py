"""Robustness of the checks against behaviour-preserving rewrites of the whole repository (never part of a verdict):

  python -m sa.robust rename     every purely-local variable of every module gets a new name
  python -m sa.robust reformat   every module is re-emitted by ast.unparse (comments dropped, lines re-broken)

Each rewrite is applied to a scratch copy; every property check must still exit 0 there.
"""
from __future__ import annotations
import ast, builtins, os, shutil, sys
from .selftest import make_copy, run_checks, REPO
from .check import PROPS


def local_only_names(tree: ast.Module) -> set:
    params, module_level, local, attrs = set(), set(), set(), set()
    for st in tree.body:
        for n in ast.walk(st) if not isinstance(st, (ast.FunctionDef, ast.ClassDef)) else []:
            if isinstance(n, ast.Name) and isinstance(n.ctx, ast.Store): module_level.add(n.id)
        if isinstance(st, (ast.FunctionDef, ast.ClassDef)): module_level.add(st.name)
        if isinstance(st, (ast.Import, ast.ImportFrom)):
            for a in st.names: module_level.add((a.asname or a.name).split('.')[0])
    for n in ast.walk(tree):
        if isinstance(n, (ast.FunctionDef, ast.Lambda)):
            a = n.args
            for x in a.posonlyargs + a.args + a.kwonlyargs + ([a.vararg] if a.vararg else []) + ([a.kwarg] if a.kwarg else []):
                params.add(x.arg)
        if isinstance(n, (ast.FunctionDef, ast.ClassDef)):
            module_level.add(n.name)
        if isinstance(n, ast.ClassDef):
            for s in n.body:
                for x in ast.walk(s) if not isinstance(s, ast.FunctionDef) else []:
                    if isinstance(x, ast.Name) and isinstance(x.ctx, ast.Store): module_level.add(x.id)
        if isinstance(n, (ast.Global, ast.Nonlocal)):
            module_level.update(n.names)
        if isinstance(n, ast.ExceptHandler) and n.name:
            module_level.add(n.name)
        if isinstance(n, ast.keyword) and n.arg:
            attrs.add(n.arg)
    for f in ast.walk(tree):
        if isinstance(f, (ast.FunctionDef, ast.Lambda)):
            for n in ast.walk(f):
                if isinstance(n, ast.Name) and isinstance(n.ctx, ast.Store):
                    local.add(n.id)
    return {x for x in local if x not in params and x not in module_level and not hasattr(builtins, x) and not x.startswith('__')}


class Renamer(ast.NodeTransformer):
    def __init__(self, names): self.names = names
    def visit_Name(self, node):
        if node.id in self.names:
            node.id = node.id + '_rn'
        return node


def rewrite(copy: str, mode: str) -> int:
    n = 0
    for pkg in ('fggs', 'bin'):
        d = os.path.join(copy, pkg)
        for fn in sorted(os.listdir(d)):
            if not fn.endswith('.py'): continue
            p = os.path.join(d, fn)
            src = open(p).read()
            tree = ast.parse(src)
            if mode == 'rename':
                names = local_only_names(tree)
                n += len(names)
                tree = Renamer(names).visit(tree)
            first = src.split('\n', 1)[0]
            out = ast.unparse(ast.fix_missing_locations(tree)) + '\n'
            if first.startswith('#!'):
                out = first + '\n' + out
            open(p, 'w').write(out)
            compile(out, p, 'exec')
    return n


def main() -> int:
    mode = sys.argv[1] if len(sys.argv) > 1 else 'rename'
    copy = make_copy(REPO)
    try:
        n = rewrite(copy, mode)
        print(f"{mode}: scratch copy {copy}, {n} local names renamed")
        res = run_checks(copy, PROPS)
        bad = 0
        for p, (code, msgs) in res.items():
            if code != 0:
                bad += 1
                print(f"  {p}: exit {code}")
                for m in msgs[:6]: print('      ', m)
        print(f"{len(res) - bad}/{len(res)} checks unaffected by the rewrite")
        return 1 if bad else 0
    finally:
        if not os.environ.get('SA_KEEP'):
            shutil.rmtree(copy, ignore_errors=True)


if __name__ == '__main__':
    sys.exit(main())
