"""Obligations, findings, known-findings matching, evidence and exit codes."""
from __future__ import annotations
import json, os, time, hashlib, sys
from dataclasses import dataclass, field
from typing import Any, Dict, List, Optional

VERIF = os.path.dirname(os.path.dirname(os.path.abspath(__file__)))
KNOWN_PATH = os.path.join(VERIF, 'known_findings.json')


@dataclass
class Obligation:
    rule: str            # e.g. 'C02-D1 budget-must-warn'
    where: str           # module:function
    construct: str       # normalised text of the construct the obligation is about
    loc: str             # file:line (informational)
    ok: bool
    detail: str = ''
    nontrivial: bool = True
    trace: Any = None

    def key(self) -> Dict[str, str]:
        return {'rule': self.rule.split(' ')[0], 'where': self.where, 'construct': self.construct}

    def key_hash(self) -> str:
        k = self.key()
        return hashlib.sha256(json.dumps(k, sort_keys=True).encode()).hexdigest()[:12]


class Report:
    def __init__(self, prop: str, tier: str, repo: str):
        self.prop = prop
        self.tier = tier
        self.repo = repo
        self.obligations: List[Obligation] = []
        self.analysed: Dict[str, Any] = {}
        self.floors: Dict[str, Dict[str, int]] = {}
        self.errors: List[str] = []
        self.notes: List[str] = []
        self.rules: Dict[str, str] = {}
        self.trusted: List[str] = []
        self.assumptions: List[str] = []
        self.not_decided: List[str] = []
        self.exhaustive = False
        self.t0 = time.time()

    # ---- recording
    def rule(self, rid: str, text: str) -> None:
        self.rules[rid] = text

    def ob(self, rule: str, where: str, construct: str, loc: str, ok: bool, detail: str = '',
           nontrivial: bool = True, trace: Any = None) -> Obligation:
        o = Obligation(rule, where, construct, loc, ok, detail, nontrivial, trace)
        self.obligations.append(o)
        return o

    def error(self, msg: str) -> None:
        self.errors.append(msg)

    def floor(self, rule: str, found: int, minimum: int) -> None:
        """Non-vacuity: the rule must have matched at least `minimum` instances (confirmed by hand)."""
        self.floors[rule] = {'found': found, 'floor': minimum}
        if found < minimum:
            self.error(f"{rule}: only {found} instance(s) recognised, floor is {minimum} (rule would pass vacuously; re-confirm the rule)")

    # ---- finishing
    def finish(self) -> int:
        known = load_known()
        violations, known_hits = [], []
        for o in self.obligations:
            if o.ok:
                continue
            k = match_known(known, self.prop, o)
            if k is not None:
                known_hits.append((o, k))
            else:
                violations.append(o)
        replay_dir = os.path.join(VERIF, 'evidence', 'replay', self.prop)
        lines = []
        for o in violations:
            os.makedirs(replay_dir, exist_ok=True)
            p = os.path.join(replay_dir, f"{o.rule.split(' ')[0]}-{o.key_hash()}.json")
            with open(p, 'w') as f:
                json.dump({'property': self.prop, 'rule': o.rule, 'key': o.key(), 'loc': o.loc, 'detail': o.detail,
                           'trace': o.trace, 'repo': self.repo}, f, indent=1, default=str)
            print(f"  violation: [{o.rule}] {o.loc} {o.where}: {o.construct}\n      {o.detail}")
            lines.append(f"VIOLATION property={self.prop} replay={p}")
        printed = set()
        for o, k in known_hits:          # one line per listed finding (several sites may realise the same one)
            kid = json.dumps(k.get('key'), sort_keys=True)
            if kid in printed:
                continue
            printed.add(kid)
            print(f"KNOWN-FINDING: property={self.prop} {o.rule.split(' ')[0]} {o.where} `{o.construct}` {k.get('what', o.detail)}")
        for e in self.errors:
            print(f"ANALYSIS-ERROR property={self.prop} {e}")
        for l in lines:
            print(l)
        self._write_evidence(violations, known_hits)
        n = len(self.obligations)
        print(f"[{self.prop}/{self.tier}] obligations={n} discharged={sum(o.ok for o in self.obligations)} "
              f"violations={len(violations)} known={len(known_hits)} errors={len(self.errors)} wall={time.time()-self.t0:.2f}s")
        if violations:
            return 1
        if self.errors:
            return 2
        print('OK')
        return 0

    def _write_evidence(self, violations, known_hits) -> None:
        obs = self.obligations
        distinct = {json.dumps(o.key(), sort_keys=True) for o in obs if o.nontrivial}
        samples = []
        seen_rules = set()
        for o in obs:   # at least one sample per rule, failures first
            r = o.rule
            if r in seen_rules and o.ok:
                continue
            seen_rules.add(r)
            samples.append({'rule': o.rule, 'where': o.where, 'loc': o.loc, 'construct': o.construct[:300],
                            'verdict': 'discharged' if o.ok else 'FAILED', 'detail': o.detail[:400]})
            if len(samples) >= 60:
                break
        per_rule: Dict[str, Dict[str, int]] = {}
        for o in obs:
            d = per_rule.setdefault(o.rule, {'obligations': 0, 'discharged': 0})
            d['obligations'] += 1; d['discharged'] += int(o.ok)
        ev = {
            'property_id': self.prop,
            'tier': self.tier,
            'seed': int(os.environ.get('VERIF_SEED', '0') or 0),
            'level': 'other',
            'coverage': {
                'explanation': ('Static analysis of the current /repo sources (ast; nothing imported or executed). '
                                'Rules applied: ' + ' | '.join(f"{k}: {v}" for k, v in self.rules.items())),
                'obligations': len(obs),
                'discharged': sum(o.ok for o in obs),
                'evaluations': max(len(obs), 0),
                'distinct_nontrivial': len(distinct),
                'rule': 'one obligation per (rule, function, construct) instance enumerated from the resolved program; '
                        'non-trivial = instantiated from a resolved repo construct (not a floor/bookkeeping check); distinct by normalised key',
                'samples': samples,
                'per_rule': per_rule,
                'instance_floors': self.floors,
                'analysed': self.analysed,
                'exhaustive': self.exhaustive,
                'trusted_base': self.trusted,
                'not_decided': self.not_decided,
                'known_findings_reported': [o.key() for o, _ in known_hits],
                'analysis_errors': self.errors,
                'checker_cmd': f"/venv/bin/python -m sa.check {self.prop} --tier {self.tier}",
                'notes': self.notes,
            },
            'assumptions': self.assumptions,
            'wall_s': round(time.time() - self.t0, 3),
            'violations': len(violations),
        }
        d = os.path.join(VERIF, 'evidence')
        os.makedirs(d, exist_ok=True)
        if os.environ.get('SA_NO_EVIDENCE'):
            return
        with open(os.path.join(d, f"{self.prop}.json"), 'w') as f:
            json.dump(ev, f, indent=1, default=str)


def load_known() -> List[Dict[str, Any]]:
    if not os.path.exists(KNOWN_PATH):
        return []
    with open(KNOWN_PATH) as f:
        data = json.load(f)
    return [e for e in data.get('findings', []) if e.get('status') == 'known']


def match_known(known: List[Dict[str, Any]], prop: str, o: Obligation) -> Optional[Dict[str, Any]]:
    k = o.key()
    for e in known:
        if e.get('property') != prop:
            continue
        ek = e.get('key', {})
        if ek.get('rule') == k['rule'] and ek.get('where') == k['where'] and ek.get('construct') == k['construct']:
            return e
    return None
