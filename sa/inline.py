"""Inlining of *new* helper functions before the program is indexed.

The rules of this checker are anchored in the functions the library has today (sa/baseline_functions.json is the inventory of
their qualified names).  A refactoring that moves part of an anchored function into a new helper -- a private function, a
method, a local closure, a generator that yields what a loop used to compute -- leaves behaviour unchanged, and must leave
every verdict unchanged too.  So a function that is *not* in the inventory is treated as what it almost always is, code that
was cut out of its caller, and is pasted back at each call site (parameters substituted, locals renamed on clashes, `return`
turned into the binding of the call's result, `yield v` into `target = v; <loop body>`).  On the unchanged tree there is no
such function and this module does nothing.

What is not inlined (the call stays, the helper is analysed as a function of its own): recursive helpers, helpers with
*args/**kwargs or decorators, `return` inside a loop/try/with, generators consumed otherwise than by a `for` statement.
"""
from __future__ import annotations
import ast, copy, json, os
from typing import Dict, List, Optional, Set, Tuple

HERE = os.path.dirname(os.path.abspath(__file__))
INVENTORY_FILE = os.path.join(HERE, 'baseline_functions.json')
FUNC = (ast.FunctionDef, ast.AsyncFunctionDef)
MAX_INLINES_PER_FUNCTION = 60
MAX_HELPER_NODES = 1500
JUMP = '__inline_return__'


def load_inventory() -> Set[str]:
    try:
        with open(INVENTORY_FILE) as f:
            return set(json.load(f)['functions'])
    except OSError:
        return set()


def load_inventory_extras() -> Tuple[Optional[Set[str]], Dict[str, Dict[str, str]]]:
    """(module-level names of the baseline, call style of the baseline) -- see sa/callstyle.py."""
    try:
        with open(INVENTORY_FILE) as f:
            d = json.load(f)
        return (set(d['globals']) if 'globals' in d else None), d.get('call_style', {})
    except OSError:
        return None, {}


def function_defs(tree: ast.Module) -> Dict[str, ast.AST]:
    """qualname -> FunctionDef, with the qualname scheme of sa.model (Class.method, outer.inner)."""
    out: Dict[str, ast.AST] = {}

    def scope(body: List[ast.stmt], prefix: str) -> None:
        for st in body:
            if isinstance(st, FUNC):
                q = prefix + st.name
                if q in out and any(isinstance(d, ast.Attribute) and d.attr == 'setter' for d in st.decorator_list):
                    q += '.setter'
                if q in out:
                    out[q]._sa_ambiguous = True; st._sa_ambiguous = True     # two definitions of one name (chosen by a condition)
                out[q] = st
                scope(st.body, q + '.')
            elif isinstance(st, ast.ClassDef):
                scope(st.body, prefix + st.name + '.')
            elif isinstance(st, (ast.If, ast.Try, ast.With, ast.For, ast.While)):
                for sub in ast.iter_child_nodes(st):
                    if isinstance(sub, ast.stmt):
                        scope([sub], prefix)
                    elif isinstance(sub, ast.ExceptHandler):
                        scope(sub.body, prefix)
    scope(tree.body, '')
    return out


class NotInlinable(Exception):
    pass


def _own_walk(node: ast.AST):
    """Nodes of a function body, not descending into nested defs / lambdas / classes."""
    stack = list(ast.iter_child_nodes(node))
    while stack:
        n = stack.pop()
        yield n
        if isinstance(n, FUNC + (ast.Lambda, ast.ClassDef)):
            continue
        stack.extend(ast.iter_child_nodes(n))


def _has_return(st: ast.AST) -> bool:
    return isinstance(st, ast.Return) or any(isinstance(x, ast.Return) for x in _own_walk(st))


def _simple(e: ast.AST) -> bool:
    if isinstance(e, (ast.Name, ast.Constant)):
        return True
    if isinstance(e, ast.Attribute):
        return _simple(e.value)
    if isinstance(e, ast.Subscript):
        return _simple(e.value) and _simple(e.slice)
    if isinstance(e, ast.Tuple):
        return all(_simple(x) for x in e.elts)
    return False


def _pure(e: ast.AST) -> bool:
    """Tests, comparisons and arithmetic over names, attributes, subscripts and constants (and len / isinstance of such): evaluating the
    expression where the parameter is used instead of at the call changes nothing the rules look at."""
    for x in ast.walk(e):
        if isinstance(x, ast.Call):
            if not (isinstance(x.func, ast.Name) and x.func.id in ('len', 'isinstance', 'tuple', 'list')):
                return False
        elif not isinstance(x, (ast.Name, ast.Attribute, ast.Subscript, ast.Constant, ast.Compare, ast.BoolOp, ast.UnaryOp, ast.BinOp, ast.Tuple, ast.List,
                                ast.expr_context, ast.operator, ast.unaryop, ast.boolop, ast.cmpop, ast.Slice)):
            return False
    return True


class ModuleInliner:
    def __init__(self, tree: ast.Module, modname: str, inventory: Set[str]):
        self.tree = tree
        self.modname = modname
        self.defs = function_defs(tree)
        self.new = {q for q in self.defs if f"{modname}:{q}" not in inventory}
        self.classes: Dict[str, ast.ClassDef] = {c.name: c for c in ast.walk(tree) if isinstance(c, ast.ClassDef)}
        self.counter = 0
        self.log: List[str] = []
        self.rewritten: Set[str] = set()
        self.relocated: Dict[str, str] = {}
        self.inventory = inventory

    # ------------------------------------------------------------------ resolution
    def _class_of(self, q: str) -> Optional[str]:
        parts = q.split('.')
        return parts[0] if len(parts) >= 2 and parts[0] in self.classes else None

    def _mro_names(self, cname: str, seen=None) -> List[str]:
        seen = seen or set()
        if cname in seen or cname not in self.classes:
            return []
        seen.add(cname)
        out = [cname]
        for b in self.classes[cname].bases:
            bn = b.id if isinstance(b, ast.Name) else b.value.id if isinstance(b, ast.Subscript) and isinstance(b.value, ast.Name) else None
            if bn:
                out += self._mro_names(bn, seen)
        return out

    def resolve(self, call: ast.Call, caller_q: str) -> Optional[Tuple[str, Optional[ast.AST]]]:
        """(callee qualname, receiver expression or None)."""
        fn = call.func
        if isinstance(fn, ast.Name):
            parts = caller_q.split('.')
            for i in range(len(parts), 0, -1):
                q = '.'.join(parts[:i]) + '.' + fn.id
                if q in self.defs and self._class_of(q) != '.'.join(parts[:i]):       # a nested def, not a sibling method
                    return q, None
            if fn.id in self.defs:
                return fn.id, None
            return None
        if isinstance(fn, ast.Attribute) and isinstance(fn.value, ast.Name):
            cname = self._class_of(caller_q)
            caller = self.defs.get(caller_q)
            selfn = None
            if cname and caller is not None and len(caller_q.split('.')) == 2 and caller.args.args:
                selfn = caller.args.args[0].arg
            if selfn is not None and fn.value.id == selfn:
                for c in self._mro_names(cname):
                    q = f"{c}.{fn.attr}"
                    if q in self.defs:
                        return q, fn.value
                # a mixin method defined in a sibling class of the same module
            cands = [q for q in self.new if q.split('.')[-1] == fn.attr and len(q.split('.')) == 2 and self._class_of(q)]
            if fn.attr.startswith('_') and len(cands) == 1:
                return cands[0], fn.value
        return None

    def inlinable(self, q: str) -> bool:
        if q not in self.new:
            return False
        g = self.defs[q]
        if g.name.startswith('__') and g.name.endswith('__'):
            return False            # special methods are API, not cut-out code
        if getattr(g, '_sa_ambiguous', False):
            return False            # which definition is meant depends on the path
        if g.decorator_list or g.args.kwarg or isinstance(g, ast.AsyncFunctionDef):
            return False
        if sum(1 for _ in ast.walk(g)) > MAX_HELPER_NODES:
            return False
        name = g.name
        for x in ast.walk(g):
            if isinstance(x, ast.Call):
                if isinstance(x.func, ast.Name) and x.func.id == name:
                    return False
                if isinstance(x.func, ast.Attribute) and x.func.attr == name:
                    return False
            if isinstance(x, ast.Await):
                return False
        return True

    # ------------------------------------------------------------------ expansion
    def _bind(self, call: ast.Call, q: str, recv: Optional[ast.AST], caller_names: Set[str], target=None, tail: bool = False) -> Tuple[List[ast.stmt], List[ast.stmt]]:
        """(prelude statements, callee body with parameters substituted and clashing locals renamed)."""
        g = self.defs[q]
        params = [a.arg for a in g.args.posonlyargs + g.args.args]
        star = None
        args = list(call.args)
        if g.args.vararg is not None and args and isinstance(args[-1], ast.Starred) and isinstance(args[-1].value, ast.Name):
            star = args.pop().value       # helper(a, b, *rest) for `def helper(a, b, *rest)`: the rest is passed through whole
        if any(isinstance(a, ast.Starred) for a in args) or any(k.arg is None for k in call.keywords):
            raise NotInlinable('star arguments')
        if recv is not None:
            args = [recv] + args
        if star is not None and len(args) != len(params):
            raise NotInlinable('star argument does not line up with the variadic parameter')
        extra: List[ast.AST] = []
        if len(args) > len(params):
            if g.args.vararg is None:
                raise NotInlinable('too many arguments')
            args, extra = args[:len(params)], args[len(params):]
        bound: Dict[str, ast.AST] = dict(zip(params, args))
        if g.args.vararg is not None:
            bound[g.args.vararg.arg] = star if star is not None else ast.Tuple(elts=extra, ctx=ast.Load())
        kwonly = [a.arg for a in g.args.kwonlyargs]
        for k in call.keywords:
            if k.arg not in params + kwonly or k.arg in bound:
                raise NotInlinable('keyword mismatch')
            bound[k.arg] = k.value
        defaults = g.args.defaults
        for p, d in zip(params[len(params) - len(defaults):], defaults):
            bound.setdefault(p, d)
        for p, d in zip(kwonly, g.args.kw_defaults):
            if d is not None:
                bound.setdefault(p, d)
        if set(params + kwonly) - set(bound):
            raise NotInlinable('missing argument')
        if g.args.vararg is not None and any(k.arg == g.args.vararg.arg for k in call.keywords):
            raise NotInlinable('keyword mismatch')
        self.counter += 1
        k = self.counter
        stored = {n.id for n in _own_walk(g) if isinstance(n, ast.Name) and isinstance(n.ctx, (ast.Store, ast.Del))}
        for n in _own_walk(g):
            if isinstance(n, FUNC):
                stored.add(n.name)
        prelude: List[ast.stmt] = []
        subst: Dict[str, ast.AST] = {}
        only_called = set()
        for p, a in bound.items():
            if isinstance(a, ast.Lambda) and p not in stored:
                uses = [n for n in ast.walk(g) if isinstance(n, ast.Name) and n.id == p]
                called = [c for c in ast.walk(g) if isinstance(c, ast.Call) and isinstance(c.func, ast.Name) and c.func.id == p]
                if uses and len(uses) == len(called):
                    only_called.add(p)
        for p, a in bound.items():
            if p in only_called:
                continue
            if tail and p in stored and isinstance(a, ast.Name) and a.id == p:
                continue            # `return helper(x)` with parameter x: the helper may go on using the caller's x
            single_use = p not in stored and sum(1 for n in ast.walk(g) if isinstance(n, ast.Name) and n.id == p) == 1 \
                and not any(isinstance(h, (ast.For, ast.While, ast.Lambda, ast.ListComp, ast.SetComp, ast.DictComp, ast.GeneratorExp) + FUNC) and h is not g
                            and any(isinstance(n, ast.Name) and n.id == p for n in ast.walk(h)) for h in ast.walk(g))
            if single_use and _pure(a):
                subst[p] = a            # `_require(x == y, msg)`: the condition is read where the helper tests it
                continue
            if p in stored or not _simple(a):
                tmp = f"{p}__i{k}" if (p in caller_names or p in stored) else p
                prelude.append(ast.Assign(targets=[ast.Name(id=tmp, ctx=ast.Store())], value=copy.deepcopy(a)))
                subst[p] = ast.Name(id=tmp, ctx=ast.Load())
            else:
                subst[p] = a
        free_of_args: Set[str] = set()
        for a in bound.values():
            free_of_args |= {n.id for n in ast.walk(a) if isinstance(n, ast.Name)}
        rename: Dict[str, str] = {}
        # a local that the helper returns into a caller variable of the same name *is* that variable: no renaming
        keep: Set[str] = set()
        if target is not None and len(target) == 1:
            tgt = target[0]
            tnames = [tgt.id] if isinstance(tgt, ast.Name) else [e.id if isinstance(e, ast.Name) else None for e in tgt.elts] if isinstance(tgt, ast.Tuple) else []
            rets = [r.value for r in _own_walk(g) if isinstance(r, ast.Return) and r.value is not None]
            for r in rets:
                rn = [r.id] if isinstance(r, ast.Name) else [e.id if isinstance(e, ast.Name) else None for e in r.elts] if isinstance(r, ast.Tuple) else []
                if len(rn) == len(tnames):
                    keep |= {a for a, b in zip(rn, tnames) if a is not None and a == b}
            keep -= free_of_args
        for loc in stored - set(bound):
            if (loc in caller_names and loc not in keep) or loc in free_of_args:
                rename[loc] = f"{loc}__i{k}"
        nonlocal_names = {n for x in _own_walk(g) if isinstance(x, (ast.Nonlocal, ast.Global)) for n in x.names}
        for n in nonlocal_names:
            rename.pop(n, None)

        lambdas = {p: a for p, a in bound.items() if p in only_called
                   and not a.args.vararg and not a.args.kwarg and not a.args.kwonlyargs and not a.args.defaults}

        class Sub(ast.NodeTransformer):
            def visit_Call(self, n):
                # a lambda argument that the helper only calls: beta-reduce, so the caller's vocabulary survives
                if isinstance(n.func, ast.Name) and n.func.id in lambdas and not n.keywords and not any(isinstance(a, ast.Starred) for a in n.args):
                    lam = lambdas[n.func.id]
                    lp = [a.arg for a in lam.args.posonlyargs + lam.args.args]
                    if len(lp) == len(n.args):
                        actual = [self.visit(a) for a in n.args]
                        m = dict(zip(lp, actual))

                        class Beta(ast.NodeTransformer):
                            def visit_Name(self_, x):
                                return copy.deepcopy(m[x.id]) if x.id in m and isinstance(x.ctx, ast.Load) else x
                        return Beta().visit(copy.deepcopy(lam.body))
                return self.generic_visit(n)

            def visit_Name(self, n):
                if n.id in subst:
                    new = copy.deepcopy(subst[n.id])
                    if isinstance(n.ctx, ast.Load):
                        return new
                    if isinstance(new, ast.Name):
                        return ast.Name(id=new.id, ctx=n.ctx)
                    return n
                if n.id in rename:
                    return ast.Name(id=rename[n.id], ctx=n.ctx)
                return n

            def visit_FunctionDef(self, n):
                if n.name in rename:
                    n.name = rename[n.name]
                self.generic_visit(n)
                return n

            def visit_Nonlocal(self, n): return None
            def visit_Global(self, n): return None
        body = [copy.deepcopy(s) for s in g.body]
        if body and isinstance(body[0], ast.Expr) and isinstance(body[0].value, ast.Constant) and isinstance(body[0].value.value, str):
            body = body[1:]
        out = []
        for s in body:
            r = Sub().visit(s)
            if r is not None:
                out.append(r)
        return prelude, out

    def _tail(self, stmts: List[ast.stmt], on_return) -> List[ast.stmt]:
        for i, s in enumerate(stmts):
            if isinstance(s, ast.Return):
                return stmts[:i] + on_return(s.value)
            if _has_return(s):
                if isinstance(s, ast.If):
                    rest = stmts[i + 1:]
                    new = ast.If(test=s.test, body=self._tail(s.body + copy.deepcopy(rest), on_return) or [ast.Pass()],
                                 orelse=self._tail(s.orelse + copy.deepcopy(rest), on_return))
                    return stmts[:i] + [new]
                raise NotInlinable('return inside a loop / try / with')
        return stmts + on_return(None)

    def expand(self, call: ast.Call, q: str, recv, mode: str, target, caller_names: Set[str]) -> List[ast.stmt]:
        g = self.defs[q]
        if any(isinstance(x, (ast.Yield, ast.YieldFrom)) for x in _own_walk(g)):
            raise NotInlinable('generator')
        prelude, body = self._bind(call, q, recv, caller_names, target if mode == 'assign' else None, tail=(mode == 'return'))

        def on_return(v: Optional[ast.AST]) -> List[ast.stmt]:
            if mode == 'expr':
                return [ast.Expr(value=v)] if isinstance(v, ast.Call) else []
            if mode == 'return':
                return [ast.Return(value=v)]
            val = v if v is not None else ast.Constant(value=None)
            if len(target) == 1 and ast.dump(target[0]).replace('Store()', 'Load()') == ast.dump(val):
                return []               # `x = x`, `(a, b) = (a, b)`
            return [ast.Assign(targets=copy.deepcopy(target), value=val)]
        try:
            return prelude + self._tail(copy.deepcopy(body), on_return)
        except NotInlinable:
            pass
        # `return` inside a loop: the inlined body becomes a block that is left through a synthetic jump
        #     try: <body; `return e` -> `<bind e>; raise __inline_return__`>; <bind None>  except __inline_return__: pass
        # (sa/cfg.py gives the jump a single edge to its handler and does not count it as a raise)
        if mode == 'return':
            # `return helper(...)`: the helper's own returns are the caller's returns
            return prelude + body + ([] if body and isinstance(body[-1], ast.Return) else [ast.Return(value=ast.Constant(value=None))])

        class Ret(ast.NodeTransformer):
            def visit_FunctionDef(self_, n): return n
            def visit_Lambda(self_, n): return n
            def visit_Return(self_, n):
                jump = ast.Raise(exc=ast.Name(id=JUMP, ctx=ast.Load()), cause=None)
                return on_return(n.value) + [jump]

        def flat(stmts):
            out = []
            for s2 in stmts:
                r = Ret().visit(s2)
                out += r if isinstance(r, list) else [r]
            return out
        new_body = flat(body) + on_return(None)
        handler = ast.ExceptHandler(type=ast.Name(id=JUMP, ctx=ast.Load()), name=None, body=[ast.Pass()])
        return prelude + [ast.Try(body=new_body or [ast.Pass()], handlers=[handler], orelse=[], finalbody=[])]

    def expand_generator(self, loop: ast.For, q: str, recv, caller_names: Set[str]) -> List[ast.stmt]:
        g = self.defs[q]
        if loop.orelse:
            raise NotInlinable('for-else over a generator')
        if any(isinstance(x, ast.Return) for x in _own_walk(g)):
            raise NotInlinable('return in generator')
        # break / continue that belong to the consuming loop itself
        def own_jumps(stmts, kinds):
            out = []
            stack = list(stmts)
            while stack:
                n = stack.pop()
                if isinstance(n, kinds):
                    out.append(n)
                if isinstance(n, (ast.For, ast.While) + FUNC + (ast.Lambda, ast.ClassDef)):
                    continue
                stack.extend(ast.iter_child_nodes(n))
            return out
        if own_jumps(loop.body, (ast.Break,)):
            raise NotInlinable('break out of a generator loop')
        has_continue = bool(own_jumps(loop.body, (ast.Continue,)))
        prelude, body = self._bind(loop.iter, q, recv, caller_names)

        class YF(ast.NodeTransformer):          # `yield from xs` is `for y in xs: yield y`
            def visit_FunctionDef(self_, n): return n
            def visit_Lambda(self_, n): return n
            def visit_Expr(self_, n):
                if isinstance(n.value, ast.YieldFrom):
                    self.counter += 1
                    y = f"__y{self.counter}"
                    return ast.For(target=ast.Name(id=y, ctx=ast.Store()), iter=n.value.value,
                                   body=[ast.Expr(value=ast.Yield(value=ast.Name(id=y, ctx=ast.Load())))], orelse=[])
                return n
        body = [YF().visit(b) for b in body]
        if any(isinstance(x, ast.YieldFrom) for b in body for x in ast.walk(b)):
            raise NotInlinable('yield from used as an expression')
        ok = [True]
        n_yield = [0]

        def rewrite(stmts: List[ast.stmt], in_loop_tail: bool) -> List[ast.stmt]:
            out: List[ast.stmt] = []
            for i, s in enumerate(stmts):
                if isinstance(s, ast.Expr) and isinstance(s.value, ast.Yield):
                    n_yield[0] += 1
                    if has_continue and not (in_loop_tail and i == len(stmts) - 1):
                        ok[0] = False
                    v = s.value.value if s.value.value is not None else ast.Constant(value=None)
                    out.append(ast.Assign(targets=[copy.deepcopy(loop.target)], value=v))
                    out += copy.deepcopy(loop.body)
                    continue
                if any(isinstance(x, ast.Yield) for x in _own_walk(s)) or isinstance(s, ast.Expr) and isinstance(s.value, ast.Yield):
                    if isinstance(s, (ast.For, ast.While)):
                        s.body = rewrite(s.body, True)
                        s.orelse = rewrite(s.orelse, False)
                    elif isinstance(s, ast.If):
                        s.body = rewrite(s.body, in_loop_tail and i == len(stmts) - 1)
                        s.orelse = rewrite(s.orelse, in_loop_tail and i == len(stmts) - 1)
                    elif isinstance(s, ast.With):
                        s.body = rewrite(s.body, False)
                    else:
                        ok[0] = False
                out.append(s)
            return out
        new = rewrite(body, False)
        if not ok[0] or n_yield[0] == 0 or n_yield[0] > 3:
            raise NotInlinable('generator shape')
        return prelude + new

    # ------------------------------------------------------------------ statements
    def _candidate(self, e: Optional[ast.AST], caller_q: str):
        if isinstance(e, ast.Call):
            r = self.resolve(e, caller_q)
            if r and r[0] != caller_q and self.inlinable(r[0]):
                return r
        return None

    def _nested_candidate(self, e: ast.AST, caller_q: str):
        """A call to an inlinable helper in an unconditionally evaluated position of expression e."""
        def visit(x):
            if isinstance(x, (ast.Lambda, ast.ListComp, ast.SetComp, ast.DictComp, ast.GeneratorExp, ast.IfExp)):
                if isinstance(x, ast.IfExp):
                    return visit(x.test)
                if isinstance(x, (ast.ListComp, ast.SetComp, ast.DictComp, ast.GeneratorExp)):
                    return visit(x.generators[0].iter)
                return None
            if isinstance(x, ast.BoolOp):
                return visit(x.values[0])
            if isinstance(x, ast.Call):
                c = self._candidate(x, caller_q)
                if c:
                    return x, c
            for ch in ast.iter_child_nodes(x):
                r = visit(ch)
                if r:
                    return r
            return None
        return visit(e)

    def _expression_helper(self, q: str) -> Optional[ast.AST]:
        g = self.defs[q]
        body = list(g.body)
        if body and isinstance(body[0], ast.Expr) and isinstance(body[0].value, ast.Constant) and isinstance(body[0].value.value, str):
            body = body[1:]
        if len(body) == 1 and isinstance(body[0], ast.Return) and body[0].value is not None:
            return body[0].value
        return None

    def substitute_expression_helpers(self, st: ast.stmt, caller_q: str, caller_names: Set[str]) -> bool:
        """Calls to one-expression helpers are replaced by the expression wherever they occur in the statement's own
        expressions (no hoisting, so short-circuit and conditional positions are fine)."""
        changed = [False]
        outer = self
        called = {id(c.func) for c in ast.walk(st) if isinstance(c, ast.Call)}
        cdef = self.defs.get(caller_q)
        shadowed = {x.id for x in ast.walk(cdef) if isinstance(x, ast.Name) and isinstance(x.ctx, (ast.Store, ast.Del))} | \
            {a.arg for a in ast.walk(cdef) if isinstance(a, ast.arg)} if cdef is not None else set()

        class T(ast.NodeTransformer):
            def visit_FunctionDef(self_, n): return n
            def visit_AsyncFunctionDef(self_, n): return n
            def visit_ClassDef(self_, n): return n

            def visit_Name(self_, n):
                # a one-expression helper handed over as a value (`key=_edge_id`): the lambda it names
                if isinstance(n.ctx, ast.Load) and id(n) not in called and n.id in outer.defs and n.id in outer.new and n.id not in shadowed \
                        and n.id != caller_q and outer.inlinable(n.id):
                    g = outer.defs[n.id]
                    e = outer._expression_helper(n.id)
                    if e is not None and not g.args.defaults and not g.args.kwonlyargs and not g.args.vararg:
                        changed[0] = True
                        outer.log.append(f"{caller_q}: reference to {n.id} read as the lambda it names (line {getattr(n, 'lineno', '?')})")
                        lam = ast.Lambda(args=ast.arguments(posonlyargs=[], args=[ast.arg(arg=a.arg) for a in g.args.posonlyargs + g.args.args], kwonlyargs=[],
                                                            kw_defaults=[], defaults=[]), body=copy.deepcopy(e))
                        return ast.fix_missing_locations(ast.copy_location(lam, n))
                return n

            def visit_Call(self_, n):
                self_.generic_visit(n)
                c = outer._candidate(n, caller_q)
                if c and outer._expression_helper(c[0]) is not None:
                    try:
                        tmp = '__exprhelper__'
                        body = outer.expand(n, c[0], c[1], 'assign', [ast.Name(id=tmp, ctx=ast.Store())], caller_names)
                    except NotInlinable:
                        return n
                    if len(body) == 1 and isinstance(body[0], ast.Assign) and isinstance(body[0].targets[0], ast.Name) and body[0].targets[0].id == tmp:
                        changed[0] = True
                        outer.log.append(f"{caller_q}: {c[0]} substituted as an expression (line {getattr(n, 'lineno', '?')})")
                        return ast.copy_location(body[0].value, n)
                return n
        # only the statement's own expressions, not nested statement blocks
        for fld, val in ast.iter_fields(st):
            if fld in ('body', 'orelse', 'finalbody', 'handlers'):
                continue
            if isinstance(val, ast.AST):
                setattr(st, fld, T().visit(val))
            elif isinstance(val, list):
                setattr(st, fld, [T().visit(v) if isinstance(v, ast.AST) else v for v in val])
        return changed[0]

    def inline_stmt(self, st: ast.stmt, caller_q: str, caller_names: Set[str]) -> Optional[List[ast.stmt]]:
        try:
            if self.substitute_expression_helpers(st, caller_q, caller_names):
                return [st]
            if isinstance(st, ast.For) and isinstance(st.iter, ast.Call):
                r = self.resolve(st.iter, caller_q)
                if r and r[0] != caller_q and self.inlinable(r[0]) and any(isinstance(x, (ast.Yield, ast.YieldFrom)) for x in _own_walk(self.defs[r[0]])):
                    new = self.expand_generator(st, r[0], r[1], caller_names)
                    self.log.append(f"{caller_q}: generator {r[0]} unrolled into its consuming loop (line {st.lineno})")
                    return new
            # `xs = [helper(v) for v in it]` / `{k: helper(v) for ...}` with a multi-statement helper: the comprehension is the loop
            # `xs = []; for v in it: xs.append(helper(v))` (which is then pasted into) -- the baseline's own shape for such code
            if isinstance(st, (ast.Assign, ast.AnnAssign)) and isinstance(getattr(st, 'value', None), (ast.ListComp, ast.DictComp)) \
                    and len(st.value.generators) == 1 and not st.value.generators[0].is_async:
                comp = st.value
                tgt = st.targets[0] if isinstance(st, ast.Assign) and len(st.targets) == 1 else st.target if isinstance(st, ast.AnnAssign) else None
                elt = comp.elt if isinstance(comp, ast.ListComp) else comp.value
                c = self._candidate(elt, caller_q)
                simple_tgt = isinstance(tgt, ast.Name) or isinstance(tgt, ast.Subscript) and isinstance(tgt.value, ast.Name) and isinstance(tgt.slice, ast.Constant) \
                    or isinstance(tgt, ast.Attribute) and isinstance(tgt.value, ast.Name)
                root = tgt.id if isinstance(tgt, ast.Name) else tgt.value.id if simple_tgt else None
                if simple_tgt and c and self._expression_helper(c[0]) is None \
                        and root not in {n.id for n in ast.walk(comp) if isinstance(n, ast.Name)}:
                    gen = comp.generators[0]
                    tmp = f"__elt{self.counter + 1}"

                    def tgt_as(ctx):
                        t2 = copy.deepcopy(tgt); t2.ctx = ctx
                        return t2
                    init = ast.Assign(targets=[tgt_as(ast.Store())], value=ast.List(elts=[], ctx=ast.Load()) if isinstance(comp, ast.ListComp) else ast.Dict(keys=[], values=[]))
                    bind = ast.Assign(targets=[ast.Name(id=tmp, ctx=ast.Store())], value=elt)
                    if isinstance(comp, ast.ListComp):
                        put: ast.stmt = ast.Expr(value=ast.Call(func=ast.Attribute(value=tgt_as(ast.Load()), attr='append', ctx=ast.Load()),
                                                                args=[ast.Name(id=tmp, ctx=ast.Load())], keywords=[]))
                    else:
                        put = ast.Assign(targets=[ast.Subscript(value=tgt_as(ast.Load()), slice=comp.key, ctx=ast.Store())], value=ast.Name(id=tmp, ctx=ast.Load()))
                    inner: List[ast.stmt] = [bind, put]
                    for cond in reversed(gen.ifs):
                        inner = [ast.If(test=cond, body=inner, orelse=[])]
                    loop = ast.For(target=gen.target, iter=gen.iter, body=inner, orelse=[])
                    caller_names.add(tmp)
                    self.counter += 1
                    self.log.append(f"{caller_q}: comprehension over {c[0]}(...) written out as a loop (line {st.lineno})")
                    return [init, loop]
            header: Optional[ast.AST] = None
            mode = None; target = None
            if isinstance(st, ast.Expr):
                header, mode = st.value, 'expr'
            elif isinstance(st, ast.Assign):
                header, mode, target = st.value, 'assign', st.targets
            elif isinstance(st, ast.AnnAssign) and st.value is not None:
                header, mode, target = st.value, 'assign', [st.target]
            elif isinstance(st, ast.Return) and st.value is not None:
                header, mode = st.value, 'return'
            if header is not None:
                c = self._candidate(header, caller_q)
                if c:
                    new = self.expand(header, c[0], c[1], mode, target, caller_names)
                    self.log.append(f"{caller_q}: {c[0]} inlined (line {st.lineno})")
                    return new
            # nested call: hoist into a temporary (or substitute an expression helper in place)
            exprs = []
            if isinstance(st, (ast.Expr, ast.Assign, ast.AnnAssign, ast.AugAssign, ast.Return)) and getattr(st, 'value', None) is not None:
                exprs = [st.value]
            elif isinstance(st, ast.If):
                exprs = [st.test]
            elif isinstance(st, ast.For):
                exprs = [st.iter]
            elif isinstance(st, ast.Raise) and st.exc is not None:
                exprs = [st.exc]
            elif isinstance(st, ast.Assert):
                exprs = [st.test]
            for e in exprs:
                found = self._nested_candidate(e, caller_q)
                if not found:
                    continue
                call, (q, recv) = found
                tmp = f"__inl{self.counter + 1}"
                body = self.expand(call, q, recv, 'assign', [ast.Name(id=tmp, ctx=ast.Store())], caller_names)
                # an expression helper: substitute the expression itself
                repl: ast.AST = ast.Name(id=tmp, ctx=ast.Load())
                if len(body) == 1 and isinstance(body[0], ast.Assign) and isinstance(body[0].targets[0], ast.Name) and body[0].targets[0].id == tmp:
                    repl = body[0].value
                    body = []

                class Rep(ast.NodeTransformer):
                    def visit_Call(self_, n):
                        if n is call:
                            return repl
                        return self_.generic_visit(n)
                st2 = Rep().visit(st)
                self.log.append(f"{caller_q}: {q} inlined into an expression (line {st.lineno})")
                return body + [st2]
        except NotInlinable as why:
            self.log.append(f"{caller_q}: call at line {getattr(st, 'lineno', '?')} kept ({why})")
        return None

    def rewrite_function(self, q: str) -> None:
        f = self.defs[q]
        caller_names = {n.id for n in ast.walk(f) if isinstance(n, ast.Name)} | {a.arg for a in f.args.posonlyargs + f.args.args + f.args.kwonlyargs}
        budget = [MAX_INLINES_PER_FUNCTION]

        def block(stmts: List[ast.stmt]) -> List[ast.stmt]:
            out: List[ast.stmt] = []
            work = list(stmts)
            while work:
                st = work.pop(0)
                if isinstance(st, FUNC + (ast.ClassDef,)):
                    out.append(st); continue
                new = self.inline_stmt(st, q, caller_names) if budget[0] > 0 else None
                if new is not None:
                    budget[0] -= 1
                    for x in new:
                        for y in ast.walk(x):
                            if isinstance(y, (ast.stmt, ast.expr)) and not hasattr(y, 'lineno'):
                                ast.copy_location(y, st)
                        ast.fix_missing_locations(ast.copy_location(x, st) if not hasattr(x, 'lineno') else x)
                    work = new + work
                    continue
                for fld in ('body', 'orelse', 'finalbody'):
                    b = getattr(st, fld, None)
                    if isinstance(b, list) and b and isinstance(b[0], ast.stmt):
                        setattr(st, fld, block(b))
                for h in getattr(st, 'handlers', []) or []:
                    h.body = block(h.body)
                out.append(st)
            return out
        f.body = block(f.body) or [ast.Pass()]
        ast.fix_missing_locations(f)
        self.rewritten.add(q)

    # ------------------------------------------------------------------ closure conversion undone
    def renest_lifted_closures(self) -> None:
        """A recursive local function that was lifted to module level with its captured variables turned into leading
        parameters (`visit(bag, parent)` -> `_factorize_bag(rule, t, labels, newrules, bag, parent)`) is put back inside its only
        outside caller: parameters that every recursive call passes on unchanged are environment, not arguments."""
        for q in sorted(self.new):
            g = self.defs.get(q)
            if g is None or '.' in q or g.decorator_list or g.args.vararg or g.args.kwarg or g.args.kwonlyargs:
                continue
            params = [a.arg for a in g.args.posonlyargs + g.args.args]
            rec_calls = [c for c in ast.walk(g) if isinstance(c, ast.Call) and isinstance(c.func, ast.Name) and c.func.id == g.name]
            if not rec_calls or any(c.keywords or any(isinstance(a, ast.Starred) for a in c.args) or len(c.args) != len(params) for c in rec_calls):
                continue
            stored = {n.id for n in _own_walk(g) if isinstance(n, ast.Name) and isinstance(n.ctx, (ast.Store, ast.Del))}
            env = [i for i, p in enumerate(params) if p not in stored and all(isinstance(c.args[i], ast.Name) and c.args[i].id == p for c in rec_calls)]
            if not env:
                continue
            outside = []
            for q2, f2 in self.defs.items():
                if f2 is g or q2.startswith(q + '.'):
                    continue
                cs = [c for c in _own_walk(f2) if isinstance(c, ast.Call) and isinstance(c.func, ast.Name) and c.func.id == g.name]
                if cs:
                    outside.append((q2, f2, cs))
            if len(outside) != 1:
                continue
            q2, F, calls = outside[0]
            if any(c.keywords or len(c.args) != len(params) or any(isinstance(a, ast.Starred) for a in c.args) for c in calls):
                continue
            # the environment arguments must be names, the same at every outside call
            ren: Dict[str, str] = {}
            ok = True
            for i in env:
                names = {c.args[i].id if isinstance(c.args[i], ast.Name) else None for c in calls}
                if len(names) != 1 or None in names:
                    ok = False; break
                ren[params[i]] = names.pop()
            if not ok:
                continue
            inner = copy.deepcopy(g)
            keep = [i for i in range(len(params)) if i not in env]
            allargs = inner.args.posonlyargs + inner.args.args
            inner.args.posonlyargs = []
            inner.args.args = [allargs[i] for i in keep]
            nd = len(inner.args.defaults)
            if nd:
                inner.args.defaults = [d for i, d in zip(range(len(params) - nd, len(params)), inner.args.defaults) if i in keep]
            for n in ast.walk(inner):
                if isinstance(n, ast.Name) and n.id in ren and ren[n.id] != n.id:
                    n.id = ren[n.id]
            for c in [c for c in ast.walk(inner) if isinstance(c, ast.Call) and isinstance(c.func, ast.Name) and c.func.id == g.name] + calls:
                c.args = [c.args[i] for i in keep]
            pos = 1 if F.body and isinstance(F.body[0], ast.Expr) and isinstance(F.body[0].value, ast.Constant) and isinstance(F.body[0].value.value, str) else 0
            # place the definition right before the first statement that uses it
            for j, st in enumerate(F.body):
                if any(isinstance(c, ast.Call) and isinstance(c.func, ast.Name) and c.func.id == g.name for c in ast.walk(st)):
                    pos = max(pos, j); break
            F.body.insert(pos, inner)
            self.tree.body = [st for st in self.tree.body if st is not g]
            self.log.append(f"{q}: lifted closure put back into {q2} (environment parameters: {[params[i] for i in env]})")
            self.relocated[f"{q2}.{g.name}"] = q
            # refresh the definition table
            self.defs = function_defs(self.tree)
            self.new = {x for x in self.defs if f"{self.modname}:{x}" not in self.inventory}

    def run(self) -> List[str]:
        if not self.new:
            return []
        self.renest_lifted_closures()
        for q in list(self.defs):
            f = self.defs[q]
            calls_new = False
            for x in _own_walk(f):
                if isinstance(x, ast.Call):
                    r = self.resolve(x, q)
                    if r and r[0] in self.new and r[0] != q:
                        calls_new = True; break
            if calls_new:
                for _ in range(3):        # helpers of helpers
                    before = len(self.log)
                    self.rewrite_function(q)
                    if not any('inlined' in l or 'unrolled' in l for l in self.log[before:]):
                        break
        for q in self.rewritten:
            _split_tuple_assignments(self.defs[q])
            _renumber(self.defs[q])
            _propagate_copies(self.defs[q])
        return self.log


def _split_tuple_assignments(f: ast.AST) -> None:
    """`a, b = (x, y)` (a helper's several results bound at once) becomes `a = x; b = y` when no target occurs on the right."""
    def block(stmts: List[ast.stmt]) -> List[ast.stmt]:
        out: List[ast.stmt] = []
        for st in stmts:
            if isinstance(st, FUNC + (ast.ClassDef,)):
                out.append(st); continue
            for fld in ('body', 'orelse', 'finalbody'):
                b = getattr(st, fld, None)
                if isinstance(b, list) and b and isinstance(b[0], ast.stmt):
                    setattr(st, fld, block(b))
            for h in getattr(st, 'handlers', []) or []:
                h.body = block(h.body)
            if isinstance(st, ast.Assign) and len(st.targets) == 1 and isinstance(st.targets[0], ast.Tuple) and isinstance(st.value, ast.Tuple) \
                    and len(st.targets[0].elts) == len(st.value.elts) and all(isinstance(t, ast.Name) for t in st.targets[0].elts) \
                    and not any(isinstance(v, ast.Starred) for v in st.value.elts):
                tn = {t.id for t in st.targets[0].elts}
                vn = {n.id for v in st.value.elts for n in ast.walk(v) if isinstance(n, ast.Name)}
                if not (tn & vn):
                    for t, v in zip(st.targets[0].elts, st.value.elts):
                        out.append(ast.copy_location(ast.Assign(targets=[t], value=v), st))
                    continue
            out.append(st)
        return out
    f.body = block(f.body)
    # pack-then-unpack through one name: `r = (x, y)` (or `r = None` on other paths) ... `a, b = r`
    packs: Dict[str, List[ast.AST]] = {}
    for n in _own_walk(f):
        if isinstance(n, ast.Assign) and len(n.targets) == 1 and isinstance(n.targets[0], ast.Name):
            packs.setdefault(n.targets[0].id, []).append(n.value)
    for n in list(_own_walk(f)):
        if isinstance(n, ast.Assign) and len(n.targets) == 1 and isinstance(n.targets[0], ast.Tuple) and isinstance(n.value, ast.Name):
            vals = [v for v in packs.get(n.value.id, []) if not (isinstance(v, ast.Constant) and v.value is None)]
            if len(vals) == 1 and isinstance(vals[0], ast.Tuple) and len(vals[0].elts) == len(n.targets[0].elts) and all(_simple(e) for e in vals[0].elts):
                n.value = copy.deepcopy(vals[0])
    f.body = block(f.body)
    ast.fix_missing_locations(f)


def _propagate_copies(f: ast.AST) -> None:
    """`a = b` left behind by binding a helper's result (`steps = k`, `node_map = node_map__i1`): when `a` is bound only there and
    `b` is not rebound afterwards (nor anywhere in a loop around the copy), later reads of `a` are reads of `b`."""
    stores: Dict[str, List[ast.AST]] = {}
    for n in _own_walk(f):
        if isinstance(n, ast.Name) and isinstance(n.ctx, (ast.Store, ast.Del)):
            stores.setdefault(n.id, []).append(n)
    params = {a.arg for a in f.args.posonlyargs + f.args.args + f.args.kwonlyargs}
    loops = [l for l in _own_walk(f) if isinstance(l, (ast.For, ast.While))]
    ren: Dict[str, str] = {}
    drop: List[ast.stmt] = []
    for st in _own_walk(f):
        if isinstance(st, ast.Assign) and len(st.targets) == 1 and isinstance(st.targets[0], ast.Name) and isinstance(st.value, ast.Name):
            a, b = st.targets[0].id, st.value.id
            if a == b or a in params or len(stores.get(a, [])) != 1:
                continue
            if any(x.lineno > st.lineno for x in stores.get(b, [])):
                continue
            if any(isinstance(x, ast.Name) and x.id == a and isinstance(x.ctx, ast.Load) and x.lineno < st.lineno for x in _own_walk(f)):
                continue
            # b rebound by a loop around the copy: then every read of a must sit in that loop too
            around = [l for l in loops if l.lineno <= st.lineno <= (l.end_lineno or l.lineno)
                      and any(l.lineno <= x.lineno <= (l.end_lineno or l.lineno) for x in stores.get(b, []))]
            if any(not (l.lineno <= x.lineno <= (l.end_lineno or l.lineno)) for l in around
                   for x in _own_walk(f) if isinstance(x, ast.Name) and x.id == a and isinstance(x.ctx, ast.Load)):
                continue
            ren[a] = ren.get(b, b)
            drop.append(st)
    if not ren:
        return
    for n in ast.walk(f):
        if isinstance(n, ast.Name) and n.id in ren and isinstance(n.ctx, ast.Load):
            n.id = ren[n.id]
    for st in drop:
        st.value = ast.copy_location(ast.Name(id=ren[st.targets[0].id], ctx=ast.Load()), st.value)


def _renumber(f: ast.AST) -> None:
    """Statement positions inside a rewritten function follow the new statement order (rules compare positions); the source
    line of every node is kept in `_src_lineno` for reports."""
    for n in ast.walk(f):
        if hasattr(n, 'lineno') and not hasattr(n, '_src_lineno'):
            n._src_lineno = n.lineno
    counter = [f.lineno]

    def stmt(st: ast.stmt) -> None:
        counter[0] += 1
        start = counter[0]
        for fld in ast.iter_fields(st):
            pass
        # header expressions share the statement's line
        for ch in ast.iter_child_nodes(st):
            if isinstance(ch, ast.stmt) or isinstance(ch, ast.ExceptHandler):
                continue
            for x in ast.walk(ch):
                if hasattr(x, 'lineno'):
                    x.lineno = start; x.end_lineno = start
        st.lineno = start
        for fld in ('body', 'orelse', 'finalbody'):
            b = getattr(st, fld, None)
            if isinstance(b, list):
                for s2 in b:
                    if isinstance(s2, ast.stmt):
                        stmt(s2)
        for h in getattr(st, 'handlers', []) or []:
            counter[0] += 1
            h.lineno = counter[0]
            for s2 in h.body:
                stmt(s2)
            h.end_lineno = counter[0]
        st.end_lineno = counter[0]
    for s in f.body:
        stmt(s)
    f.end_lineno = counter[0]


def expand_constant_kwargs(tree: ast.Module) -> int:
    """`f(**C)` with C a module- or class-level constant dict (`C = dict(nan=-inf, ...)` / `{'nan': -inf}`, bound once) is
    rewritten to the explicit keywords, so keyword configurations can be read off the call."""
    consts: Dict[str, Dict[str, ast.AST]] = {}

    def as_dict(v: ast.AST) -> Optional[Dict[str, ast.AST]]:
        if isinstance(v, ast.Call) and isinstance(v.func, ast.Name) and v.func.id == 'dict' and not v.args and all(k.arg for k in v.keywords):
            return {k.arg: k.value for k in v.keywords}
        if isinstance(v, ast.Dict) and all(isinstance(k, ast.Constant) and isinstance(k.value, str) for k in v.keys):
            return {k.value: val for k, val in zip(v.keys, v.values)}
        return None

    def collect(body: List[ast.stmt], prefix: str) -> None:
        seen: Dict[str, int] = {}
        for st in body:
            for t in (st.targets if isinstance(st, ast.Assign) else [st.target] if isinstance(st, ast.AnnAssign) else []):
                if isinstance(t, ast.Name):
                    seen[t.id] = seen.get(t.id, 0) + 1
        for st in body:
            if isinstance(st, ast.ClassDef):
                collect(st.body, st.name + '.')
            v = st.value if isinstance(st, (ast.Assign, ast.AnnAssign)) else None
            t = (st.targets[0] if isinstance(st, ast.Assign) and len(st.targets) == 1 else st.target if isinstance(st, ast.AnnAssign) else None)
            if v is not None and isinstance(t, ast.Name) and seen.get(t.id) == 1:
                d = as_dict(v)
                if d is not None:
                    consts[prefix + t.id] = d
    collect(tree.body, '')
    # a constant dict that is mutated anywhere is not a constant
    for n in ast.walk(tree):
        if isinstance(n, ast.Subscript) and isinstance(n.ctx, (ast.Store, ast.Del)):
            b = n.value
            key = b.id if isinstance(b, ast.Name) else f"{b.value.id}.{b.attr}" if isinstance(b, ast.Attribute) and isinstance(b.value, ast.Name) else None
            consts.pop(key, None)
    n_exp = 0
    cls_stack: List[str] = []
    classes = {c.name: c for c in ast.walk(tree) if isinstance(c, ast.ClassDef)}

    class T(ast.NodeTransformer):
        def visit_ClassDef(self, n):
            cls_stack.append(n.name); self.generic_visit(n); cls_stack.pop(); return n

        def visit_Call(self, n):
            nonlocal n_exp
            self.generic_visit(n)
            new_kw = []
            for k in n.keywords:
                d = None
                if k.arg is None:
                    v = k.value
                    d = as_dict(v)           # f(**{'a': x}) / f(**dict(a=x))
                    if d is not None:
                        pass
                    elif isinstance(v, ast.Name):
                        d = consts.get(v.id)
                    elif isinstance(v, ast.Attribute) and isinstance(v.value, ast.Name):
                        d = consts.get(f"{v.value.id}.{v.attr}")
                        seen_c: Set[str] = set()
                        frontier = [v.value.id]
                        while d is None and frontier:        # inherited class attribute
                            c = frontier.pop(0)
                            if c in seen_c or c not in classes:
                                continue
                            seen_c.add(c)
                            d = consts.get(f"{c}.{v.attr}")
                            frontier += [b.id for b in classes[c].bases if isinstance(b, ast.Name)]
                        if d is None and v.value.id in ('self', 'cls') and cls_stack:
                            d = consts.get(f"{cls_stack[-1]}.{v.attr}")
                if d is None:
                    new_kw.append(k)
                else:
                    n_exp += 1
                    for name, val in d.items():
                        new_kw.append(ast.copy_location(ast.keyword(arg=name, value=copy.deepcopy(val)), k))
            n.keywords = new_kw
            return n
    T().visit(tree)
    # function-local: `tolerance = dict(rtol=rtol, ...)` bound once in a function and only ever splatted
    for fn in [x for x in ast.walk(tree) if isinstance(x, FUNC)]:
        binds: Dict[str, List[ast.AST]] = {}
        for x in _own_walk(fn):
            if isinstance(x, ast.Name) and isinstance(x.ctx, (ast.Store, ast.Del)):
                binds.setdefault(x.id, []).append(x)
        local: Dict[str, Dict[str, ast.AST]] = {}
        for x in _own_walk(fn):
            if isinstance(x, ast.Assign) and len(x.targets) == 1 and isinstance(x.targets[0], ast.Name) and len(binds.get(x.targets[0].id, [])) == 1:
                d = as_dict(x.value)
                if d is not None and all(_simple(v) or isinstance(v, (ast.UnaryOp, ast.Constant)) for v in d.values()):
                    local[x.targets[0].id] = d
        for name in list(local):
            uses = [x for x in ast.walk(fn) if isinstance(x, ast.Name) and x.id == name and isinstance(x.ctx, ast.Load)]
            splats = [k for c in ast.walk(fn) if isinstance(c, ast.Call) for k in c.keywords if k.arg is None and isinstance(k.value, ast.Name) and k.value.id == name]
            if len(uses) != len(splats):
                local.pop(name)
        if local:
            for c in [c for c in ast.walk(fn) if isinstance(c, ast.Call)]:
                new_kw = []
                for k in c.keywords:
                    if k.arg is None and isinstance(k.value, ast.Name) and k.value.id in local:
                        n_exp += 1
                        for nm, val in local[k.value.id].items():
                            new_kw.append(ast.copy_location(ast.keyword(arg=nm, value=copy.deepcopy(val)), k))
                    else:
                        new_kw.append(k)
                c.keywords = new_kw
    ast.fix_missing_locations(tree)
    return n_exp


def normalize_unbound_tensor_calls(tree: ast.Module) -> int:
    """`Tensor.op_(x, a)` / `torch.Tensor.op_(x, a)` (an unbound method, typically left behind when the method was passed as
    a value and the helper receiving it was inlined) is the method call `x.op_(a)`."""
    n_rw = 0

    class T(ast.NodeTransformer):
        def visit_Call(self, n):
            nonlocal n_rw
            self.generic_visit(n)
            f = n.func
            if isinstance(f, ast.Attribute) and n.args and not any(isinstance(a, ast.Starred) for a in n.args):
                b = f.value
                if (isinstance(b, ast.Name) and b.id == 'Tensor') or (isinstance(b, ast.Attribute) and b.attr == 'Tensor' and isinstance(b.value, ast.Name) and b.value.id == 'torch'):
                    n_rw += 1
                    return ast.copy_location(ast.Call(func=ast.copy_location(ast.Attribute(value=n.args[0], attr=f.attr, ctx=ast.Load()), f), args=n.args[1:], keywords=n.keywords), n)
            return n
    T().visit(tree)
    return n_rw


def desugar_modern_syntax(tree: ast.Module) -> int:
    """`match` on literals / classes and unconditional walrus bindings are rewritten to the if/elif chains and plain assignments
    the rules read (same decisions, same order of evaluation):

        match s:                     if s == 'a': ...
            case 'a': ...            elif s == 'b' or s == 'c': ...
            case 'b' | 'c': ...      elif isinstance(s, K): ...
            case K(): ...            else: ...
            case _: ...
        if (n := f(x)) > 1: ...      n = f(x);  if n > 1: ...

    A pattern with sub-patterns, captures inside or-patterns, sequences or mappings is left alone."""
    n_rw = [0]
    counter = [0]

    def pat_test(p, subj):
        """(test expr or None for always-true, bindings) or raises ValueError if not expressible."""
        if isinstance(p, ast.MatchValue):
            return ast.Compare(left=copy.deepcopy(subj), ops=[ast.Eq()], comparators=[p.value]), []
        if isinstance(p, ast.MatchSingleton):
            return ast.Compare(left=copy.deepcopy(subj), ops=[ast.Is()], comparators=[ast.Constant(value=p.value)]), []
        if isinstance(p, ast.MatchOr):
            tests = []
            for q in p.patterns:
                t, b = pat_test(q, subj)
                if b or t is None:
                    raise ValueError
                tests.append(t)
            return ast.BoolOp(op=ast.Or(), values=tests), []
        if isinstance(p, ast.MatchAs):
            if p.pattern is None:
                return None, ([ast.Assign(targets=[ast.Name(id=p.name, ctx=ast.Store())], value=copy.deepcopy(subj))] if p.name else [])
            t, b = pat_test(p.pattern, subj)
            return t, b + ([ast.Assign(targets=[ast.Name(id=p.name, ctx=ast.Store())], value=copy.deepcopy(subj))] if p.name else [])
        if isinstance(p, ast.MatchSequence) and all(isinstance(q, ast.MatchAs) and q.pattern is None for q in p.patterns):
            # [] / [x] / [x, _]: a sequence of exactly that length; the names are bound to its elements
            t = ast.Compare(left=ast.Call(func=ast.Name(id='len', ctx=ast.Load()), args=[copy.deepcopy(subj)], keywords=[]), ops=[ast.Eq()],
                            comparators=[ast.Constant(value=len(p.patterns))])
            b = [ast.Assign(targets=[ast.Name(id=q.name, ctx=ast.Store())], value=ast.Subscript(value=copy.deepcopy(subj), slice=ast.Constant(value=i), ctx=ast.Load()))
                 for i, q in enumerate(p.patterns) if q.name]
            return t, b
        if isinstance(p, ast.MatchClass) and not p.patterns and not p.kwd_patterns:
            return ast.Call(func=ast.Name(id='isinstance', ctx=ast.Load()), args=[copy.deepcopy(subj), p.cls], keywords=[]), []
        raise ValueError

    def rewrite_match(m: ast.Match):
        pre = []
        subj = m.subject
        if not _simple(subj):
            counter[0] += 1
            tmp = f"__match{counter[0]}"
            pre.append(ast.Assign(targets=[ast.Name(id=tmp, ctx=ast.Store())], value=subj))
            subj = ast.Name(id=tmp, ctx=ast.Load())
        chain = None
        try:
            for case in reversed(m.cases):
                t, binds = pat_test(case.pattern, subj)
                if case.guard is not None:
                    if binds:
                        raise ValueError
                    t = case.guard if t is None else ast.BoolOp(op=ast.And(), values=[t, case.guard])
                body = binds + case.body
                if t is None:
                    chain = body                      # irrefutable: the else branch
                else:
                    chain = [ast.If(test=t, body=body, orelse=chain or [])]
        except ValueError:
            return None
        return pre + (chain or [])

    def hoist_walrus(st):
        """Walrus bindings in unconditionally evaluated positions of a simple statement or an `if` test."""
        exprs = []
        if isinstance(st, ast.If):
            exprs = [('test', st.test)]
        elif isinstance(st, (ast.Assign, ast.Expr, ast.Return, ast.AugAssign, ast.AnnAssign)) and getattr(st, 'value', None) is not None:
            exprs = [('value', st.value)]
        pre = []
        for fld, e in exprs:
            def visit(x, top=False):
                if isinstance(x, (ast.Lambda, ast.ListComp, ast.SetComp, ast.DictComp, ast.GeneratorExp, ast.IfExp)):
                    return x
                if isinstance(x, ast.BoolOp):
                    x.values[0] = visit(x.values[0])
                    return x
                for f2, v in list(ast.iter_fields(x)):
                    if isinstance(v, ast.AST):
                        setattr(x, f2, visit(v))
                    elif isinstance(v, list):
                        setattr(x, f2, [visit(y) if isinstance(y, ast.AST) else y for y in v])
                if isinstance(x, ast.NamedExpr) and isinstance(x.target, ast.Name):
                    pre.append(ast.Assign(targets=[ast.Name(id=x.target.id, ctx=ast.Store())], value=x.value))
                    return ast.Name(id=x.target.id, ctx=ast.Load())
                return x
            setattr(st, fld, visit(e))
        return pre

    def prod_loop(st):
        """X = prod(E for v in S if C)  ->  X = 1; for v in S: if C: X *= E   (math.prod over a single generator)"""
        if not (isinstance(st, ast.Assign) and len(st.targets) == 1 and isinstance(st.targets[0], ast.Name) and isinstance(st.value, ast.Call)):
            return None
        c = st.value
        fn = c.func.id if isinstance(c.func, ast.Name) else c.func.attr if isinstance(c.func, ast.Attribute) else ''
        if fn != 'prod' or len(c.args) != 1 or c.keywords or not isinstance(c.args[0], (ast.GeneratorExp, ast.ListComp)) or len(c.args[0].generators) != 1:
            return None
        g = c.args[0].generators[0]
        X = st.targets[0].id
        body = [ast.AugAssign(target=ast.Name(id=X, ctx=ast.Store()), op=ast.Mult(), value=c.args[0].elt)]
        for cond in reversed(g.ifs):
            body = [ast.If(test=cond, body=body, orelse=[])]
        return [ast.Assign(targets=[ast.Name(id=X, ctx=ast.Store())], value=ast.Constant(value=1)),
                ast.For(target=g.target, iter=g.iter, body=body, orelse=[])]

    def block(stmts):
        out = []
        for st in stmts:
            pl = prod_loop(st)
            if pl is not None:
                n_rw[0] += 1
                for x in pl:
                    for y in ast.walk(x):
                        if isinstance(y, (ast.stmt, ast.expr)) and not hasattr(y, 'lineno'):
                            ast.copy_location(y, st)
                out += pl
                continue
            for fld in ('body', 'orelse', 'finalbody'):
                b = getattr(st, fld, None)
                if isinstance(b, list) and b and isinstance(b[0], ast.stmt):
                    setattr(st, fld, block(b))
            for h in getattr(st, 'handlers', []) or []:
                h.body = block(h.body)
            if isinstance(st, ast.Match):
                for c in st.cases:
                    c.body = block(c.body)
                new = rewrite_match(st)
                if new is not None:
                    n_rw[0] += 1
                    for x in new:
                        for y in ast.walk(x):
                            if isinstance(y, (ast.stmt, ast.expr)) and not hasattr(y, 'lineno'):
                                ast.copy_location(y, st)
                    out += new
                    continue
            if any(isinstance(x, ast.NamedExpr) for x in ast.walk(st)) and not isinstance(st, FUNC + (ast.ClassDef,)):
                pre = hoist_walrus(st)
                if pre:
                    n_rw[0] += 1
                    for x in pre:
                        for y in ast.walk(x):
                            if isinstance(y, (ast.stmt, ast.expr)) and not hasattr(y, 'lineno'):
                                ast.copy_location(y, st)
                    out += pre
            out.append(st)
        return out
    has = any(isinstance(x, (ast.Match, ast.NamedExpr)) or (isinstance(x, ast.Call) and (getattr(x.func, 'id', None) == 'prod' or getattr(x.func, 'attr', None) == 'prod')) for x in ast.walk(tree))
    if not has:
        return 0
    tree.body = block(tree.body)
    ast.fix_missing_locations(tree)
    return n_rw[0]


def normalize_aliases(tree: ast.Module, _depth: int = 0) -> int:
    """In every function, a name bound exactly once to a *selector* (`ext = rule.rhs.ext`, `function = d['function']`) is replaced
    by the selector where it is read, provided the selected-from names are not rebound (for-loop targets excepted: they are
    rebound before the alias is taken).  The binding statement stays."""
    n_sub = 0

    def selector(e: ast.AST) -> bool:
        if isinstance(e, ast.Name):
            return True
        if isinstance(e, ast.Attribute):
            return selector(e.value)
        if isinstance(e, ast.Subscript):
            # d['k'] or d[n] with n a plain name (checked below like the other names: not rebound after the alias is taken)
            return selector(e.value) and isinstance(e.slice, (ast.Constant, ast.Name))
        if isinstance(e, ast.Call) and isinstance(e.func, ast.Name) and e.func.id == 'len' and len(e.args) == 1 and not e.keywords:
            # `n = len(xs)` computed once and reused: for a container the function does not change, the same number every time
            return isinstance(e.args[0], ast.Name) and e.args[0].id not in _mutated[0]
        return False

    MUTATORS = {'pop', 'clear', 'update', 'setdefault', 'popitem', 'insert', 'remove', 'sort', 'reverse', 'append', 'extend', 'add', 'discard', '__setitem__', '__delitem__'}

    def container_rewritten(fn: ast.AST, v: ast.AST) -> bool:
        """For an alias of `base[name]`: is `base[...]` stored to, or `base` mutated by a method, anywhere in fn (nested functions included)?"""
        for sub in [x for x in ast.walk(v) if isinstance(x, ast.Subscript) and isinstance(x.slice, ast.Name)]:
            b = ast.dump(sub.value)
            for x in ast.walk(fn):
                if isinstance(x, ast.Subscript) and isinstance(x.ctx, (ast.Store, ast.Del)) and ast.dump(x.value).replace('Store()', 'Load()').replace('Del()', 'Load()') == b:
                    return True
                if isinstance(x, ast.Call) and isinstance(x.func, ast.Attribute) and x.func.attr in MUTATORS and ast.dump(x.func.value) == b:
                    return True
        return False
    # `push, pop = stack.append, stack.pop`: one binding per name (selectors only: nothing is evaluated, so order is immaterial)
    if _depth == 0:
        for holder in ast.walk(tree):
            for fld in ('body', 'orelse', 'finalbody'):
                b = getattr(holder, fld, None)
                if not (isinstance(b, list) and b and isinstance(b[0], ast.stmt)):
                    continue
                i = 0
                while i < len(b):
                    st = b[i]
                    if isinstance(st, ast.Assign) and len(st.targets) == 1 and isinstance(st.targets[0], ast.Tuple) and isinstance(st.value, ast.Tuple) \
                            and len(st.targets[0].elts) == len(st.value.elts) and all(isinstance(t, ast.Name) for t in st.targets[0].elts) \
                            and all(selector(v) and not isinstance(v, ast.Name) for v in st.value.elts) \
                            and not ({t.id for t in st.targets[0].elts} & {x.id for v in st.value.elts for x in ast.walk(v) if isinstance(x, ast.Name)}):
                        parts = [ast.copy_location(ast.Assign(targets=[t], value=v), st) for t, v in zip(st.targets[0].elts, st.value.elts)]
                        b[i:i + 1] = parts
                        i += len(parts)
                        continue
                    i += 1
    _mutated: List[Set[str]] = [set()]
    for fn in [x for x in ast.walk(tree) if isinstance(x, FUNC)]:
        _mutated[0] = {x.func.value.id for x in ast.walk(fn) if isinstance(x, ast.Call) and isinstance(x.func, ast.Attribute) and x.func.attr in MUTATORS
                       and isinstance(x.func.value, ast.Name)} | \
            {x.value.id for x in ast.walk(fn) if isinstance(x, ast.Subscript) and isinstance(x.ctx, (ast.Store, ast.Del)) and isinstance(x.value, ast.Name)} | \
            {x.target.id for x in ast.walk(fn) if isinstance(x, ast.AugAssign) and isinstance(x.target, ast.Name)}
        stores: Dict[str, int] = {}
        loop_t: Dict[str, int] = {}
        binds: Dict[str, List[ast.AST]] = {}
        params = {a.arg for a in fn.args.posonlyargs + fn.args.args + fn.args.kwonlyargs} | ({fn.args.vararg.arg} if fn.args.vararg else set()) | ({fn.args.kwarg.arg} if fn.args.kwarg else set())
        comp_targets = {id(t) for c in _own_walk(fn) if isinstance(c, ast.comprehension) for t in ast.walk(c.target)}   # a scope of their own
        for n in _own_walk(fn):
            if isinstance(n, ast.Name) and isinstance(n.ctx, (ast.Store, ast.Del)) and id(n) not in comp_targets:
                stores[n.id] = stores.get(n.id, 0) + 1
            if isinstance(n, ast.For):
                for t in ast.walk(n.target):
                    if isinstance(t, ast.Name):
                        loop_t[t.id] = loop_t.get(t.id, 0) + 1
            if isinstance(n, ast.Assign) and len(n.targets) == 1 and isinstance(n.targets[0], ast.Name):
                binds.setdefault(n.targets[0].id, []).append(n)
        alias: Dict[str, ast.AST] = {}
        for k, bs in binds.items():
            if len(bs) != 1 or stores.get(k) != 1 or k in params:
                continue
            v = bs[0].value
            if not selector(v) or isinstance(v, ast.Name):
                continue
            base = [x.id for x in ast.walk(v) if isinstance(x, ast.Name)]
            if all((stores.get(b, 0) == 0) or (b not in params and stores.get(b, 0) == 1) or (stores.get(b, 0) == loop_t.get(b, 0)) for b in base) and not any(b in alias for b in base) \
                    and not container_rewritten(fn, v):
                alias[k] = v
        # a name bound more than once (`rhs = rule.rhs` ... and, on the error path, `rhs = ' '.join(...)`): the loads that only the
        # selector binding reaches are read through (reaching definitions on the function's CFG)
        for k, bs in binds.items():
            if stores.get(k, 0) <= 1 or k in params or k in alias:
                continue
            sels = [b for b in bs if selector(b.value) and not isinstance(b.value, ast.Name)
                    and all((stores.get(x, 0) == 0) or (x not in params and stores.get(x, 0) == 1) or (stores.get(x, 0) == loop_t.get(x, 0))
                            for x in [y.id for y in ast.walk(b.value) if isinstance(y, ast.Name)])
                    and k not in {y.id for y in ast.walk(b.value) if isinstance(y, ast.Name)} and not container_rewritten(fn, b.value)]
            if sels:
                n_sub += _flow_alias(fn, k, sels)
        # nested functions that rebind the alias name are left alone (free uses inside them are not touched at all)
        if not alias:
            continue
        bind_nodes = {id(bs[0].targets[0]) for bs in binds.values() if len(bs) == 1}
        # a comprehension whose own variables shadow the alias or a name the selector reads: loads inside it are left alone
        shadow: Dict[int, Set[str]] = {}
        for c in [x for x in ast.walk(fn) if isinstance(x, (ast.ListComp, ast.SetComp, ast.DictComp, ast.GeneratorExp))]:
            tn = {t.id for g_ in c.generators for t in ast.walk(g_.target) if isinstance(t, ast.Name)}
            for x in ast.walk(c):
                if isinstance(x, ast.Name):
                    shadow.setdefault(id(x), set()).update(tn)
        alias_reads = {k: {x.id for x in ast.walk(v) if isinstance(x, ast.Name)} | {k} for k, v in alias.items()}
        # closures: a nested function that neither rebinds the alias nor any name the selector reads sees the same object
        scope_nodes = list(_own_walk(fn))
        for g in [x for x in ast.walk(fn) if isinstance(x, FUNC + (ast.Lambda,)) and x is not fn]:
            bound_in_g = {a.arg for a in ast.walk(g.args) if isinstance(a, ast.arg)} | \
                {x.id for x in ast.walk(g) if isinstance(x, ast.Name) and isinstance(x.ctx, (ast.Store, ast.Del))}
            usable = {k for k, v in alias.items() if k not in bound_in_g and not ({x.id for x in ast.walk(v) if isinstance(x, ast.Name)} & bound_in_g)}
            if usable and (isinstance(g, ast.Lambda) or True):
                for n in ast.walk(g):
                    if not any(isinstance(val, ast.Name) or isinstance(val, list) for _, val in ast.iter_fields(n)):
                        continue
                    for fld, val in ast.iter_fields(n):
                        if isinstance(val, ast.Name) and isinstance(val.ctx, ast.Load) and val.id in usable and not (alias_reads[val.id] & shadow.get(id(val), set())):
                            setattr(n, fld, ast.copy_location(copy.deepcopy(alias[val.id]), val)); n_sub += 1
                        elif isinstance(val, list):
                            for i, x in enumerate(val):
                                if isinstance(x, ast.Name) and isinstance(x.ctx, ast.Load) and x.id in usable and not (alias_reads[x.id] & shadow.get(id(x), set())):
                                    val[i] = ast.copy_location(copy.deepcopy(alias[x.id]), x); n_sub += 1
        for n in scope_nodes:
            for fld, val in ast.iter_fields(n):
                if isinstance(val, ast.Name) and isinstance(val.ctx, ast.Load) and val.id in alias and not (alias_reads[val.id] & shadow.get(id(val), set())):
                    setattr(n, fld, ast.copy_location(copy.deepcopy(alias[val.id]), val)); n_sub += 1
                elif isinstance(val, list):
                    for i, x in enumerate(val):
                        if isinstance(x, ast.Name) and isinstance(x.ctx, ast.Load) and x.id in alias and not (alias_reads[x.id] & shadow.get(id(x), set())):
                            val[i] = ast.copy_location(copy.deepcopy(alias[x.id]), x); n_sub += 1
    if n_sub:
        ast.fix_missing_locations(tree)
        if _depth < 3:
            # an alias of an alias (`ps = table[n]; put = ps.append`): the first pass rewrote the second binding's right-hand side
            n_sub += normalize_aliases(tree, _depth + 1)
    return n_sub


def _flow_alias(fn: ast.AST, k: str, sels: List[ast.Assign]) -> int:
    """Replace the loads of `k` in fn's own body that are reached by exactly one definition, a selector binding from `sels`."""
    from .cfg import CFG
    from .guards import assigned_names
    try:
        cfg = CFG(fn.body)
    except Exception:
        return 0
    defs = {n for n, nd in cfg.nodes.items() if nd.kind in ('stmt', 'for', 'with') and nd.stmt is not None and k in assigned_names(nd.stmt)}
    sel_nodes = {cfg.node_of(b): b for b in sels if cfg.node_of(b) is not None}
    IN: Dict[int, Set[int]] = {n: set() for n in cfg.nodes}
    OUT: Dict[int, Set[int]] = {n: set() for n in cfg.nodes}
    changed = True
    while changed:
        changed = False
        for n in cfg.nodes:
            i = set()
            for p_, _ in cfg.pred[n]:
                i |= OUT[p_]
            o = {n} if n in defs else i
            if i != IN[n] or o != OUT[n]:
                IN[n], OUT[n] = i, o
                changed = True
    n_sub = 0
    for n, nd in cfg.nodes.items():
        if len(IN[n]) != 1 or next(iter(IN[n])) not in sel_nodes:
            continue
        val = sel_nodes[next(iter(IN[n]))].value
        if nd.kind == 'test':
            roots = [nd.expr] if nd.expr is not None and not isinstance(nd.stmt, getattr(ast, 'Match', ())) else []
        elif nd.kind == 'for':
            roots = [nd.stmt.iter]
        elif nd.kind == 'with':
            roots = [i.context_expr for i in nd.stmt.items]
        elif nd.kind in ('stmt', 'return', 'raise', 'assert') and nd.stmt is not None and not isinstance(nd.stmt, (ast.FunctionDef, ast.AsyncFunctionDef, ast.ClassDef, ast.If, ast.While, ast.For, ast.Try, ast.With)):
            roots = [nd.stmt]
        else:
            roots = []
        for root in roots:
            for holder in ast.walk(root):
                if isinstance(holder, (ast.Lambda, ast.FunctionDef)):
                    continue
                for fld, v in ast.iter_fields(holder):
                    if isinstance(v, ast.Name) and isinstance(v.ctx, ast.Load) and v.id == k:
                        setattr(holder, fld, ast.copy_location(copy.deepcopy(val), v)); n_sub += 1
                    elif isinstance(v, list):
                        for i, x in enumerate(v):
                            if isinstance(x, ast.Name) and isinstance(x.ctx, ast.Load) and x.id == k:
                                v[i] = ast.copy_location(copy.deepcopy(val), x); n_sub += 1
    return n_sub


def inline_new_helpers(tree: ast.Module, modname: str, inventory: Optional[Set[str]]) -> Tuple[Set[str], List[str]]:
    """Mutates `tree`; returns (qualnames of the functions that are not in the inventory, log)."""
    if not inventory:
        return set(), []
    expand_constant_kwargs(tree)
    mi = ModuleInliner(tree, modname, inventory)
    log = mi.run()
    if mi.rewritten:
        expand_constant_kwargs(tree)
        normalize_unbound_tensor_calls(tree)
        ast.fix_missing_locations(tree)
    log += scalarize_state_objects(tree, modname, inventory)
    if mi.rewritten:
        expand_starred_tuples(tree)
    return set(mi.new), log


# ---------------------------------------------------------------------------------------------------------------------------
# code motion: a baseline definition that now lives in another module of the package is analysed where the baseline has it

def _abs_module(modname: str, st: ast.ImportFrom, is_pkg: bool = False) -> str:
    """Absolute dotted name of the module an ImportFrom statement names (relative imports resolved against `modname`)."""
    if not st.level:
        return st.module or ''
    parts = modname.split('.')
    if not is_pkg:
        parts = parts[:-1]
    if st.level > 1:
        parts = parts[:len(parts) - (st.level - 1)]
    return '.'.join(parts + ([st.module] if st.module else []))


def _toplevel_bindings(tree: ast.Module) -> Dict[str, Tuple[str, ast.AST]]:
    """name -> (kind, node) for the names a module binds itself at top level: 'def' | 'class' | 'assign' | 'import'."""
    out: Dict[str, Tuple[str, ast.AST]] = {}
    for st in tree.body:
        if isinstance(st, FUNC):
            out[st.name] = ('def', st)
        elif isinstance(st, ast.ClassDef):
            out[st.name] = ('class', st)
        elif isinstance(st, ast.Assign):
            for t in st.targets:
                for n in ast.walk(t):
                    if isinstance(n, ast.Name):
                        out[n.id] = ('assign', st)
        elif isinstance(st, ast.AnnAssign) and isinstance(st.target, ast.Name):
            out[st.target.id] = ('assign', st)
        elif isinstance(st, ast.Import):
            for a in st.names:
                out[a.asname or a.name.split('.')[0]] = ('import', st)
        elif isinstance(st, ast.ImportFrom):
            for a in st.names:
                if a.name != '*':
                    out[a.asname or a.name] = ('import', st)
    return out


def _free_loads(node: ast.AST) -> Set[str]:
    return {n.id for n in ast.walk(node) if isinstance(n, ast.Name) and isinstance(n.ctx, ast.Load)}


def relocate_moved_definitions(trees: Dict[str, ast.Module], relpaths: Dict[str, str], inventory: Optional[Set[str]]) -> List[str]:
    """A top-level function or class the inventory has in module A, absent from A today and defined (under the same name, and not
    itself a baseline definition of that module) in exactly one other module B, was moved: the definition is put back into A's tree
    and B imports it from A, so that every rule sees the program in its baseline layout.  The names the definition reads that B
    binds and A does not are imported into A from B; if A binds one of them to something of its own the move is left alone (the
    anchor is then reported as vanished, never silently accepted).  Mutates the trees; returns a log."""
    log: List[str] = []
    if not inventory:
        return log
    wanted: Dict[str, Set[str]] = {}
    for e in inventory:
        mod, _, q = e.partition(':')
        wanted.setdefault(mod, set()).add(q.split('.')[0])
    binds = {mod: _toplevel_bindings(t) for mod, t in trees.items()}
    for mod in sorted(wanted):
        if mod not in trees:
            continue
        for name in sorted(wanted[mod]):
            here = binds[mod].get(name)
            if here is not None and here[0] in ('def', 'class'):
                continue
            cands = [m2 for m2 in sorted(trees) if m2 != mod and binds[m2].get(name, ('', None))[0] in ('def', 'class')
                     and name not in wanted.get(m2, ())]
            if len(cands) != 1:
                continue
            m2 = cands[0]
            node = binds[m2][name][1]
            # names the definition reads at module level
            needs = {}
            conflict = None
            for fn in sorted(_free_loads(node)):
                b2 = binds[m2].get(fn)
                if b2 is None or fn == name:
                    continue
                b1 = binds[mod].get(fn)
                if b1 is None:
                    needs[fn] = b2
                elif b1[0] == 'import' and b2[0] == 'import':
                    continue                                  # both import it (the usual case: torch, typing, package classes)
                elif b1[0] == 'import' and isinstance(b1[1], ast.ImportFrom) and _abs_module(mod, b1[1]) == m2:
                    continue                                  # A already imports it from B
                elif b1[0] == b2[0] and ast.dump(b1[1]) == ast.dump(b2[1]):
                    continue                                  # the same definition text in both (T = TypeVar('T'), a duplicated constant)
                else:
                    conflict = fn
                    break
            if conflict is not None:
                log.append(f"{mod}:{name} found in {m2} but not moved back: both modules bind `{conflict}` differently")
                continue
            t2, t1 = trees[m2], trees[mod]
            idx2 = t2.body.index(node)
            back = ast.ImportFrom(module=mod, names=[ast.alias(name=name, asname=None)], level=0)
            ast.copy_location(back, node)
            t2.body[idx2] = back
            for n in ast.walk(node):
                n._src_file = relpaths[m2]
            # where A imported it from B the definition takes the import's place
            pos = None
            for i, st in enumerate(t1.body):
                if isinstance(st, ast.ImportFrom) and _abs_module(mod, st) == m2 and any((a.asname or a.name) == name for a in st.names):
                    st.names = [a for a in st.names if (a.asname or a.name) != name]
                    pos = i + 1
                    if not st.names:
                        t1.body[i] = ast.copy_location(ast.Pass(), st)
                    break
            if pos is None:
                pos = max([i + 1 for i, st in enumerate(t1.body) if isinstance(st, (ast.Import, ast.ImportFrom))] or [0])
            extra = []
            for fn, (kind, bnode) in needs.items():
                if kind == 'import':
                    if isinstance(bnode, ast.Import):
                        al = [a for a in bnode.names if (a.asname or a.name.split('.')[0]) == fn]
                        imp = ast.Import(names=[ast.alias(name=al[0].name, asname=al[0].asname)])
                    else:
                        al = [a for a in bnode.names if (a.asname or a.name) == fn]
                        imp = ast.ImportFrom(module=_abs_module(m2, bnode), names=[ast.alias(name=al[0].name, asname=al[0].asname)], level=0)
                else:
                    imp = ast.ImportFrom(module=m2, names=[ast.alias(name=fn, asname=None)], level=0)
                extra.append(ast.copy_location(imp, node))
            stars1 = {_abs_module(mod, st) for st in t1.body if isinstance(st, ast.ImportFrom) and any(a.name == '*' for a in st.names)}
            for st in t2.body:
                if isinstance(st, ast.ImportFrom) and any(a.name == '*' for a in st.names):
                    sm = _abs_module(m2, st)
                    if sm != mod and sm not in stars1:
                        extra.append(ast.copy_location(ast.ImportFrom(module=sm, names=[ast.alias(name='*', asname=None)], level=0), node))
            t1.body[pos:pos] = extra + [node]
            ast.fix_missing_locations(t1); ast.fix_missing_locations(t2)
            binds[mod] = _toplevel_bindings(t1)
            binds[m2] = _toplevel_bindings(t2)
            log.append(f"{mod}:{name} is defined in {relpaths[m2]} today: analysed in its baseline module")
    return log


# ---------------------------------------------------------------------------------------------------------------------------
# state objects: `st = _State()` of a new record-like class, used only as `st.field`, is read as the locals it bundles

def scalarize_state_objects(tree: ast.Module, modname: str, inventory: Optional[Set[str]]) -> List[str]:
    """A class the baseline does not have, whose only method is an `__init__` of `self.f = <expr>` statements, is a bundle of
    variables.  Where a function creates one instance (`st = C(...)`, bound once) and otherwise only reads and writes its fields
    (after the helpers that received `st` have been pasted back or re-nested), the fields become locals of that function: the
    baseline's shape, in which the rules recognise `stack`, `onstack`, `index`.  Anything else (the object escapes, is compared,
    returned, stored, or a field name clashes with another name of the function) leaves the code as written."""
    log: List[str] = []
    if not inventory:
        return log
    records: Dict[str, Tuple[List[str], List[Tuple[str, ast.AST]]]] = {}
    for c in tree.body:
        if not isinstance(c, ast.ClassDef) or c.bases or c.decorator_list or any(e.startswith(f"{modname}:{c.name}.") for e in inventory):
            continue
        members = [m for m in c.body if not (isinstance(m, ast.Expr) and isinstance(m.value, ast.Constant))]
        if len(members) != 1 or not isinstance(members[0], ast.FunctionDef) or members[0].name != '__init__':
            continue
        init = members[0]
        a = init.args
        if a.vararg or a.kwarg or a.kwonlyargs or a.posonlyargs or not a.args:
            continue
        selfn = a.args[0].arg
        params = [x.arg for x in a.args[1:]]
        fields: List[Tuple[str, ast.AST]] = []
        ok = True
        for s in init.body:
            if isinstance(s, ast.Expr) and isinstance(s.value, ast.Constant):
                continue
            t = s.targets[0] if isinstance(s, ast.Assign) and len(s.targets) == 1 else s.target if isinstance(s, ast.AnnAssign) and s.value is not None else None
            if not (isinstance(t, ast.Attribute) and isinstance(t.value, ast.Name) and t.value.id == selfn) or selfn in {n.id for n in ast.walk(s.value) if isinstance(n, ast.Name)}:
                ok = False; break
            fields.append((t.attr, s.value))
        if ok and fields and len({f for f, _ in fields}) == len(fields) and len(a.defaults) == 0:
            records[c.name] = (params, fields)
    if not records:
        return log

    def outer_functions(body):
        for st in body:
            if isinstance(st, FUNC):
                yield st
            elif isinstance(st, ast.ClassDef):
                yield from outer_functions(st.body)
    for F in outer_functions(tree.body):
        cands = [s for s in ast.walk(F) if isinstance(s, ast.Assign) and len(s.targets) == 1 and isinstance(s.targets[0], ast.Name)
                 and isinstance(s.value, ast.Call) and isinstance(s.value.func, ast.Name) and s.value.func.id in records]
        for asg in cands:
            var = asg.targets[0].id
            params, fields = records[asg.value.func.id]
            call = asg.value
            if call.keywords or len(call.args) != len(params) or not all(isinstance(x, (ast.Name, ast.Constant)) for x in call.args):
                continue
            fnames = [f for f, _ in fields]
            occ = [n for n in ast.walk(F) if isinstance(n, ast.Name) and n.id == var]
            attr_vals = {id(n.value) for n in ast.walk(F) if isinstance(n, ast.Attribute) and isinstance(n.value, ast.Name) and n.value.id == var and n.attr in fnames}
            if sum(1 for n in occ if isinstance(n.ctx, ast.Store)) != 1 or any(id(n) not in attr_vals for n in occ if n is not asg.targets[0]):
                continue
            if any(isinstance(n, ast.arg) and n.arg == var for n in ast.walk(F)):
                continue
            others = {n.id for n in ast.walk(F) if isinstance(n, ast.Name)} | {n.arg for n in ast.walk(F) if isinstance(n, ast.arg)} \
                | {n.name for n in ast.walk(F) if isinstance(n, (ast.FunctionDef, ast.ClassDef)) and n is not F}
            if others & set(fnames):
                continue
            # the statement list that holds the creation must be F's own (not a nested function's)
            holder = None
            for h in ast.walk(F):
                for fld in ('body', 'orelse', 'finalbody'):
                    b = getattr(h, fld, None)
                    if isinstance(b, list) and asg in b:
                        holder = (h, b)
            if holder is None or any(isinstance(x, FUNC) and x is not F and asg in list(ast.walk(x)) for x in ast.walk(F)):
                continue
            bind = dict(zip(params, call.args))

            class SubParams(ast.NodeTransformer):
                def visit_Name(self, n):
                    return copy.deepcopy(bind[n.id]) if isinstance(n.ctx, ast.Load) and n.id in bind else n
            inits = []
            for fn, val in fields:
                v = SubParams().visit(copy.deepcopy(val))
                st = ast.Assign(targets=[ast.Name(id=fn, ctx=ast.Store())], value=v)
                ast.copy_location(st, asg); ast.copy_location(st.targets[0], asg)
                inits.append(st)
            b = holder[1]
            i = b.index(asg)
            b[i:i + 1] = inits

            class Fields(ast.NodeTransformer):
                def visit_Attribute(self, n):
                    if isinstance(n.value, ast.Name) and n.value.id == var and n.attr in fnames:
                        return ast.copy_location(ast.Name(id=n.attr, ctx=n.ctx), n)
                    self.generic_visit(n)
                    return n
            Fields().visit(F)
            # nested functions that rebind a field need `nonlocal`
            for g in [x for x in ast.walk(F) if isinstance(x, FUNC) and x is not F]:
                stored = sorted({n.id for n in ast.walk(g) if isinstance(n, ast.Name) and isinstance(n.ctx, ast.Store) and n.id in fnames})
                if stored:
                    pos = 1 if g.body and isinstance(g.body[0], ast.Expr) and isinstance(g.body[0].value, ast.Constant) else 0
                    g.body.insert(pos, ast.copy_location(ast.Nonlocal(names=stored), g.body[0]))
            ast.fix_missing_locations(F)
            log.append(f"{F.name}: fields of `{var} = {asg.value.func.id}(...)` read as locals ({', '.join(fnames)})")
    return log


def methods_from_function_aliases(tree: ast.Module, modname: str, inventory: Optional[Set[str]]) -> List[str]:
    """`mul = staticmethod(_log_mul)` (or `mul = _log_mul`) in a class body, where `_log_mul` is a module-level function of the same
    module and `Class.mul` is a baseline method that has no `def` any more: the class is given the method again (a copy of the
    function under the method's name), so lookups through the class find the code instead of the base class's abstract stub."""
    log: List[str] = []
    if not inventory:
        return log
    funcs = {f.name: f for f in tree.body if isinstance(f, FUNC)}
    for c in [x for x in ast.walk(tree) if isinstance(x, ast.ClassDef)]:
        have = {m.name for m in c.body if isinstance(m, FUNC)}
        for i, st in enumerate(list(c.body)):
            if not (isinstance(st, ast.Assign) and len(st.targets) == 1 and isinstance(st.targets[0], ast.Name)):
                continue
            name = st.targets[0].id
            v = st.value
            static = isinstance(v, ast.Call) and isinstance(v.func, ast.Name) and v.func.id == 'staticmethod' and len(v.args) == 1 and not v.keywords
            src = v.args[0] if static else v
            if not (isinstance(src, ast.Name) and src.id in funcs) or name in have or f"{modname}:{c.name}.{name}" not in inventory:
                continue
            d = copy.deepcopy(funcs[src.id])
            d.name = name
            d.decorator_list = [ast.Name(id='staticmethod', ctx=ast.Load())] if static else []
            ast.copy_location(d, st)
            c.body[c.body.index(st)] = d
            ast.fix_missing_locations(d)
            log.append(f"{c.name}.{name} = {'staticmethod(' if static else ''}{src.id}{')' if static else ''}: read as a method definition")
    return log


def _imports_needed(node: ast.AST, src: str, dst: str, binds, trees) -> Optional[List[ast.stmt]]:
    """Import statements that make the free names of `node` (a definition of module `src`) mean in module `dst` what they mean in
    `src`; None when `dst` binds one of them to something of its own."""
    out: List[ast.stmt] = []
    for fn in sorted(_free_loads(node)):
        b2 = binds[src].get(fn)
        if b2 is None or fn == getattr(node, 'name', None):
            continue
        b1 = binds[dst].get(fn)
        if b1 is None:
            kind, bnode = b2
            if kind == 'import':
                if isinstance(bnode, ast.Import):
                    al = [a for a in bnode.names if (a.asname or a.name.split('.')[0]) == fn]
                    out.append(ast.Import(names=[ast.alias(name=al[0].name, asname=al[0].asname)]))
                else:
                    al = [a for a in bnode.names if (a.asname or a.name) == fn]
                    out.append(ast.ImportFrom(module=_abs_module(src, bnode), names=[ast.alias(name=al[0].name, asname=al[0].asname)], level=0))
            else:
                out.append(ast.ImportFrom(module=src, names=[ast.alias(name=fn, asname=None)], level=0))
        elif b1[0] == 'import' and b2[0] == 'import':
            continue
        elif b1[0] == 'import' and isinstance(b1[1], ast.ImportFrom) and _abs_module(dst, b1[1]) == src:
            continue
        elif b1[0] == b2[0] and ast.dump(b1[1]) == ast.dump(b2[1]):
            continue
        else:
            return None
    stars1 = {_abs_module(dst, st) for st in trees[dst].body if isinstance(st, ast.ImportFrom) and any(a.name == '*' for a in st.names)}
    for st in trees[src].body:
        if isinstance(st, ast.ImportFrom) and any(a.name == '*' for a in st.names):
            sm = _abs_module(src, st)
            if sm != dst and sm not in stars1:
                out.append(ast.ImportFrom(module=sm, names=[ast.alias(name='*', asname=None)], level=0))
    return out


def adopt_foreign_helpers(trees: Dict[str, ast.Module], relpaths: Dict[str, str], inventory: Optional[Set[str]]) -> List[str]:
    """Code cut out of a function of module A into a *new* function of another module B of the package (`domains.domain_from_json`
    called from formats.py) is analysed where it came from: the definition is copied into A (where the per-module inliner pastes
    it back into its callers) whenever its free names can be made to mean the same there.  B keeps its definition."""
    log: List[str] = []
    if not inventory:
        return log
    binds = {mod: _toplevel_bindings(t) for mod, t in trees.items()}
    newdefs = {mod: {st.name: st for st in t.body if isinstance(st, ast.FunctionDef) and not st.decorator_list and f"{mod}:{st.name}" not in inventory}
               for mod, t in trees.items()}
    for A in sorted(trees):
        tA = trees[A]
        # names of A bound to package modules / to symbols of package modules
        modalias: Dict[str, str] = {}
        symalias: Dict[str, Tuple[str, str, ast.ImportFrom]] = {}
        for st in tA.body:
            if isinstance(st, ast.Import):
                for a in st.names:
                    if a.name in trees and a.asname:
                        modalias[a.asname] = a.name
            elif isinstance(st, ast.ImportFrom):
                base = _abs_module(A, st)
                for a in st.names:
                    if a.name == '*':
                        continue
                    if f"{base}.{a.name}" in trees:
                        modalias[a.asname or a.name] = f"{base}.{a.name}"
                    elif base in trees:
                        symalias[a.asname or a.name] = (base, a.name, st)
        adopted: Dict[Tuple[str, str], str] = {}
        for c in [x for x in ast.walk(tA) if isinstance(x, ast.Call)]:
            B = fn = None
            if isinstance(c.func, ast.Attribute) and isinstance(c.func.value, ast.Name) and c.func.value.id in modalias:
                B, fn = modalias[c.func.value.id], c.func.attr
            elif isinstance(c.func, ast.Name) and c.func.id in symalias:
                B, fn = symalias[c.func.id][0], symalias[c.func.id][1]
            if B is None or B == A or fn not in newdefs.get(B, {}):
                continue
            if (B, fn) not in adopted:
                g = newdefs[B][fn]
                needs = _imports_needed(g, B, A, binds, trees)
                local = fn
                if isinstance(c.func, ast.Attribute) and fn in binds[A]:
                    local = f"{fn}__{B.rsplit('.', 1)[-1]}"
                if needs is None or (local != fn and local in binds[A]):
                    log.append(f"{A}: {B}.{fn} is new but not adopted (names differ between the modules)")
                    adopted[(B, fn)] = ''
                    continue
                d = copy.deepcopy(g)
                d.name = local
                for n in ast.walk(d):
                    n._src_file = relpaths[B]
                if isinstance(c.func, ast.Name):
                    imp = symalias[c.func.id][2]
                    imp.names = [a for a in imp.names if (a.asname or a.name) != c.func.id]
                    if not imp.names:
                        tA.body[tA.body.index(imp)] = ast.copy_location(ast.Pass(), imp)
                    d.name = local = c.func.id
                pos = max([i + 1 for i, st in enumerate(tA.body) if isinstance(st, (ast.Import, ast.ImportFrom))] or [0])
                for st in needs:
                    ast.copy_location(st, g)
                tA.body[pos:pos] = needs + [d]
                ast.fix_missing_locations(tA)
                binds[A] = _toplevel_bindings(tA)
                adopted[(B, fn)] = local
                log.append(f"{A}: new function {B}.{fn} (defined in {relpaths[B]}) is analysed with its callers here")
            local = adopted[(B, fn)]
            if local and isinstance(c.func, ast.Attribute):
                c.func = ast.copy_location(ast.Name(id=local, ctx=ast.Load()), c.func)
    return log


def expand_starred_tuples(tree: ast.Module) -> int:
    """`f(a, *t, b)` where `t` is a local bound exactly once to a tuple display (what a pasted-back helper that returned two values
    leaves behind: `t = (paxes, vaxes)`) is read as `f(a, paxes, vaxes, b)` when the elements are plain names that are not rebound
    between the binding and the call (bound once themselves)."""
    n_rw = 0
    for fn in [x for x in ast.walk(tree) if isinstance(x, FUNC)]:
        stores: Dict[str, int] = {}
        binds: Dict[str, ast.AST] = {}
        for n in ast.walk(fn):
            if isinstance(n, ast.Name) and isinstance(n.ctx, (ast.Store, ast.Del)):
                stores[n.id] = stores.get(n.id, 0) + 1
            if isinstance(n, ast.Assign) and len(n.targets) == 1 and isinstance(n.targets[0], ast.Name) and isinstance(n.value, ast.Tuple):
                binds[n.targets[0].id] = n.value
        for c in [x for x in ast.walk(fn) if isinstance(x, ast.Call)]:
            new_args = []
            changed = False
            for a in c.args:
                if isinstance(a, ast.Starred) and isinstance(a.value, ast.Name) and a.value.id in binds and stores.get(a.value.id) == 1 \
                        and all(isinstance(e, ast.Name) and stores.get(e.id, 0) <= 1 for e in binds[a.value.id].elts):
                    new_args += [ast.copy_location(ast.Name(id=e.id, ctx=ast.Load()), a) for e in binds[a.value.id].elts]
                    changed = True
                else:
                    new_args.append(a)
            if changed:
                c.args = new_args
                n_rw += 1
    if n_rw:
        ast.fix_missing_locations(tree)
    return n_rw
