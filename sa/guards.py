"""Guard evaluation: three-valued evaluation of test expressions under a valuation of atoms, and CFG walks
restricted to the branches a valuation allows (path condition truth tables).

An *atom* is a maximal non-boolean-connective sub-expression of a test, normalised so that `a not in b`,
`a != b`, `a is not b` are the negations of `a in b`, `a == b`, `a is b`.  Integer *terms* (e.g. `len(edges)`,
a counter name) may be given concrete small integer values, so chains like `n == 0 / n == 1 / else` are evaluated
exactly.  Anything not covered by the valuation evaluates to None (unknown) and both branches are followed.
"""
from __future__ import annotations
import ast, itertools
from typing import Dict, List, Optional, Set, Tuple, Callable, Iterable, Any
from .cfg import CFG
from .model import norm as _norm, names_in
import copy as _copy


class _Canon(ast.NodeTransformer):
    """`k in d.keys()` == `k in d`;  strip the call."""
    def visit_Call(self, node: ast.Call):
        self.generic_visit(node)
        if isinstance(node.func, ast.Attribute) and node.func.attr == 'keys' and not node.args and not node.keywords:
            return node.func.value
        return node


def norm(e: ast.AST) -> str:
    if any(isinstance(x, ast.Attribute) and x.attr == 'keys' for x in ast.walk(e)):
        e = _Canon().visit(_copy.deepcopy(e))
    return _norm(e)

NEG = {ast.NotIn: ast.In, ast.NotEq: ast.Eq, ast.IsNot: ast.Is}


def atom_of_compare(left: ast.AST, op: ast.cmpop, right: ast.AST) -> Tuple[str, bool]:
    """-> (atom text, negated?)"""
    neg = False
    t = type(op)
    if t in NEG:
        t = NEG[t]; neg = True
    sym = {ast.In: 'in', ast.Eq: '==', ast.Is: 'is', ast.Lt: '<', ast.LtE: '<=', ast.Gt: '>', ast.GtE: '>='}[t]
    return f"{norm(left)} {sym} {norm(right)}", neg


def collect_atoms(expr: ast.AST) -> Dict[str, ast.AST]:
    out: Dict[str, ast.AST] = {}
    def rec(e):
        if isinstance(e, ast.BoolOp):
            for v in e.values: rec(v)
        elif isinstance(e, ast.UnaryOp) and isinstance(e.op, ast.Not):
            rec(e.operand)
        elif isinstance(e, ast.Compare):
            l = e.left
            for op, r in zip(e.ops, e.comparators):
                txt, _ = atom_of_compare(l, op, r)
                out[txt] = ast.Compare(left=l, ops=[op], comparators=[r])
                l = r
        elif isinstance(e, ast.Constant):
            pass
        else:
            out[norm(e)] = e
    rec(expr)
    return out


class Env:
    def __init__(self, atoms: Optional[Dict[str, bool]] = None, ints: Optional[Dict[str, int]] = None,
                 hook: Optional[Callable[[ast.AST], Optional[bool]]] = None, strs: Optional[Dict[str, str]] = None):
        self.atoms = dict(atoms or {})
        self.ints = dict(ints or {})
        self.strs = dict(strs or {})
        self.hook = hook

    def str_value(self, e: ast.AST, dead: Set[str] = frozenset()) -> Optional[str]:
        if isinstance(e, ast.Constant) and isinstance(e.value, str):
            return e.value
        t = norm(e)
        if t in self.strs and t not in dead:
            return self.strs[t]
        return None

    def int_value(self, e: ast.AST, dead: Set[str] = frozenset()) -> Optional[int]:
        if isinstance(e, ast.Constant) and isinstance(e.value, int) and not isinstance(e.value, bool):
            return e.value
        t = norm(e)
        if t in self.ints and t not in dead:
            return self.ints[t]
        if isinstance(e, ast.BinOp) and isinstance(e.op, (ast.Add, ast.Sub)):
            a, b = self.int_value(e.left, dead), self.int_value(e.right, dead)
            if a is not None and b is not None:
                return a + b if isinstance(e.op, ast.Add) else a - b
        if isinstance(e, ast.UnaryOp) and isinstance(e.op, ast.USub):
            a = self.int_value(e.operand, dead)
            return -a if a is not None else None
        return None

    def eval(self, e: ast.AST, dead: Set[str] = frozenset()) -> Optional[bool]:
        if self.hook is not None:
            r = self.hook(e)
            if r is not None:
                return r
        if isinstance(e, ast.BoolOp):
            vals = [self.eval(v, dead) for v in e.values]
            if isinstance(e.op, ast.And):
                if any(v is False for v in vals): return False
                if all(v is True for v in vals): return True
                return None
            if any(v is True for v in vals): return True
            if all(v is False for v in vals): return False
            return None
        if isinstance(e, ast.UnaryOp) and isinstance(e.op, ast.Not):
            v = self.eval(e.operand, dead)
            return None if v is None else (not v)
        if isinstance(e, ast.Compare):
            l = e.left
            res: Optional[bool] = True
            for op, r in zip(e.ops, e.comparators):
                v = self._cmp(l, op, r, dead)
                if v is False:
                    return False
                if v is None:
                    res = None
                l = r
            return res
        if isinstance(e, ast.Constant):
            return bool(e.value)
        t = norm(e)
        if t in dead:
            return None
        if t in self.atoms:
            return self.atoms[t]
        iv = self.int_value(e, dead)
        if iv is not None:
            return iv != 0
        # truthiness of a container whose length the valuation fixes: `not edges`  <=>  len(edges) == 0
        lt = f"len({t})"
        if lt in self.ints and lt not in dead:
            return self.ints[lt] != 0
        return None

    def _cmp(self, l, op, r, dead) -> Optional[bool]:
        a, b = self.int_value(l, dead), self.int_value(r, dead)
        if a is not None and b is not None:
            return {ast.Eq: a == b, ast.NotEq: a != b, ast.Lt: a < b, ast.LtE: a <= b, ast.Gt: a > b,
                    ast.GtE: a >= b}.get(type(op))
        sa, sb = self.str_value(l, dead), self.str_value(r, dead)
        if sa is not None and sb is not None and isinstance(op, (ast.Eq, ast.NotEq)):
            return (sa == sb) == isinstance(op, ast.Eq)
        if sa is not None and isinstance(op, (ast.In, ast.NotIn)) and isinstance(r, (ast.Tuple, ast.List, ast.Set)):
            vals = [self.str_value(x, dead) for x in r.elts]
            if all(v is not None for v in vals):
                return (sa in vals) == isinstance(op, ast.In)
        txt, neg = atom_of_compare(l, op, r)
        if txt in dead:
            return None
        if txt in self.atoms:
            return self.atoms[txt] != neg
        # mirrored form  b == a
        txt2, neg2 = atom_of_compare(r, _mirror(op), l)
        if txt2 in self.atoms and txt2 not in dead:
            return self.atoms[txt2] != neg2
        return None


def _mirror(op):
    return {ast.Lt: ast.Gt, ast.Gt: ast.Lt, ast.LtE: ast.GtE, ast.GtE: ast.LtE}.get(type(op), type(op))()


def mentions(expr: ast.AST, term: str) -> bool:
    """Does `expr` contain a sub-expression whose normalised text is `term`?"""
    return any(norm(x) == term or _norm(x) == term for x in ast.walk(expr))


def assigned_names(st: ast.AST) -> Set[str]:
    out: Set[str] = set()
    if st is None:
        return out
    targets: List[ast.AST] = []
    if isinstance(st, ast.Assign): targets = st.targets
    elif isinstance(st, (ast.AugAssign, ast.AnnAssign)): targets = [st.target]
    elif isinstance(st, (ast.For, ast.AsyncFor)): targets = [st.target]
    elif isinstance(st, (ast.With, ast.AsyncWith)): targets = [i.optional_vars for i in st.items if i.optional_vars is not None]
    for t in targets:
        for n in ast.walk(t):
            if isinstance(n, ast.Name):
                out.add(n.id)
    # walrus anywhere in a simple statement
    if isinstance(st, (ast.Assign, ast.AugAssign, ast.AnnAssign, ast.Expr, ast.Return, ast.Assert)):
        for n in ast.walk(st):
            if isinstance(n, ast.NamedExpr) and isinstance(n.target, ast.Name):
                out.add(n.target.id)
    return out


def walk(cfg: CFG, start: int, env: Env, stop: Callable[[int], bool] = lambda n: False,
         atom_asts: Optional[Dict[str, ast.AST]] = None, skip_labels: Iterable[str] = ('exc',),
         loop_header_stop: Optional[int] = None, track_undecided: Optional[Set[int]] = None,
         unknown: str = 'both', loop_items_not_none: bool = False, lookups_not_none: bool = False) -> Set[int]:
    """Nodes reachable from `start` under `env`.  Stop nodes are included but not expanded.
    If an assignment on the way rebinds a name mentioned by an atom/term, that atom becomes unknown from there on."""
    atom_names: Dict[str, Set[str]] = {}
    for t, a in (atom_asts or {}).items():
        atom_names[t] = names_in(a)
    for t in list(env.atoms) + list(env.ints) + list(env.strs):
        if t not in atom_names:
            try:
                atom_names[t] = names_in(ast.parse(t, mode='eval'))
            except SyntaxError:
                atom_names[t] = set()
    seen: Set[Tuple[int, frozenset, frozenset, frozenset]] = set()
    out: Set[int] = set()
    # constant facts established on the path: `x = None` / `x = True` / `x = False` (and their loss when x is rebound to
    # something else) decide later tests `x is None`, `x is not None`, `x`, `not x`
    def with_facts(facts: frozenset) -> Env:
        if not facts:
            return env
        e2 = Env(dict(env.atoms), dict(env.ints), env.hook, dict(env.strs))
        for name, val in facts:
            if val == 'none':
                e2.atoms.setdefault(f"{name} is None", True)
            elif val == 'notnone':
                e2.atoms.setdefault(f"{name} is None", False)
            else:
                e2.atoms.setdefault(name, val)
                e2.atoms.setdefault(f"{name} is None", False)
        return e2
    # state: (node, atoms evaluated so far on this path, atoms whose valuation no longer applies)
    # An assignment invalidates an atom only if the atom was already evaluated before it on this path: the valuation
    # describes the value the atom has when it is (first) tested.
    work: List[Tuple[int, frozenset, frozenset, frozenset]] = [(start, frozenset(), frozenset(), frozenset())]
    test_atoms: Dict[int, frozenset] = {}
    while work:
        n, used, dead, facts = work.pop()
        if (n, used, dead, facts) in seen:
            continue
        seen.add((n, used, dead, facts))
        out.add(n)
        if stop(n) or n == loop_header_stop and n != start:
            continue
        nd = cfg.nodes[n]
        if nd.kind == 'test':
            is_match = isinstance(nd.stmt, getattr(ast, 'Match', ()))
            v = with_facts(facts).eval(nd.expr, set(dead)) if not is_match else None
            if n not in test_atoms:
                ta = set(collect_atoms(nd.expr)) if not is_match else set()
                subs = {norm(x) for x in ast.walk(nd.expr)} | {_norm(x) for x in ast.walk(nd.expr)}
                ta |= {t for t in list(env.ints) + list(env.strs) if t in subs}
                test_atoms[n] = frozenset(t for t in ta if t in atom_names or t in env.atoms)
            used2 = used | test_atoms[n]
            if v is None and track_undecided is not None:
                track_undecided.add(n)
            if v is None and unknown == 'block':
                continue
            for b, l in cfg.succ[n]:
                if l in skip_labels: continue
                if v is True and l == 'false': continue
                if v is False and l == 'true': continue
                work.append((b, used2, dead, facts))
            continue
        newdead = dead
        newfacts = facts
        if nd.kind in ('stmt', 'for', 'with'):
            asg = assigned_names(nd.stmt)
            if asg:
                kill = {t for t, ns in atom_names.items() if ns & asg and t in used}
                if kill:
                    newdead = dead | frozenset(kill)
                newfacts = frozenset((k, v) for k, v in facts if k not in asg)
                st = nd.stmt
                if nd.kind == 'stmt' and isinstance(st, ast.Assign) and len(st.targets) == 1 and isinstance(st.targets[0], ast.Name):
                    tname = st.targets[0].id
                    # only names the valuation itself does not speak about
                    if tname not in env.atoms and f"{tname} is None" not in env.atoms:
                        if isinstance(st.value, ast.Constant) and st.value.value is None:
                            newfacts = newfacts | {(tname, 'none')}
                        elif isinstance(st.value, ast.Constant) and isinstance(st.value.value, bool):
                            newfacts = newfacts | {(tname, st.value.value)}
                        elif isinstance(st.value, (ast.Constant, ast.List, ast.Tuple, ast.Dict, ast.Set, ast.ListComp, ast.DictComp, ast.SetComp, ast.JoinedStr, ast.Compare, ast.BinOp)):
                            newfacts = newfacts | {(tname, 'notnone')}
                        elif lookups_not_none and (isinstance(st.value, ast.Subscript) or isinstance(st.value, ast.Call)
                                                   and not (isinstance(st.value.func, ast.Attribute) and st.value.func.attr in ('get', 'pop', 'setdefault'))
                                                   and not any(isinstance(a, ast.Constant) and a.value is None for a in list(st.value.args) + [k.value for k in st.value.keywords])):
                            # the caller's assumption: an element looked up in / computed from a collection of non-None items
                            newfacts = newfacts | {(tname, 'notnone')}
        for b, l in cfg.succ[n]:
            if l in skip_labels: continue
            if loop_items_not_none and nd.kind == 'for' and l == 'iter' and isinstance(nd.stmt.target, ast.Name):
                # the caller's assumption: the collection iterated over holds no None (bags, nodes, labels)
                work.append((b, used, newdead, newfacts | {(nd.stmt.target.id, 'notnone')}))
                continue
            work.append((b, used, newdead, newfacts))
    return out


def valuations(atoms: Iterable[str], ints: Optional[Dict[str, Iterable[int]]] = None) -> Iterable[Env]:
    atoms = list(atoms)
    ints = {k: list(v) for k, v in (ints or {}).items()}
    ikeys = list(ints)
    for bits in itertools.product([False, True], repeat=len(atoms)):
        for ivals in itertools.product(*[ints[k] for k in ikeys]) if ikeys else [()]:
            yield Env(dict(zip(atoms, bits)), dict(zip(ikeys, ivals)))


def describe_env(env: Env) -> str:
    parts = [f"{'' if v else 'not '}({k})" for k, v in env.atoms.items()] + [f"{k}={v}" for k, v in env.ints.items()] \
        + [f"{k}={v!r}" for k, v in env.strs.items()]
    return ', '.join(parts) if parts else 'true'


def iff_table(cfg: CFG, start: int, header: Optional[int], atoms: Dict[str, ast.AST], role_of: Callable[[str, ast.AST], Optional[str]],
              required: Callable[[Dict[str, bool]], Optional[bool]], executed: Callable[[Set[int]], bool]) -> Tuple[List[str], List[str]]:
    """Truth table of "the action is executed" against `required(roles)` over all valuations of the atoms.
    Atoms with a role (role_of != None) define the requirement; atoms without a role are universally quantified: the
    requirement has to hold whatever their value.  Returns (mismatches, unclassified atom texts)."""
    roles = {t: role_of(t, a) for t, a in atoms.items()}
    unknown = [t for t, r in roles.items() if r is None]
    bad: List[str] = []
    for env in valuations(sorted(atoms)):
        val: Dict[str, bool] = {}
        consistent = True
        for t, r in roles.items():
            if r is None:
                continue
            neg = r.startswith('!')
            key = r[1:] if neg else r
            v = env.atoms[t] != neg
            if key in val and val[key] != v:
                consistent = False
            val[key] = v
        if not consistent:
            continue
        want = required(val)
        if want is None:
            continue
        reach = walk(cfg, start, env, loop_header_stop=header, unknown='both')
        ex = executed(reach)
        if ex != want:
            extra = ', '.join(f"{'' if env.atoms[t] else 'not '}({t})" for t in unknown)
            bad.append(f"[{describe_env(Env({t: env.atoms[t] for t in atoms if roles[t] is not None}))}" + (f"; with {extra}" if extra else '') + f"] executed={ex}, required={want}")
    return bad, unknown
