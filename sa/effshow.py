"""Debug: python -m sa.effshow module:qualname ...  -> print effect summaries."""
import sys, os
from .model import Program
from .effects import effects_for
prog = Program(os.environ.get('SA_REPO', '/repo'))
eng = effects_for(prog)
for a in sys.argv[1:]:
    m, q = a.split(':')
    f = prog.func(m, q)
    S = eng.summaries[f]
    print('==', f.fq(), 'ret', S.ret)
    for e in sorted(S.writes, key=lambda e: (e.root, e.loc)):
        print('   W', e.root, '|', e.kind, '|', e.where, e.loc, '|', e.text[:70], '| via', ' > '.join(v.split('@')[0].split(':')[1] for v in e.via[:5]))
    for k, v in S.growth.items():
        print('   G', k, '+=', sorted(v))
