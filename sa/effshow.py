"""Debug: python -m sa.effshow module:qualname ...  -> print effect summaries."""
import sys, os
from .model import Program
from .effects import effects_for
prog = Program(os.environ.get('SA_REPO', '/repo'))
eng = effects_for(prog)
for a in sys.argv[1:]:
    m, q = a.split(':')
    f = prog.func(m, q)
    S = eng.summaries[f]
    print('==', f.fq(), 'ret', S.ret)
    for e in sorted(S.writes, key=lambda e: (e.root, e.loc)):
        print('   W', e.root, '|', e.kind, '|', e.where, e.loc, '|', e.text[:70], '| via', ' > '.join(v.split('@')[0].split(':')[1] for v in e.via[:5]))
    for k, v in S.growth.items():
        print('   G', k, '+=', sorted(v))

def trace(fq, var):
    m, q = fq.split(':')
    f = prog.func(m, q)
    from .effects import _Ctx, Summary, join_env
    from .cfg import cfg_of
    cfg = cfg_of(f)
    S = Summary(); ctx = _Ctx(eng, f, S)
    state = {cfg.entry: eng.initial_env(f)}; work=[cfg.entry]; visits={}
    while work:
        n = work.pop(); visits[n]=visits.get(n,0)+1
        if visits[n]>40: continue
        out = ctx.transfer(cfg, n, dict(state.get(n, {})), record=False)
        for b,l in cfg.succ[n]:
            old = state.get(b); new = out if old is None else join_env(old,out)
            if old is None or new != old:
                state[b]=new; work.append(b)
    for n in sorted(state, key=lambda n: cfg.nodes[n].lineno):
        if var in state[n]:
            v = state[n][var]
            print(cfg.describe(n)[:70].ljust(72), 'id', sorted(v.id), 'content', sorted(v.content), 'fields', [(k, sorted(x.id), sorted(x.content)) for k, x in (v.fields or ())])
if os.environ.get('TRACE'):
    fq, var = os.environ['TRACE'].split('#')
    trace(fq, var)
