"""Call resolution over the program model (E0)."""
from __future__ import annotations
import ast
from dataclasses import dataclass
from typing import Dict, List, Optional, Set, Tuple
from .model import Program, FuncInfo, ClassInfo, Module, own_nodes, attr_chain, norm


@dataclass
class Target:
    func: Optional[FuncInfo]        # None => external
    external: Optional[str] = None  # dotted name / method name for externals
    bound: bool = False             # receiver is bound (self stripped from positional mapping)
    certain: bool = True            # False when found by name-based class-hierarchy analysis only
    ctor_of: Optional[ClassInfo] = None


def annotation_classes(prog: Program, m: Module, ann: Optional[ast.AST]) -> List[ClassInfo]:
    """Repo classes named by an annotation (Optional[X], Union[X,Y], 'X', X)."""
    out: List[ClassInfo] = []
    if ann is None:
        return out
    if isinstance(ann, ast.Constant) and isinstance(ann.value, str):
        try:
            ann = ast.parse(ann.value, mode='eval').body
        except SyntaxError:
            return out
    for n in ast.walk(ann):
        if isinstance(n, ast.Name):
            r = prog.resolve_global(m, n.id)
            if r and r[0] == 'class':
                out.append(r[1])
        elif isinstance(n, ast.Constant) and isinstance(n.value, str) and n.value.isidentifier():
            r = prog.resolve_global(m, n.value)
            if r and r[0] == 'class':
                out.append(r[1])
    return out


class Resolver:
    def __init__(self, prog: Program):
        self.prog = prog
        self._local_types: Dict[Tuple[str, str], Dict[str, List[ClassInfo]]] = {}

    def ctor_targets(self, ci: ClassInfo) -> List[Target]:
        out = []
        init = self.prog.find_method(ci, '__init__')
        if init is not None:
            out.append(Target(init, bound=True, ctor_of=ci))
        post = self.prog.find_method(ci, '__post_init__')
        if post is not None and ci.is_dataclass:
            out.append(Target(post, bound=True, ctor_of=ci))
        if not out:
            out.append(Target(None, external=f"{ci.name}.__init__", ctor_of=ci))
        return out

    def var_classes(self, f: FuncInfo, name: str) -> List[ClassInfo]:
        """Classes a local name may hold, from annotations and constructor assignments (flow-insensitive)."""
        key = (f.fq(), name)
        if key in self._local_types:
            return self._local_types[key].get('v', [])
        self._local_types[key] = {'v': []}      # recursion guard (x = x.method())
        out = self._var_classes(f, name)
        self._local_types[key] = {'v': out}
        return out

    def _var_classes(self, f: FuncInfo, name: str) -> List[ClassInfo]:
        prog = self.prog
        out: List[ClassInfo] = []
        g: Optional[FuncInfo] = f
        while g is not None:
            if name in g.param_names():
                if name == g.self_name() and g.cls is not None:
                    return [g.cls]
                out += annotation_classes(prog, g.module, g.param_annotation(name))
                return out
            for n in own_nodes(g.node):
                if isinstance(n, ast.AnnAssign) and isinstance(n.target, ast.Name) and n.target.id == name:
                    out += annotation_classes(prog, g.module, n.annotation)
                elif isinstance(n, ast.Assign) and any(isinstance(t, ast.Name) and t.id == name for t in n.targets):
                    v = n.value
                    if isinstance(v, ast.Call):
                        for t in self.resolve(g, v):
                            if t.ctor_of is not None and t.ctor_of not in out:
                                out.append(t.ctor_of)
                            elif t.func is not None and isinstance(t.func.node, ast.FunctionDef) and t.func.node.returns is not None:
                                for c in annotation_classes(prog, t.func.module, t.func.node.returns):
                                    if c not in out: out.append(c)
            if out:
                return out
            g = g.parent
        return out

    def resolve(self, f: FuncInfo, call: ast.Call) -> List[Target]:
        if not hasattr(self, '_rcache'):
            import weakref
            self._rcache = weakref.WeakKeyDictionary()       # keyed by the call node object (ids are reused after collection)
        r = self._rcache.get(call)
        if r is None:
            r = self._resolve(f, call)
            self._rcache[call] = r
        return r

    def _resolve(self, f: FuncInfo, call: ast.Call) -> List[Target]:
        prog = self.prog
        fn = call.func
        m = f.module
        if isinstance(fn, ast.Name):
            r = prog.resolve_name(f, m, fn.id)
            if r[0] == 'func':
                return [Target(r[1])]
            if r[0] == 'class':
                return self.ctor_targets(r[1])
            if r[0] == 'local':
                # a local bound to a function value (parameter thunk etc.): unresolved here
                return [Target(None, external=f"<local {fn.id}>", certain=False)]
            if r[0] == 'global':
                gm, gname = r[1]
                v = gm.globals_assigned.get(gname)
                if isinstance(v, ast.Name):
                    r2 = prog.resolve_global(gm, v.id)
                    if r2 and r2[0] == 'func':
                        return [Target(r2[1])]
                return [Target(None, external=fn.id)]
            return [Target(None, external=r[1] if isinstance(r[1], str) else fn.id)]
        if isinstance(fn, ast.Attribute):
            attr = fn.attr
            recv = fn.value
            # super().m()
            if isinstance(recv, ast.Call) and isinstance(recv.func, ast.Name) and recv.func.id == 'super' and f.cls is not None:
                for c in prog.mro(f.cls)[1:]:
                    if attr in c.methods:
                        return [Target(c.methods[attr], bound=True)]
                return [Target(None, external=f"super().{attr}")]
            chain = attr_chain(recv)
            if chain:
                head = chain[0]
                r = prog.resolve_name(f, m, head)
                # module.func / module.sub.func / module.Class(...)
                if r[0] == 'module':
                    modname = r[1]
                    for part in chain[1:]:
                        sub = f"{modname}.{part}"
                        if sub in prog.modules:
                            modname = sub
                        elif modname in prog.modules:
                            r3 = prog.resolve_global(prog.modules[modname], part)
                            if r3 and r3[0] == 'module':
                                modname = r3[1]
                            elif r3 and r3[0] == 'class':
                                return self._class_attr_call(r3[1], attr)
                            else:
                                return [Target(None, external='.'.join(chain + [attr]))]
                        else:
                            modname = f"{modname}.{part}"
                    if modname in prog.modules:
                        r2 = prog.resolve_global(prog.modules[modname], attr)
                        if r2 and r2[0] == 'func':
                            return [Target(r2[1])]
                        if r2 and r2[0] == 'class':
                            return self.ctor_targets(r2[1])
                    return [Target(None, external=f"{modname}.{attr}")]
                if r[0] == 'class' and len(chain) == 1:
                    return self._class_attr_call(r[1], attr)
                if r[0] == 'external' or r[0] == 'builtin':
                    return [Target(None, external='.'.join(chain + [attr]))]
                if len(chain) == 1 and r[0] == 'local':
                    classes = self.var_classes(f, head)
                    if classes:
                        return self._method_targets(classes, attr)
            return self._cha(attr)
        return [Target(None, external=norm(fn), certain=False)]

    def _class_attr_call(self, ci: ClassInfo, attr: str) -> List[Target]:
        mth = self.prog.find_method(ci, attr)
        if mth is not None:
            return [Target(mth, bound=not mth.is_static and False)]
        if attr == 'apply':
            fwd = self.prog.find_method(ci, 'forward')
            if fwd is not None:
                return [Target(fwd, bound=True)]     # torch supplies the context object as first argument
        al = self.prog.class_attr_alias(ci, attr)
        if al is not None:
            return [Target(None, external=norm(al))]
        return [Target(None, external=f"{ci.name}.{attr}")]

    def _method_targets(self, classes: List[ClassInfo], attr: str) -> List[Target]:
        out: List[Target] = []
        seen: Set[str] = set()
        for ci in classes:
            for c in [ci] + self.prog.subclasses(ci, strict=True):
                mth = self.prog.find_method(c, attr)
                if mth is not None:
                    if mth.fq() not in seen:
                        seen.add(mth.fq()); out.append(Target(mth, bound=True))
                else:
                    al = self.prog.class_attr_alias(c, attr)
                    if al is not None:
                        k = 'alias:' + norm(al)
                        if k not in seen:
                            seen.add(k); out.append(Target(None, external=norm(al)))
        if not out:
            out.append(Target(None, external=f"?.{attr}", certain=False))
        return out

    def _cha(self, attr: str) -> List[Target]:
        ms = self.prog.methods_named(attr)
        out = [Target(x, bound=True, certain=False) for x in ms]
        out.append(Target(None, external=f"?.{attr}", certain=False))
        return out
