"""Statement-level control-flow graph for one function (hand built; stdlib has none).

Node kinds: entry, exit (normal return / fall off), raise_exit, stmt (simple statement), test (if/while test),
for (loop header), with, except (handler entry), return, raise, break, continue, assert.
Edge labels: next, true, false, iter, exhaust, break, continue, return, raise, exc (may-raise into a handler).
"""
from __future__ import annotations
import ast
from dataclasses import dataclass, field
from typing import Dict, List, Optional, Set, Tuple, Callable, Iterable


@dataclass
class Node:
    id: int
    kind: str
    stmt: Optional[ast.AST] = None        # the statement (or the compound statement for test/for)
    expr: Optional[ast.AST] = None        # the test / iter expression where relevant
    loops: Tuple[int, ...] = ()            # ids of enclosing loop header nodes (outermost first)

    @property
    def lineno(self) -> int:
        return getattr(self.stmt, 'lineno', 0) if self.stmt is not None else 0


class CFG:
    def __init__(self, body: List[ast.stmt]):
        self.nodes: Dict[int, Node] = {}
        self.succ: Dict[int, List[Tuple[int, str]]] = {}
        self.pred: Dict[int, List[Tuple[int, str]]] = {}
        self._n = 0
        self.entry = self._new('entry')
        self.exit = self._new('exit')
        self.raise_exit = self._new('raise_exit')
        self.stmt_node: Dict[int, int] = {}     # id(ast stmt) -> node id (header node for compound statements)
        self.loop_body: Dict[int, Set[int]] = {}  # loop header node -> node ids in the body (incl. orelse excluded)
        first = self._seq(body, self.exit, _Ctx(None, None, [], ()))
        self._edge(self.entry, first, 'next')

    # -------------------------------------------------------------- construction
    def _new(self, kind: str, stmt=None, expr=None, loops=()) -> int:
        i = self._n; self._n += 1
        self.nodes[i] = Node(i, kind, stmt, expr, tuple(loops))
        self.succ[i] = []; self.pred[i] = []
        if stmt is not None and id(stmt) not in self.stmt_node:
            self.stmt_node[id(stmt)] = i
        return i

    def _edge(self, a: int, b: int, label: str) -> None:
        if (b, label) not in self.succ[a]:
            self.succ[a].append((b, label))
            self.pred[b].append((a, label))

    def _exc_edges(self, n: int, ctx: "_Ctx") -> None:
        for h in ctx.handlers:
            ht = self.nodes[h].expr
            if isinstance(ht, ast.Name) and ht.id == '__inline_return__':
                continue            # the handler of a synthetic jump catches nothing else
            self._edge(n, h, 'exc')

    def _seq(self, stmts: List[ast.stmt], follow: int, ctx: "_Ctx") -> int:
        entry = follow
        for st in reversed(stmts):
            entry = self._stmt(st, entry, ctx)
        return entry

    def _stmt(self, st: ast.stmt, follow: int, ctx: "_Ctx") -> int:
        L = ctx.loops
        if isinstance(st, ast.If):
            t = self._new('test', st, st.test, L)
            self._exc_edges(t, ctx)
            self._edge(t, self._seq(st.body, follow, ctx), 'true')
            self._edge(t, self._seq(st.orelse, follow, ctx), 'false')
            return t
        if isinstance(st, ast.While):
            t = self._new('test', st, st.test, L)
            self._exc_edges(t, ctx)
            inner = _Ctx(follow, t, ctx.handlers, L + (t,))
            before = self._n
            self._edge(t, self._seq(st.body, t, inner), 'true')
            self.loop_body[t] = set(range(before, self._n))
            const_true = isinstance(st.test, ast.Constant) and bool(st.test.value) is True
            if not const_true:
                self._edge(t, self._seq(st.orelse, follow, ctx), 'false')
            return t
        if isinstance(st, (ast.For, ast.AsyncFor)):
            h = self._new('for', st, st.iter, L)
            self._exc_edges(h, ctx)
            inner = _Ctx(follow, h, ctx.handlers, L + (h,))
            before = self._n
            self._edge(h, self._seq(st.body, h, inner), 'iter')
            self.loop_body[h] = set(range(before, self._n))
            self._edge(h, self._seq(st.orelse, follow, ctx), 'exhaust')
            return h
        if isinstance(st, (ast.With, ast.AsyncWith)):
            w = self._new('with', st, None, L)
            self._exc_edges(w, ctx)
            self._edge(w, self._seq(st.body, follow, ctx), 'next')
            return w
        if isinstance(st, ast.Try) or (hasattr(ast, 'TryStar') and isinstance(st, getattr(ast, 'TryStar'))):
            after = follow
            if st.finalbody:
                after = self._seq(st.finalbody, follow, ctx)
            handler_entries = []
            for h in st.handlers:
                hn = self._new('except', h, h.type, L)
                self._edge(hn, self._seq(h.body, after, ctx), 'next')
                handler_entries.append(hn)
            inner = _Ctx(ctx.break_to, ctx.continue_to, handler_entries + list(ctx.handlers), L)
            else_entry = self._seq(st.orelse, after, ctx)
            body_entry = self._seq(st.body, else_entry, inner)
            return body_entry
        if isinstance(st, ast.Return):
            n = self._new('return', st, st.value, L)
            self._exc_edges(n, ctx)
            self._edge(n, self.exit, 'return')
            return n
        if isinstance(st, ast.Raise) and isinstance(st.exc, ast.Name) and st.exc.id == '__inline_return__':
            # synthetic jump out of an inlined helper body (sa/inline.py): one edge, to its own handler; not a raise
            n = self._new('jump', st, None, L)
            for h in ctx.handlers:
                ht = self.nodes[h].expr
                if isinstance(ht, ast.Name) and ht.id == '__inline_return__':
                    self._edge(n, h, 'jump')
                    break
            return n
        if isinstance(st, ast.Raise):
            n = self._new('raise', st, st.exc, L)
            if ctx.handlers:
                for h in ctx.handlers:
                    if isinstance(self.nodes[h].expr, ast.Name) and self.nodes[h].expr.id == '__inline_return__':
                        continue
                    self._edge(n, h, 'raise')
            self._edge(n, self.raise_exit, 'raise')
            return n
        if isinstance(st, ast.Break):
            n = self._new('break', st, None, L)
            self._edge(n, ctx.break_to if ctx.break_to is not None else follow, 'break')
            return n
        if isinstance(st, ast.Continue):
            n = self._new('continue', st, None, L)
            self._edge(n, ctx.continue_to if ctx.continue_to is not None else follow, 'continue')
            return n
        if isinstance(st, ast.Assert) and isinstance(st.test, ast.Constant) and not st.test.value:
            # `assert False`: the author's "cannot happen" marker; modelled as a raise
            n = self._new('raise', st, None, L)
            if ctx.handlers:
                for h in ctx.handlers:
                    if isinstance(self.nodes[h].expr, ast.Name) and self.nodes[h].expr.id == '__inline_return__':
                        continue
                    self._edge(n, h, 'raise')
            self._edge(n, self.raise_exit, 'raise')
            return n
        if isinstance(st, ast.Assert):
            n = self._new('assert', st, st.test, L)
            self._exc_edges(n, ctx)
            self._edge(n, follow, 'next')
            return n
        if hasattr(ast, 'Match') and isinstance(st, ast.Match):
            t = self._new('test', st, st.subject, L)
            for case in st.cases:
                self._edge(t, self._seq(case.body, follow, ctx), 'true')
            self._edge(t, follow, 'false')
            return t
        n = self._new('stmt', st, None, L)
        self._exc_edges(n, ctx)
        self._edge(n, follow, 'next')
        return n

    # -------------------------------------------------------------- queries
    def node_of(self, st: ast.AST) -> Optional[int]:
        return self.stmt_node.get(id(st))

    def successors(self, n: int, skip_labels: Iterable[str] = ()) -> List[int]:
        return [b for b, l in self.succ[n] if l not in skip_labels]

    def reachable(self, start: Iterable[int], stop: Callable[[int], bool] = lambda n: False,
                  skip_labels: Iterable[str] = ('exc',), skip_edges: Iterable[Tuple[int, str]] = ()) -> Set[int]:
        """Nodes reachable from start without passing *through* a stop node (stop nodes themselves are included)."""
        skip_edges = set(skip_edges)
        seen: Set[int] = set()
        work = list(start)
        while work:
            n = work.pop()
            if n in seen:
                continue
            seen.add(n)
            if stop(n):
                continue
            for b, l in self.succ[n]:
                if l in skip_labels or (n, l) in skip_edges:
                    continue
                work.append(b)
        return seen

    def reaches(self, a: int, b: int, **kw) -> bool:
        return b in self.reachable([a], **kw)

    def dominators(self) -> Dict[int, Set[int]]:
        alln = set(self.reachable([self.entry], skip_labels=()))
        dom = {n: set(alln) for n in alln}
        dom[self.entry] = {self.entry}
        changed = True
        order = sorted(alln)
        while changed:
            changed = False
            for n in order:
                if n == self.entry:
                    continue
                preds = [p for p, _ in self.pred[n] if p in alln]
                new = set.intersection(*(dom[p] for p in preds)) if preds else set()
                new = new | {n}
                if new != dom[n]:
                    dom[n] = new; changed = True
        return dom

    def all_paths_pass(self, start: int, pred: Callable[[int], bool], targets: Optional[Set[int]] = None,
                       skip_labels: Iterable[str] = ('exc',), skip_edges: Iterable[Tuple[int, str]] = ()) -> Tuple[bool, Optional[List[int]]]:
        """Does every path from start to a target (default: normal exit) pass through a node satisfying pred?
        Returns (ok, witness path avoiding pred)."""
        targets = targets if targets is not None else {self.exit}
        skip_edges = set(skip_edges)
        parent: Dict[int, Optional[int]] = {start: None}
        work = [start]
        while work:
            n = work.pop()
            if pred(n):
                continue
            if n in targets:
                path = []
                while n is not None:
                    path.append(n); n = parent[n]
                return False, list(reversed(path))
            for b, l in self.succ[n]:
                if l in skip_labels or (n, l) in skip_edges or b in parent:
                    continue
                parent[b] = n
                work.append(b)
        return True, None

    def stmts(self) -> Iterable[Node]:
        return [n for n in self.nodes.values() if n.stmt is not None]

    def describe(self, n: int) -> str:
        nd = self.nodes[n]
        if nd.stmt is None:
            return nd.kind
        try:
            if nd.kind in ('test',):
                txt = 'if/while ' + ast.unparse(nd.expr)
            elif nd.kind == 'for':
                txt = f"for {ast.unparse(nd.stmt.target)} in {ast.unparse(nd.expr)}"
            elif nd.kind == 'except':
                txt = 'except ' + (ast.unparse(nd.expr) if nd.expr is not None else '')
            elif nd.kind == 'with':
                txt = 'with ...'
            else:
                txt = ast.unparse(nd.stmt).split('\n')[0]
        except Exception:
            txt = nd.kind
        return f"L{nd.lineno}: {txt[:100]}"


@dataclass
class _Ctx:
    break_to: Optional[int]
    continue_to: Optional[int]
    handlers: List[int]
    loops: Tuple[int, ...]


import weakref
_cache: "weakref.WeakKeyDictionary" = weakref.WeakKeyDictionary()


def cfg_of(func) -> CFG:
    """CFG of a FuncInfo, cached per AST node object (weakly: an id()-keyed table would hand a stale graph to a new node that
    happens to reuse the address of a collected one -- views of functions are created and dropped all the time)."""
    node = func.node
    c = _cache.get(node)
    if c is None:
        c = CFG(func.body)
        _cache[node] = c
    return c
