"""CLI: /venv/bin/python -m sa.check <ID> [--tier quick|thorough] [--repo PATH] [--replay FILE]

exit 0: all obligations discharged (or only known findings); exit 1: VIOLATION; exit 2: ANALYSIS-ERROR.
"""
from __future__ import annotations
import argparse, importlib, json, os, sys, traceback

from .model import Program, AnalysisError
from .report import Report

PROPS = ['C01', 'C02', 'C04', 'C05', 'C06', 'C07', 'C08', 'C09', 'C10', 'C11',
         'C13', 'C14', 'C15', 'C16', 'C17', 'C18', 'C19', 'C20']


def run_property(pid: str, tier: str, repo: str) -> Report:
    rep = Report(pid, tier, repo)
    try:
        prog = Program(repo)
        rep.analysed.update(prog.stats())
        rep.analysed['source_digest'] = prog.digest()
        mod = importlib.import_module(f"sa.props.{pid.lower()}")
        mod.run(prog, rep, tier)
    except AnalysisError as e:
        rep.error(str(e))
    except Exception as e:  # analyser crash is never a verdict
        tb = traceback.format_exc().strip().splitlines()
        rep.error(f"analyser crashed: {type(e).__name__}: {e} @ {tb[-3].strip() if len(tb) >= 3 else ''}")
        if os.environ.get('SA_DEBUG'):
            traceback.print_exc()
    if tier == 'thorough' and not os.environ.get('SA_NO_ALIAS'):
        # second view of the same sources: without the alias normalisation (sa/inline.py normalize_aliases).  A verdict must
        # not depend on the normalisation: every violation or error of the second view is added to the report.
        os.environ['SA_NO_ALIAS'] = '1'
        try:
            rep2 = Report(pid, tier, repo)
            try:
                prog2 = Program(repo)
                importlib.import_module(f"sa.props.{pid.lower()}").run(prog2, rep2, tier)
            except AnalysisError as e:
                rep2.error(str(e))
            except Exception as e:
                rep2.error(f"analyser crashed (raw view): {type(e).__name__}: {e}")
            have = {o.key_hash() for o in rep.obligations if not o.ok}
            extra = [o for o in rep2.obligations if not o.ok and o.key_hash() not in have]
            for o in extra:
                o.detail = '[raw view, aliases not read through] ' + o.detail
                rep.obligations.append(o)
            for e in rep2.errors:
                if e not in rep.errors:
                    rep.errors.append('[raw view] ' + e)
            rep.analysed['second_view_obligations'] = len(rep2.obligations)
            rep.notes.append(f"thorough tier: the rules were evaluated on two views of the program (selector aliases read through / left as written): "
                             f"{len(rep.obligations) - len(extra)} + {len(rep2.obligations)} obligations, {len(extra)} failing only in the second view")
        finally:
            del os.environ['SA_NO_ALIAS']
    return rep


def main(argv=None) -> int:
    ap = argparse.ArgumentParser()
    ap.add_argument('prop')
    ap.add_argument('--tier', default=os.environ.get('VERIF_TIER') or 'quick', choices=['quick', 'thorough'])
    ap.add_argument('--repo', default=os.environ.get('SA_REPO', '/repo'))
    ap.add_argument('--replay', default=None)
    args = ap.parse_args(argv)
    pid = args.prop.upper()
    if pid not in PROPS:
        print(f"ANALYSIS-ERROR property={pid} no static check is claimed for this property")
        return 2
    if args.replay:
        os.environ['SA_NO_EVIDENCE'] = '1'
        with open(args.replay) as f:
            want = json.load(f)
        rep = run_property(pid, args.tier, args.repo)
        hit = [o for o in rep.obligations if not o.ok and o.key() == want['key']]
        if hit:
            o = hit[0]
            print(f"replay: obligation still fails: [{o.rule}] {o.loc} {o.where}: {o.construct}\n   {o.detail}")
            print(f"VIOLATION property={pid} replay={args.replay}")
            return 1
        if rep.errors:
            for e in rep.errors:
                print(f"ANALYSIS-ERROR property={pid} {e}")
            return 2
        print('replay: obligation no longer fails on the current tree')
        return 0
    if os.path.realpath(args.repo) != os.path.realpath('/repo'):
        os.environ['SA_NO_EVIDENCE'] = '1'      # evidence/<id>.json describes runs against /repo only
    rep = run_property(pid, args.tier, args.repo)
    return rep.finish()


if __name__ == '__main__':
    sys.exit(main())
