"""Validation of the checker itself (never part of a property verdict):

  python -m sa.selftest [--jobs N] [--only SUBSTR]

* firing   : scratch-copy variants with one instance broken must be reported (VIOLATION) by the named property check;
             reversions of every `fix:` commit of /repo are generated automatically (git apply -R on a scratch copy);
* silence  : behaviour-preserving variants must produce neither VIOLATION nor ANALYSIS-ERROR;
* tables   : the transfer tables of sa/absint/domain.py are compared with real torch / math on every representative
             (the only place torch is imported; skipped if torch is unavailable).
Scratch copies live under $TMPDIR/fggs-sa-* and are deleted after each variant.
"""
from __future__ import annotations
import argparse, json, os, shutil, subprocess, sys, tempfile, time
from concurrent.futures import ProcessPoolExecutor
from typing import Dict, List, Optional, Tuple

REPO = os.environ.get('SA_REPO', '/repo')
HERE = os.path.dirname(os.path.dirname(os.path.abspath(__file__)))


def make_copy(repo: str) -> str:
    d = tempfile.mkdtemp(prefix='fggs-sa-')
    for sub in ('fggs', 'bin'):
        shutil.copytree(os.path.join(repo, sub), os.path.join(d, sub), ignore=shutil.ignore_patterns('__pycache__'))
    for f in ('README.md',):
        if os.path.exists(os.path.join(repo, f)):
            shutil.copy(os.path.join(repo, f), os.path.join(d, f))
    return d


def run_checks(copy: str, props: List[str]) -> Dict[str, Tuple[int, List[str]]]:
    os.environ['SA_NO_EVIDENCE'] = '1'
    sys.path.insert(0, HERE)
    from sa.check import run_property
    from sa.report import load_known, match_known
    out = {}
    for p in props:
        rep = run_property(p, 'quick', copy)
        known = load_known()
        viol = [o for o in rep.obligations if not o.ok and match_known(known, p, o) is None]
        code = 1 if viol else (2 if rep.errors else 0)
        out[p] = (code, [f"[{o.rule}] {o.where}: {o.construct}"[:160] for o in viol] + [f"ERROR {e}"[:200] for e in rep.errors])
    return out


def run_variant(v: Dict) -> Dict:
    t0 = time.time()
    copy = make_copy(REPO)
    try:
        if 'revert' in v:
            patch = subprocess.run(['git', '-C', REPO, 'show', '--format=', v['revert'], '--', 'fggs', 'bin'], capture_output=True, text=True).stdout
            r = subprocess.run(['patch', '-R', '-p1', '--no-backup-if-mismatch', '-s', '-d', copy], input=patch, capture_output=True, text=True)
            if r.returncode != 0:
                return {**v, 'status': 'SKIP', 'detail': 'reverse patch does not apply: ' + (r.stdout + r.stderr)[:200], 'wall': time.time() - t0}
        for mv in v.get('moves', []):
            # code motion: cut a top-level definition out of one module into another (new) one and import it back
            import ast as _ast
            src_path = os.path.join(copy, mv['from'])
            text = open(src_path).read()
            node = [n for n in _ast.parse(text).body if getattr(n, 'name', None) == mv['name']][0]
            lines = text.split('\n')
            first = min([node.lineno] + [d.lineno for d in getattr(node, 'decorator_list', [])]) - 1
            cut = lines[first:node.end_lineno]
            modto = mv['to'][:-3].replace('/', '.')
            lines[first:node.end_lineno] = [f"from {modto} import {mv['name']}"]
            open(src_path, 'w').write('\n'.join(lines))
            with open(os.path.join(copy, mv['to']), 'a') as f:
                f.write(mv.get('header', '') + '\n'.join(cut) + '\n')
        for ed in v.get('edits', []):
            path = os.path.join(copy, ed['file'])
            s = open(path).read()
            if s.count(ed['old']) != 1:
                return {**v, 'status': 'SKIP', 'detail': f"anchor text occurs {s.count(ed['old'])} times in {ed['file']}: {ed['old'][:60]!r}", 'wall': time.time() - t0}
            open(path, 'w').write(s.replace(ed['old'], ed['new']))
        # the variant must still compile
        for ed in v.get('edits', []):
            subprocess.check_call([sys.executable, '-m', 'py_compile', os.path.join(copy, ed['file'])], stdout=subprocess.DEVNULL)
        res = run_checks(copy, v['props'])
        want = v['expect']
        ok = True; details = []
        for p, (code, msgs) in res.items():
            if want == 'violation':
                hit = code == 1 and (not v.get('mention') or any(v['mention'] in m for m in msgs))
                ok = ok and hit
            elif want == 'nonzero':
                ok = ok and code != 0
            else:
                ok = ok and code == 0
            details.append(f"{p}: exit {code} " + ' | '.join(msgs[:3]))
        return {**v, 'status': 'PASS' if ok else 'FAIL', 'detail': '; '.join(details), 'wall': time.time() - t0}
    except Exception as e:
        return {**v, 'status': 'FAIL', 'detail': f"{type(e).__name__}: {e}", 'wall': time.time() - t0}
    finally:
        shutil.rmtree(copy, ignore_errors=True)


def fix_commits() -> List[Tuple[str, str]]:
    out = subprocess.run(['git', '-C', REPO, 'log', '--format=%h %s'], capture_output=True, text=True).stdout
    return [(l.split(' ', 1)[0], l.split(' ', 1)[1]) for l in out.splitlines() if l.split(' ', 1)[1].startswith('fix:')]


def load_variants() -> List[Dict]:
    vs: List[Dict] = []
    with open(os.path.join(HERE, 'selftest', 'variants.json')) as f:
        data = json.load(f)
    vs += data['variants']
    fixmap = data.get('fix_commit_properties', {})
    for h, subj in fix_commits():
        props = None
        for key, ps in fixmap.items():
            if key in subj:
                props = ps
        if props is None:
            vs.append({'name': f"revert {h} {subj[:50]}", 'props': [], 'expect': 'violation', 'revert': h, 'unmapped': True})
        else:
            vs.append({'name': f"revert {h} {subj[:60]}", 'props': props, 'expect': 'violation', 'revert': h})
    return vs


def check_tables() -> Tuple[int, int, List[str]]:
    try:
        import torch, math
    except Exception:
        return 0, 0, ['torch not importable: table validation skipped']
    sys.path.insert(0, HERE)
    from sa.absint import domain as D
    bad: List[str] = []
    n = 0
    un = {'neg': torch.neg, 'abs': torch.abs, 'relu': torch.relu, 'exp': torch.exp, 'expm1': torch.expm1, 'log': torch.log, 'log1p': torch.log1p,
          'reciprocal': torch.reciprocal}
    bi = {'add': torch.add, 'sub': torch.sub, 'mul': torch.mul, 'div': torch.div, 'logaddexp': torch.logaddexp, 'maximum': torch.maximum,
          'minimum': torch.minimum, 'lt': torch.lt, 'le': torch.le, 'gt': torch.gt, 'ge': torch.ge, 'eq': torch.eq}
    vals = [v for c in D.NUM_CLASSES for v in D.SAMPLES[c]]
    def same(a, b):
        if isinstance(b, bool) or isinstance(a, bool): return bool(a) == bool(b)
        if math.isnan(a) or math.isnan(b): return math.isnan(a) and math.isnan(b)
        return D.classify(a) == D.classify(b) and (a == b or abs(a - b) <= 1e-9 * max(1.0, abs(a), abs(b)))
    for name, f in un.items():
        for v in vals:
            n += 1
            got = D.TORCH[name](v); ref = f(torch.tensor(v, dtype=torch.float64)).item()
            if not same(got, ref): bad.append(f"{name}({v}) table {got} torch {ref}")
    for name, f in bi.items():
        for a in vals:
            for b in vals:
                n += 1
                got = D.TORCH[name](a, b); ref = f(torch.tensor(a, dtype=torch.float64), torch.tensor(b, dtype=torch.float64)).item()
                if not same(got, ref): bad.append(f"{name}({a},{b}) table {got} torch {ref}")
    for v in vals:
        for kw in ({}, {'nan': 0.0, 'posinf': math.inf}, {'nan': -math.inf, 'posinf': math.inf, 'neginf': -math.inf}):
            n += 1
            got = D.t_nan_to_num(v, **kw); ref = torch.nan_to_num(torch.tensor(v, dtype=torch.float64), **kw).item()
            if not same(got, ref): bad.append(f"nan_to_num({v},{kw}) table {got} torch {ref}")
    # python scalar raises
    for name, f in (('log', math.log), ('log1p', math.log1p), ('exp', math.exp), ('expm1', math.expm1)):
        for v in vals:
            n += 1
            try: ref = f(v); rz = False
            except (ValueError, OverflowError): rz = True
            try: got = D.PY[name](v); gz = False
            except D.PyRaise: gz = True
            if rz != gz or (not rz and not same(got, ref)): bad.append(f"py {name}({v}) table raises={gz} python raises={rz}")
    return n, len(bad), bad[:10]


def check_soundness(points=(), n_random: int = 60) -> Tuple[int, int, List[str]]:
    """Abstract transfer tables over-approximate torch: for random concrete arguments, the class of torch's result lies in the
    table entry of the arguments' classes (this is the soundness half the sampled tables cannot show about themselves)."""
    try:
        import torch, math, random
    except Exception:
        return 0, 0, ['torch not importable']
    from sa.absint import domain as D
    D.refine(points)
    try:
        rnd = random.Random(7)
        vals: List[float] = []
        for c in D.NUM_CLASSES:
            lo, hi = D.class_bounds(c) if c != 'NAN' else (math.nan, math.nan)
            if c in D.SINGLETONS or c == 'NAN' or lo == hi:
                vals.append(D.SAMPLES[c][0]); continue
            for _ in range(n_random // len(D.NUM_CLASSES) + 3):
                if math.isinf(lo): v = hi - math.exp(rnd.uniform(-30, 300))
                elif math.isinf(hi): v = lo + math.exp(rnd.uniform(-30, 300))
                else: v = lo + (hi - lo) * rnd.choice([rnd.random(), 10 ** rnd.uniform(-17, 0), 1 - 10 ** rnd.uniform(-17, 0)])
                if D.classify(v) == c: vals.append(v)
        un = {'neg': torch.neg, 'abs': torch.abs, 'relu': torch.relu, 'exp': torch.exp, 'expm1': torch.expm1, 'log': torch.log, 'log1p': torch.log1p,
              'reciprocal': torch.reciprocal}
        bi = {'add': torch.add, 'sub': torch.sub, 'mul': torch.mul, 'div': torch.div, 'logaddexp': torch.logaddexp, 'maximum': torch.maximum,
              'minimum': torch.minimum}
        bad: List[str] = []; n = 0
        T = lambda v: torch.tensor(v, dtype=torch.float64)
        for name, f in un.items():
            for v in vals:
                n += 1
                ref = f(T(v)).item()
                out, _ = D.table_entry(name, 'tensor', (D.classify(v),))
                if D.classify(ref) not in out: bad.append(f"{name}({v!r}) = {ref!r} in {D.classify(ref)} not in table {sorted(out)}")
        for name, f in bi.items():
            for a in vals:
                for b in vals:
                    n += 1
                    ref = f(T(a), T(b)).item()
                    out, _ = D.table_entry(name, 'tensor', (D.classify(a), D.classify(b)))
                    if D.classify(ref) not in out: bad.append(f"{name}({a!r},{b!r}) = {ref!r} in {D.classify(ref)} not in table {sorted(out)}")
        return n, len(bad), bad[:10]
    finally:
        D.refine([])


def main() -> int:
    ap = argparse.ArgumentParser()
    ap.add_argument('--jobs', type=int, default=min(16, os.cpu_count() or 4))
    ap.add_argument('--only', default=None)
    ap.add_argument('--no-tables', action='store_true')
    args = ap.parse_args()
    vs = load_variants()
    if args.only:
        vs = [v for v in vs if args.only in v['name'] or args.only in ' '.join(v['props'])]
    t0 = time.time()
    with ProcessPoolExecutor(max_workers=args.jobs) as ex:
        results = list(ex.map(run_variant, vs))
    fails = 0
    for r in results:
        if r.get('unmapped'):
            print(f"UNMAPPED {r['name']}: add the fix commit to selftest/variants.json fix_commit_properties")
            fails += 1; continue
        print(f"{r['status']:5} [{r['expect']:9}] {r['name']}  ({r['wall']:.1f}s)\n        {r['detail'][:400]}")
        if r['status'] == 'FAIL':
            fails += 1
    print(f"{len(results)} variants, {sum(r['status'] == 'PASS' for r in results)} pass, {fails} fail, {sum(r['status'] == 'SKIP' for r in results)} skipped; wall {time.time() - t0:.1f}s")
    if not args.no_tables and not args.only:
        n, nb, ex_ = check_tables()
        print(f"transfer tables vs torch/math: {n} points compared, {nb} disagreements {ex_}")
        fails += nb
        for pts in ((), (-2.0, -0.5, 0.5, 2.0)):
            n, nb, ex_ = check_soundness(pts)
            print(f"abstract tables over-approximate torch (partition cut points +{list(pts)}): {n} random points, {nb} escapes {ex_}")
            fails += nb
    return 1 if fails else 0


if __name__ == '__main__':
    sys.exit(main())
