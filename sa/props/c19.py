"""C19 -- SCCs: the dependency graph has every nonterminal as a vertex and an edge for every nonterminal rhs edge of
every rule; scc starts a visit from every unvisited vertex and returns components as emitted; the consumers iterate that
result directly and store a value for every label of every component."""
from __future__ import annotations
import ast
from typing import Dict, List
from ..model import Program, AnalysisError, own_nodes, norm, names_in
from ..cfg import cfg_of
from ..guards import Env, walk, collect_atoms, valuations, iff_table
from ..report import Report
from ..util import inline_temps, callee_last, enclosing_stmt, parents

UT = 'fggs.utils'


def run(prog: Program, rep: Report, tier: str) -> None:
    rep.rule('C19-D1', 'vertex/edge-source coverage: nonterminal_graph takes its vertices from the unfiltered nonterminals() registry and adds X->Y for an rhs edge of a rule of X iff the edge label Y is a nonterminal (truth table), over all_rules() x rhs.edges() without filtering')
    rep.rule('C19-D2', 'scc protocol: the outer loop ranges over the whole graph and starts a visit iff the vertex is unvisited; a visit recurses into every unvisited successor; every vertex is pushed once at visit entry; components are appended in emission order and returned as built')
    rep.rule('C19-D3', 'consumers: sum_products and viterbi iterate scc(nonterminal_graph(fgg)) directly (no reverse/sort/filter) and store a value for every label of every component before the next component is processed; every name the per-component loop body binds and reads is bound on all paths of the same iteration before the read (no flag, option set or result carried over from the previous component; inner for-loops assumed to run at least once)')
    rep.not_decided += ["correctness of Tarjan's lowlink bookkeeping (an algorithm-template match would be a frozen-fragment rule)"]
    ng = prog.func(UT, 'nonterminal_graph')
    p0 = ng.positional_params()[0]
    # vertices
    comps = [n for n in own_nodes(ng.node) if isinstance(n, (ast.DictComp,))]
    ok = False
    for c in comps:
        g = c.generators[0]
        if len(c.generators) == 1 and norm(g.iter) == f"{p0}.nonterminals()" and not g.ifs and norm(c.key) == norm(g.target):
            ok = True
    rep.ob('C19-D1 vertex-coverage', ng.fq(), f"vertices = {{x: ... for x in {p0}.nonterminals()}}", ng.loc(), ok,
           'every nonterminal (with or without rules) is a vertex' if ok else 'the vertex set is not the unfiltered nonterminals() registry')
    # edges
    cfg = cfg_of(ng)
    loops = [n for n in own_nodes(ng.node) if isinstance(n, ast.For)]
    rl = [l for l in loops if norm(l.iter) == f"{p0}.all_rules()"]
    rep.ob('C19-D1 edge-coverage', ng.fq(), f"for r in {p0}.all_rules()", ng.loc(), bool(rl), '' if rl else 'no loop over all rules')
    found = 0
    for l in rl:
        r = norm(l.target)
        for il in [x for x in ast.walk(l) if isinstance(x, ast.For) and x is not l and norm(x.iter) == f"{r}.rhs.edges()"]:
            e = norm(il.target)
            hdr = cfg.node_of(il)
            be = [b for b, lab in cfg.succ[hdr] if lab == 'iter'][0]
            stores = [n for n in cfg.loop_body[hdr] if cfg.nodes[n].kind == 'stmt' and isinstance(cfg.nodes[n].stmt, ast.Assign)
                      and isinstance(cfg.nodes[n].stmt.targets[0], ast.Subscript)]
            atoms: Dict[str, ast.AST] = {}
            for n in cfg.loop_body[hdr]:
                if cfg.nodes[n].kind == 'test':
                    atoms.update(collect_atoms(cfg.nodes[n].expr))
            found += 1
            def role(t, a, e=e):
                if t == f"{e}.label.is_nonterminal": return 'nt'
                if t == f"{e}.label.is_terminal": return '!nt'
                return None
            bad, unknown = iff_table(cfg, be, hdr, atoms, role, lambda val: val.get('nt'), lambda reach: bool(set(stores) & reach))
            if not any(role(t, a) for t, a in atoms.items()):
                bad = bad or ['the guard never tests whether the edge label is a nonterminal']
            if unknown and bad:
                bad = [b + ' -- a dependency can be dropped by a condition unrelated to the label kind' for b in bad[:2]]
            # the store is g[r.lhs][e.label]
            tgt_ok = any(norm(inline_temps(il, cfg.nodes[n].stmt.targets[0])).endswith(f"[{r}.lhs][{e}.label]") for n in stores)
            rep.ob('C19-D1 edge-coverage', ng.fq(), f"g[{r}.lhs][{e}.label] recorded iff {e}.label is a nonterminal", ng.loc(il), not bad and tgt_ok,
                   '; '.join(bad) if bad else ('truth table agrees' if tgt_ok else 'the recorded edge is not lhs -> label of the rhs edge'))
    if found == 0:
        # dependencies recorded from another source than the edges of the right-hand side?
        for l in rl:
            r = norm(l.target)
            for il in [x for x in ast.walk(l) if isinstance(x, ast.For) and x is not l]:
                stores = [x for x in ast.walk(il) if isinstance(x, ast.Subscript) and isinstance(x.ctx, ast.Store) and norm(x).startswith(f"g[{r}.lhs]") or
                          isinstance(x, ast.Subscript) and isinstance(x.ctx, ast.Store) and f"{r}.lhs" in norm(x)]
                if stores and isinstance(il.iter, ast.Call) and callee_last(il.iter) in ('nonterminals', 'terminals', 'edge_labels'):
                    found += 1
                    rep.ob('C19-D1 edge-coverage', ng.fq(), f"for {norm(il.target)} in {norm(il.iter)}: dependency recorded", ng.loc(il), False,
                           f"dependencies are taken from the label table `{norm(il.iter)}`, not from the edges of the right-hand side: the table also holds labels whose edges were removed (or never added), so X->Y is recorded without a rule for X containing a Y edge")
    rep.floor('C19-D1 edge loops', found, 1)
    # D2 scc
    sc = prog.func(UT, 'scc')
    g0 = sc.positional_params()[0]
    scfg = cfg_of(sc)
    ol = [n for n in own_nodes(sc.node) if isinstance(n, ast.For) and norm(n.iter) in (g0, f"{g0}.keys()", f"list({g0})")]
    rep.floor('C19-D2 outer loop', len(ol), 1)
    visit_name = None
    for l in ol:
        hdr = scfg.node_of(l)
        v = norm(l.target)
        calls = [n for n in scfg.loop_body[hdr] if scfg.nodes[n].kind == 'stmt' and any(isinstance(x, ast.Call) and x.args and norm(x.args[0]) == v for x in ast.walk(scfg.nodes[n].stmt))]
        atoms = {}
        for n in scfg.loop_body[hdr]:
            if scfg.nodes[n].kind == 'test':
                atoms.update(collect_atoms(scfg.nodes[n].expr))
        be = [b for b, lab in scfg.succ[hdr] if lab == 'iter'][0]
        mem = [t for t, a in atoms.items() if isinstance(a, ast.Compare) and isinstance(a.ops[0], (ast.In, ast.NotIn)) and norm(a.left) == v]
        if len(atoms) != 1 or len(mem) != 1 or not calls:
            raise AnalysisError(f"C19-D2: {sc.loc(l)} outer loop of scc not recognised (guard {sorted(atoms)})")
        visited_set = norm(atoms[mem[0]].comparators[0])
        bad = []
        for env in valuations(mem):
            reach = walk(scfg, be, env, loop_header_stop=hdr, unknown='both')
            ex = bool(set(calls) & reach)
            if ex != (not env.atoms[mem[0]]): bad.append(f"{mem[0]}={env.atoms[mem[0]]}: visit started={ex}")
        rep.ob('C19-D2 scc-protocol', sc.fq(), f"for {v} in {norm(l.iter)}: visit({v}) iff {v} not in {visited_set}", sc.loc(l), not bad, '; '.join(bad) if bad else 'a visit starts from every unvisited vertex')
        for n in calls:
            for x in ast.walk(scfg.nodes[n].stmt):
                if isinstance(x, ast.Call) and isinstance(x.func, ast.Name) and x.args and norm(x.args[0]) == v and prog.has_func(UT, f"scc.{x.func.id}"):
                    visit_name = x.func.id
    if not (visit_name and prog.has_func(UT, f"scc.{visit_name}")):
        raise AnalysisError('C19-D2: the recursive visit function of scc was not found (the outer loop calls no local function with the vertex); idiom not recognised')
    if visit_name and prog.has_func(UT, f"scc.{visit_name}"):
        vf = prog.func(UT, f"scc.{visit_name}")
        vcfg = cfg_of(vf)
        v = vf.positional_params()[0]
        # visited marked + pushed unconditionally at entry
        first_loop = min([n.lineno for n in own_nodes(vf.node) if isinstance(n, (ast.For, ast.While))] or [10**9])
        marks = [n for n in own_nodes(vf.node) if isinstance(n, ast.Assign) and n.lineno < first_loop and any(isinstance(t, ast.Subscript) and norm(t.slice) == v for t in n.targets)]
        pushes = [n for n in own_nodes(vf.node) if isinstance(n, ast.Call) and callee_last(n) == 'append' and n.args and norm(n.args[0]) == v and n.lineno < first_loop]
        rep.ob('C19-D2 scc-protocol', vf.fq(), f"{v} is marked visited and pushed before its successors are explored", vf.loc(), bool(marks) and bool(pushes), '')
        # the discovery number is a counter over *all* visits (unique per vertex): the value stored at entry comes from a variable of
        # the enclosing scope (or a growing table's size) that every visit advances -- not from a parameter such as the depth
        vparams = set(vf.param_names())
        for mk in marks[:1]:
            src_names = {x.id for x in ast.walk(mk.value) if isinstance(x, ast.Name)}
            by_len = any(isinstance(x, ast.Call) and callee_last(x) == 'len' and x.args and norm(x.args[0]) == visited_set for x in ast.walk(mk.value))
            advanced = any(isinstance(x, ast.AugAssign) and isinstance(x.target, ast.Name) and x.target.id in src_names and isinstance(x.op, ast.Add) for x in own_nodes(vf.node)) \
                or any(isinstance(x, ast.Assign) and len(x.targets) == 1 and isinstance(x.targets[0], ast.Name) and x.targets[0].id in src_names
                       and isinstance(x.value, ast.BinOp) and isinstance(x.value.op, ast.Add) and x.targets[0].id in {y.id for y in ast.walk(x.value) if isinstance(y, ast.Name)} for x in own_nodes(vf.node))
            from_param = bool(src_names & vparams)
            okc = by_len or (advanced and not from_param)
            rep.ob('C19-D2 scc-protocol', vf.fq(), f"{norm(mk)[:60]}: discovery numbers come from one counter advanced by every visit", vf.loc(mk), okc,
                   'unique, increasing discovery numbers' if okc else
                   ('the number is taken from a parameter of the visit (the depth of the vertex, say): vertices in different subtrees share numbers, so an edge back into an earlier subtree does not lower the low-link' if from_param else
                    'no statement of the visit advances the counter the number is taken from'))
        # recursion into every unvisited successor
        sl = [n for n in own_nodes(vf.node) if isinstance(n, ast.For) and norm(n.iter) in (f"{g0}[{v}]", f"{g0}[{v}].keys()")]
        rep.floor('C19-D2 successor loop', len(sl), 1)
        for l in sl:
            hdr = vcfg.node_of(l)
            w = norm(l.target)
            rec = [n for n in vcfg.loop_body[hdr] if vcfg.nodes[n].kind == 'stmt' and any(isinstance(x, ast.Call) and isinstance(x.func, ast.Name) and x.func.id == visit_name and norm(x.args[0]) == w for x in ast.walk(vcfg.nodes[n].stmt))]
            be = [b for b, lab in vcfg.succ[hdr] if lab == 'iter'][0]
            atoms = {}
            for n in vcfg.loop_body[hdr]:
                if vcfg.nodes[n].kind == 'test':
                    atoms.update(collect_atoms(vcfg.nodes[n].expr))
            mem = [t for t, a in atoms.items() if isinstance(a, ast.Compare) and isinstance(a.ops[0], (ast.In, ast.NotIn)) and norm(a.left) == w and norm(a.comparators[0]) == visited_set]
            if len(mem) != 1:
                raise AnalysisError(f"C19-D2: {vf.loc(l)} successor loop does not test `{w} in {visited_set}`")
            bad = []
            for val in (True, False):
                reach = walk(vcfg, be, Env(atoms={mem[0]: val}), loop_header_stop=hdr, unknown='both')
                ex = bool(set(rec) & reach)
                if ex != (not val): bad.append(f"{mem[0]}={val}: recursion={ex}")
            rep.ob('C19-D2 scc-protocol', vf.fq(), f"for {w} in {norm(l.iter)}: recurse iff {w} unvisited", vf.loc(l), not bad, '; '.join(bad) if bad else 'every unvisited successor is explored')
        tarjan_lowlink(rep, prog, vf, visit_name, g0, visited_set)
    # emission order
    rets = [n.value for n in own_nodes(sc.node) if isinstance(n, ast.Return) and n.value is not None]
    ok = len(rets) == 1 and isinstance(rets[0], ast.Name)
    acc = rets[0].id if ok else None
    emits = []
    for f2 in [sc] + [c for c in sc.children]:
        for x in own_nodes(f2.node):
            if isinstance(x, ast.Call) and isinstance(x.func, ast.Attribute) and isinstance(x.func.value, ast.Name) and x.func.value.id == acc:
                emits.append(x.func.attr)
    ok = ok and emits and all(e == 'append' for e in emits)
    rep.ob('C19-D2 scc-protocol', sc.fq(), 'components are appended in emission order and returned as built', sc.loc(), bool(ok),
           f"operations on the result list: {emits}; returned: {norm(rets[0]) if rets else None}")
    # D3 consumers
    n_cons = 0
    n_state = 0
    for mod, fn in (('fggs.sum_product', 'sum_products'), ('fggs.viterbi', 'viterbi')):
        f = prog.func(mod, fn)
        fp = f.positional_params()[0]
        # the component list may be given a name first (`comps = scc(nonterminal_graph(fgg))` under a timing context manager)
        ls = [n for n in own_nodes(f.node) if isinstance(n, ast.For) and 'scc' in {callee_last(x) for x in ast.walk(inline_temps(f.node, n.iter)) if isinstance(x, ast.Call)}]
        for l in ls:
            n_cons += 1
            ok = norm(inline_temps(f.node, l.iter)) == f"scc(nonterminal_graph({fp}))"
            rep.ob('C19-D3 consumers', f.fq(), f"for {norm(l.target)} in {norm(l.iter)}", f.loc(l), ok,
                   'components are processed in the order scc returns them' if ok else 'the component list is reordered, filtered or built from something else than nonterminal_graph(<fgg>)')
            # every label of the component receives a value: an `.update(...)` on the table of computed values at the loop's top level, unconditionally
            cfgf = cfg_of(f)
            hdr = cfgf.node_of(l)
            be = [b for b, lab in cfgf.succ[hdr] if lab == 'iter'][0]
            comp = norm(l.target)
            def upd(n):
                st = cfgf.nodes[n].stmt
                return cfgf.nodes[n].kind == 'stmt' and any(isinstance(x, ast.Call) and callee_last(x) == 'update' for x in ast.walk(st))
            okp, _ = cfgf.all_paths_pass(be, upd, targets={hdr, cfgf.exit})
            rep.ob('C19-D3 consumers', f.fq(), f"values of component {comp} are stored before the next component", f.loc(l), okp, '' if okp else 'an iteration can finish without storing the component\'s values')
            # every component is processed: nothing leaves the loop early (a `break` once the start symbol's component is done
            # leaves every nonterminal in a later component -- the ones the start symbol does not reach -- without a value)
            body = cfgf.loop_body.get(hdr, set())
            inner_hdrs = {m for m in body if cfgf.nodes[m].kind in ('for', 'while') or (cfgf.nodes[m].kind == 'test' and isinstance(cfgf.nodes[m].stmt, ast.While))}
            def leaves(m):
                if cfgf.nodes[m].kind == 'return':
                    return True
                if cfgf.nodes[m].kind == 'break':
                    # a break of an inner loop stays inside this iteration
                    return not any(m in cfgf.loop_body.get(h, set()) for h in inner_hdrs)
                return False
            early = [m for m in body if leaves(m)]
            rep.ob('C19-D3 consumers', f.fq(), f"for {comp} in ...: no component is skipped by leaving the loop early", f.loc(l), not early,
                   'the loop runs over every component' if not early else
                   f"{cfgf.describe(early[0])} ends the loop before the remaining components are processed: their nonterminals receive no value")
            # what is computed for a component is computed from that component: no flag / option / result left over from the previous one
            from ..rules.loopstate import check_iteration_local
            n_state += check_iteration_local(rep, 'C19-D3 component-local state', f, l)
    rep.floor('C19-D3', n_cons, 2)
    rep.floor('C19-D3 component-local names', n_state, 8)


def tarjan_lowlink(rep: Report, prog: Program, vf, visit_name: str, g0: str, visited_set: str) -> None:
    """Tarjan bookkeeping as a truth table: inside the successor loop the low-link of v is lowered iff the successor was
    unvisited (after the recursive call) or is still on the stack; an already emitted successor must not lower it."""
    vcfg = cfg_of(vf)
    v = vf.positional_params()[0]
    for l in [n for n in own_nodes(vf.node) if isinstance(n, ast.For) and norm(n.iter) in (f"{g0}[{v}]", f"{g0}[{v}].keys()")]:
        hdr = vcfg.node_of(l)
        w = norm(l.target)
        be = [b for b, lab in vcfg.succ[hdr] if lab == 'iter'][0]
        atoms = {}
        for n in vcfg.loop_body[hdr]:
            if vcfg.nodes[n].kind == 'test':
                atoms.update(collect_atoms(vcfg.nodes[n].expr))
        vis = [t for t, a in atoms.items() if isinstance(a, ast.Compare) and isinstance(a.ops[0], (ast.In, ast.NotIn)) and norm(a.left) == w and norm(a.comparators[0]) == visited_set]
        ons = [t for t, a in atoms.items() if isinstance(a, ast.Compare) and isinstance(a.ops[0], (ast.In, ast.NotIn)) and norm(a.left) == w and t not in vis]
        if len(vis) == 1 and not ons and len(atoms) == 1:
            ons = [None]
        if len(vis) != 1 or len(ons) != 1 or len(atoms) > 2:
            raise AnalysisError(f"C19-D2: {vf.loc(l)} successor loop guards {sorted(atoms)} are not (visited?, on-stack?) tests; idiom not recognised")
        # low-link updates: stores  X[v] = min(X[v], ...)
        def lowers(n):
            st = vcfg.nodes[n].stmt
            return vcfg.nodes[n].kind == 'stmt' and isinstance(st, ast.Assign) and isinstance(st.targets[0], ast.Subscript) and norm(st.targets[0].slice) == v \
                and isinstance(st.value, ast.Call) and callee_last(st.value) == 'min' and norm(st.targets[0]) in [norm(a) for a in st.value.args]
        ups = [n for n in vcfg.loop_body[hdr] if lowers(n)]
        if not ups:
            proxies = [vcfg.nodes[n].stmt for n in vcfg.loop_body[hdr] if vcfg.nodes[n].kind == 'stmt' and isinstance(vcfg.nodes[n].stmt, ast.Assign)
                       and isinstance(vcfg.nodes[n].stmt.targets[0], ast.Name) and isinstance(vcfg.nodes[n].stmt.value, ast.Call) and callee_last(vcfg.nodes[n].stmt.value) == 'min'
                       and vcfg.nodes[n].stmt.targets[0].id in [norm(a) for a in vcfg.nodes[n].stmt.value.args]]
            if proxies:
                # the running low-link kept in a local and stored back later: whether that is the same algorithm depends on nobody
                # reading the table entry of an active vertex in between, which this rule does not establish
                raise AnalysisError(f"C19-D2: {vf.loc(proxies[0])} the low-link of {v} is accumulated in the local `{proxies[0].targets[0].id}` instead of the table; idiom not recognised")
        bad = []
        for visited in (False, True):
            for onstack in (False, True):
                if not visited and onstack:
                    continue     # an unvisited vertex is never on the stack
                at = {vis[0]: visited}
                if ons[0] is not None: at[ons[0]] = onstack
                reach = walk(vcfg, be, Env(atoms=at), loop_header_stop=hdr, unknown='both')
                ex = bool(set(ups) & reach)
                want = (not visited) or onstack
                if ex != want:
                    bad.append(f"visited={visited}, on stack={onstack}: low-link lowered={ex}, required={want}")
        rep.ob('C19-D2 scc-protocol', vf.fq(), f"low-link of {v} lowered iff {w} was unvisited or is on the stack", vf.loc(l), not bad and bool(ups),
               '; '.join(bad) if bad else 'tree edges and back/cross edges into the current stack lower the low-link; edges into emitted components do not')
        # after recursion the child's low-link (not its index) is used
        for n in ups:
            st = vcfg.nodes[n].stmt
            other = [a for a in st.value.args if norm(a) != norm(st.targets[0])]
            reach_unvisited = walk(vcfg, be, Env(atoms={vis[0]: False}), loop_header_stop=hdr, unknown='both')
            if n in reach_unvisited and other:
                low = norm(st.targets[0].value)
                src = [other[0]]
                if isinstance(other[0], ast.Name):
                    # the lowered-to value has a name: every binding of it that reaches the update on the unvisited path counts
                    src = [vcfg.nodes[m].stmt.value for m in reach_unvisited if vcfg.nodes[m].kind == 'stmt' and isinstance(vcfg.nodes[m].stmt, ast.Assign)
                           and any(isinstance(t, ast.Name) and t.id == other[0].id for t in vcfg.nodes[m].stmt.targets)] or [other[0]]
                ok = all(norm(x) == f"{low}[{w}]" for x in src)
                rep.ob('C19-D2 scc-protocol', vf.fq(), norm(st), vf.loc(st), ok, 'after the recursive visit the successor\'s low-link is propagated' if ok else 'the tree-edge update does not read the successor\'s low-link')
    # root test and pop-until-v
    pops = [n for n in own_nodes(vf.node) if isinstance(n, ast.While)]
    ok = False
    for wl in pops:
        guard = parents(vf).get(id(wl))
        if isinstance(guard, ast.If) and isinstance(guard.test, ast.Compare) and isinstance(guard.test.ops[0], ast.Eq) \
                and {norm(guard.test.left).split('[')[0], norm(guard.test.comparators[0]).split('[')[0]} >= {visited_set} \
                and any(isinstance(x, ast.Call) and callee_last(x) == 'pop' for x in ast.walk(wl)) and v in names_in(wl.test):
            ok = True
    # the pop loop may live in a sibling local helper called under the root test with v as its argument
    siblings = {c.name: c for c in (vf.parent.children if vf.parent is not None else []) if not c.is_lambda and c is not vf}
    for guard in [n for n in own_nodes(vf.node) if isinstance(n, ast.If)]:
        if not (isinstance(guard.test, ast.Compare) and isinstance(guard.test.ops[0], ast.Eq)
                and {norm(guard.test.left).split('[')[0], norm(guard.test.comparators[0]).split('[')[0]} >= {visited_set}):
            continue
        for c in [x for s2 in guard.body for x in ast.walk(s2) if isinstance(x, ast.Call) and isinstance(x.func, ast.Name) and x.func.id in siblings]:
            h = siblings[c.func.id]
            hp = h.positional_params()
            bound = [p_ for p_, a in zip(hp, c.args) if norm(a) == v]
            for wl in [n for n in own_nodes(h.node) if isinstance(n, ast.While)]:
                if bound and any(isinstance(x, ast.Call) and callee_last(x) == 'pop' for x in ast.walk(wl)) and (set(bound) & names_in(wl.test)):
                    ok = True
    rep.ob('C19-D2 scc-protocol', vf.fq(), f"a component is popped (until {v}) exactly when {v} is a root (low-link == index)", vf.loc(), ok, '' if ok else 'root test / pop loop not recognised or altered')
    # the on-stack set mirrors the stack: what is pushed is added to it, what is popped is removed from it (in the same iteration)
    onset = None
    for l in [n for n in own_nodes(vf.node) if isinstance(n, ast.For)]:
        for x in ast.walk(l):
            if isinstance(x, ast.Compare) and isinstance(x.ops[0], (ast.In, ast.NotIn)) and norm(x.left) == norm(l.target) and norm(x.comparators[0]) != visited_set:
                onset = norm(x.comparators[0])
    if onset is not None:
        scopes = [vf] + [c for c in (vf.parent.children if vf.parent is not None else []) if not c.is_lambda and c is not vf]
        for h in scopes:
            hcfg = cfg_of(h)
            for k, nd in hcfg.nodes.items():
                st = nd.stmt
                if nd.kind != 'stmt' or st is None:
                    continue
                pops = [x for x in ast.walk(st) if isinstance(x, ast.Call) and isinstance(x.func, ast.Attribute) and x.func.attr == 'pop' and not x.args
                        and isinstance(x.func.value, ast.Name) and x.func.value.id != onset]
                pushes = [x for x in ast.walk(st) if isinstance(x, ast.Call) and isinstance(x.func, ast.Attribute) and x.func.attr == 'append' and len(x.args) == 1
                          and isinstance(x.func.value, ast.Name)]
                for x in pops:
                    stack_name = x.func.value.id
                    if not any(isinstance(y, ast.Call) and isinstance(y.func, ast.Attribute) and y.func.attr == 'append' and norm(y.func.value) == stack_name for f2 in scopes for y in own_nodes(f2.node)):
                        continue
                    W = norm(st.targets[0]) if isinstance(st, ast.Assign) and st.value is x else None
                    rem = lambda m, W=W: hcfg.nodes[m].kind == 'stmt' and any(isinstance(y, ast.Call) and isinstance(y.func, ast.Attribute) and y.func.attr in ('remove', 'discard')
                                                                               and norm(y.func.value) == onset and y.args and norm(y.args[0]) == W for y in ast.walk(hcfg.nodes[m].stmt))
                    loops = nd.loops
                    targets = {loops[-1], hcfg.exit} if loops else {hcfg.exit}
                    nxt = [b for b, lab in hcfg.succ[k] if lab != 'exc']
                    okp = W is not None and bool(nxt) and hcfg.all_paths_pass(nxt[0], rem, targets=targets)[0]
                    rep.ob('C19-D2 scc-protocol', h.fq(), f"{norm(st)}: the popped vertex leaves `{onset}`", h.loc(st), okp,
                           'removed from the on-stack set in the same iteration' if okp else
                           f"a vertex popped off `{stack_name}` stays in `{onset}`: a later edge into its finished component is then treated as a back edge and merges components")
                for x in pushes:
                    stack_name = norm(x.func.value)
                    if not any(isinstance(y, ast.Call) and isinstance(y.func, ast.Attribute) and y.func.attr == 'pop' and norm(y.func.value) == stack_name for f2 in scopes for y in own_nodes(f2.node)):
                        continue
                    X = norm(x.args[0])
                    add = lambda m, X=X: hcfg.nodes[m].kind == 'stmt' and any(isinstance(y, ast.Call) and isinstance(y.func, ast.Attribute) and y.func.attr == 'add'
                                                                               and norm(y.func.value) == onset and y.args and norm(y.args[0]) == X for y in ast.walk(hcfg.nodes[m].stmt))
                    # before the successors are explored: before the first loop / the exit
                    first_loops = {m for m, nd2 in hcfg.nodes.items() if nd2.kind == 'for'}
                    nxt = [b for b, lab in hcfg.succ[k] if lab != 'exc']
                    okp = bool(nxt) and hcfg.all_paths_pass(nxt[0], add, targets=first_loops | {hcfg.exit})[0]
                    rep.ob('C19-D2 scc-protocol', h.fq(), f"{norm(st)}: the pushed vertex enters `{onset}`", h.loc(st), okp,
                           'added to the on-stack set before its successors are explored' if okp else f"a vertex pushed on `{stack_name}` is not recorded in `{onset}`: back edges to it are ignored and its cycle is split")
