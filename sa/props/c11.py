"""C11 -- solver options change cost, never the answer: asserts and __debug__ blocks are checks only; options are
plumbed consistently; the domain-size multiplier is never compounded on the precomputed-products path."""
from __future__ import annotations
import ast
from typing import Dict, List, Optional, Set
from ..model import Program, AnalysisError, own_nodes, norm, names_in, FuncInfo
from ..report import Report
from ..util import callee_last, enclosing_stmt, parents, depends_on
from ..rules.classmodel import CONTAINER_MUTATORS

SP = 'fggs.sum_product'
MULT = 'multiply_in_disconnected_internals'
IMPURE_CALLS = CONTAINER_MUTATORS | {'next', 'send', 'write', 'print', 'setattr', 'delattr', 'exec', 'eval', 'input', 'open', 'requires_grad_'}


def impure(e: ast.AST) -> Optional[str]:
    for x in ast.walk(e):
        if isinstance(x, ast.NamedExpr):
            return f"binds `{norm(x.target)}` with := inside the check"
        if isinstance(x, (ast.Yield, ast.YieldFrom, ast.Await)):
            return 'yields / awaits inside the check'
        if isinstance(x, ast.Call):
            nm = callee_last(x)
            if nm is None:
                continue
            if nm in IMPURE_CALLS and not (nm in ('add', 'update', 'pop', 'remove') and _is_tensor_style(x)):
                return f"calls `{norm(x)[:50]}` which mutates its receiver"
            if nm.endswith('_') and not nm.endswith('__') and len(nm) > 1:
                return f"calls the in-place operation `{norm(x)[:50]}`"
    return None


def _is_tensor_style(c: ast.Call) -> bool:
    # x.add(y) as a *value* is tensor addition, not set.add; inside an assert the value is used, so a set.add would be None (falsy) anyway
    return callee_last(c) == 'add' and len(c.args) == 1


def run(prog: Program, rep: Report, tier: str) -> None:
    rep.rule('C11-D1', 'assert / __debug__ purity: the test (and message) of every assert has no effect (no :=, no mutator or in-place call); an `if __debug__:` block only raises / warns and binds no name that is read after the block, so python -O/-OO (as used by bin/sum_product.py) computes the same values')
    rep.rule('C11-D2', 'option plumbing: bin/sum_product.py forwards every solver option it parses to sum_products; SumProduct.forward and backward read j_precompute with the same default and pick the Jacobian construction by it; opts reach the per-SCC call unchanged except for the method downgrade (C02-D2)')
    rep.rule('C11-D4', 'zip alignment in the solvers: the operands of every zip(...) in sum_product.py / viterbi.py / multi.py whose lengths can be traced are cut from the same selection (never a filtered list against the unfiltered sequence it was taken from)')
    rep.rule('C11-D3', 'multiplier at most once: a value returned by a function that applies the domain-size multiplier never flows into another application of it (through a further call of such a function, or as two operands of one einsum whose result is multiplied/escapes)')
    rep.not_decided += ['numeric agreement across methods, dtypes and semirings', 'Log = log(Real), Bool = support(Real), Viterbi <= Log']
    purity(rep, prog)
    plumbing(rep, prog)
    compounding(rep, prog)
    zip_alignment(rep, prog)


def effectful_call(prog: Program, eng, e: ast.AST) -> Optional[str]:
    """A call inside a check whose callee (resolved by name and arity over the repo) writes to one of its arguments
    (e.g. Axis.unify extends the substitution it is given)."""
    from ..effects import _Ctx
    for x in ast.walk(e):
        if not isinstance(x, ast.Call):
            continue
        nm = callee_last(x)
        if nm is None:
            continue
        cands = []
        if isinstance(x.func, ast.Attribute):
            cands = [m for m in prog.methods_named(nm) if _Ctx.arity_ok(m, len(x.args), {k.arg for k in x.keywords if k.arg})]
        elif isinstance(x.func, ast.Name):
            for m in prog.modules.values():
                if nm in m.functions and not m.functions[nm].is_lambda and '.' not in nm:
                    cands.append(m.functions[nm])
        for g in cands:
            S = eng.summaries.get(g)
            if S is None:
                continue
            selfn = g.self_name()
            for ef in S.writes:
                if ef.root.startswith('P:') and (selfn is None or not ef.root.startswith(f"P:{selfn}")):
                    return f"calls `{norm(x)[:50]}`; {g.qualname} writes its argument `{ef.root[2:].split('.')[0]}` ({ef.text[:50]})"
                if ef.root.startswith('P:') and selfn is not None and ef.root.startswith(f"P:{selfn}") and g.cls is not None and g.name not in ('__init__', '__post_init__'):
                    return f"calls `{norm(x)[:50]}`; {g.qualname} modifies its receiver ({ef.text[:50]})"
    return None


def purity(rep: Report, prog: Program) -> None:
    from ..effects import effects_for
    eng = effects_for(prog)
    n_assert = n_debug = 0
    for m in prog.modules.values():
        pm: Dict[int, ast.AST] = {}
        for n in ast.walk(m.tree):
            for c in ast.iter_child_nodes(n):
                pm[id(c)] = n
        for n in ast.walk(m.tree):
            if isinstance(n, ast.Assert):
                n_assert += 1
                why = impure(n.test) or (impure(n.msg) if n.msg is not None else None) or effectful_call(prog, eng, n.test)
                # generator expression used as the whole test is always truthy: not an effect, reported as a note only
                rep.ob('C11-D1 assert-purity', m.name, f"assert {norm(n.test)[:80]}", f"{m.relpath}:{n.lineno}", why is None,
                       'no effect' if why is None else f"the assertion {why}: under python -O the effect disappears and the computation changes")
            elif isinstance(n, ast.If) and isinstance(n.test, ast.Name) and n.test.id == '__debug__':
                n_debug += 1
                bound: Set[str] = set()
                why = None
                comp_locals = {id(t) for s in n.body for c in ast.walk(s) if isinstance(c, ast.comprehension) for t in ast.walk(c.target)}
                for s in n.body:
                    for x in ast.walk(s):
                        if isinstance(x, ast.Name) and isinstance(x.ctx, ast.Store) and id(x) not in comp_locals: bound.add(x.id)
                        if isinstance(x, ast.Attribute) and isinstance(x.ctx, (ast.Store, ast.Del)): why = why or f"stores to `{norm(x)}`"
                        if isinstance(x, ast.Subscript) and isinstance(x.ctx, (ast.Store, ast.Del)): why = why or f"stores to `{norm(x)}`"
                        if isinstance(x, (ast.Return, ast.Break, ast.Continue)): why = why or f"contains `{type(x).__name__.lower()}` (control flow differs under -O)"
                    if isinstance(s, ast.Expr) and not (isinstance(s.value, ast.Call) and callee_last(s.value) in ('warn', 'print')):
                        why = why or impure(s.value)
                    elif not isinstance(s, ast.Expr):
                        for x in ast.walk(s):
                            if isinstance(x, ast.Call) and callee_last(x) not in ('warn', 'print'):
                                why = why or impure(x)
                # names bound in the block and read after it (same function)
                fn = pm.get(id(n))
                while fn is not None and not isinstance(fn, (ast.FunctionDef, ast.Lambda, ast.Module)):
                    fn = pm.get(id(fn))
                if bound and fn is not None:
                    end = n.end_lineno or n.lineno
                    inside = {id(x) for s in n.body for x in ast.walk(s)}
                    for x in ast.walk(fn):
                        if isinstance(x, ast.Name) and isinstance(x.ctx, ast.Load) and x.id in bound and id(x) not in inside and x.lineno > end:
                            # is it re-bound unconditionally before that read outside the block? conservative: flag
                            rebinding = [y for y in ast.walk(fn) if isinstance(y, ast.Name) and isinstance(y.ctx, ast.Store) and y.id == x.id and id(y) not in inside and end < y.lineno < x.lineno]
                            if not rebinding:
                                why = why or f"binds `{x.id}` which is read at line {x.lineno} after the block"
                rep.ob('C11-D1 debug-purity', m.name, f"if __debug__: (line {n.lineno}) {norm(n.body[0])[:60]}", f"{m.relpath}:{n.lineno}", why is None,
                       'checks only' if why is None else f"the block {why}: under python -O the computation changes")
    rep.floor('C11-D1 asserts', n_assert, 40)
    rep.floor('C11-D1 debug blocks', n_debug, 7)


def plumbing(rep: Report, prog: Program) -> None:
    rule = 'C11-D2 option-plumbing'
    b = prog.modules.get('bin.sum_product')
    if b is None:
        rep.error(f"{rule}: bin/sum_product.py not found"); return
    parsed = {}
    for n in ast.walk(b.tree):
        if isinstance(n, ast.Call) and callee_last(n) == 'add_argument':
            kw = {k.arg: k.value for k in n.keywords}
            if isinstance(kw.get('dest'), ast.Constant):
                parsed[kw['dest'].value] = n
    calls = [n for n in ast.walk(b.tree) if isinstance(n, ast.Call) and callee_last(n) in ('sum_products', 'sum_product')]
    if not calls:
        rep.error(f"{rule}: bin/sum_product.py does not call sum_products"); return
    sp = prog.func(SP, 'sum_products')
    known_opts = set()
    for n in own_nodes(sp.node):
        if isinstance(n, ast.Call) and callee_last(n) == 'setdefault' and n.args and isinstance(n.args[0], ast.Constant):
            known_opts.add(n.args[0].value)
    for f in (prog.func(SP, 'SumProduct.forward'), prog.func(SP, 'SumProduct.backward')):
        for n in own_nodes(f.node):
            if isinstance(n, ast.Call) and callee_last(n) == 'get' and n.args and isinstance(n.args[0], ast.Constant) and 'opts' in norm(n.func.value):
                known_opts.add(n.args[0].value)
            if isinstance(n, ast.Subscript) and isinstance(n.slice, ast.Constant) and isinstance(n.slice.value, str) and 'opts' in norm(n.value):
                known_opts.add(n.slice.value)
    for c in calls:
        kws = {k.arg: k.value for k in c.keywords}
        for opt in sorted(known_opts & set(parsed)):
            v = kws.get(opt)
            ok = v is not None and norm(v) == f"args.{opt}"
            rep.ob(rule, b.name, f"sum_products(..., {opt}=args.{opt})", f"{b.relpath}:{c.lineno}", ok,
                   'the parsed option reaches the solver' if ok else f"the command line parses `{opt}` but passes {norm(v) if v is not None else 'nothing'}: the library default is used silently")
    rep.floor('C11-D2 options', len(known_opts & set(parsed)), 4)
    # forward / backward agree on j_precompute
    fwd, bwd = prog.func(SP, 'SumProduct.forward'), prog.func(SP, 'SumProduct.backward')
    defaults = {}
    for f in (fwd, bwd):
        for n in own_nodes(f.node):
            if isinstance(n, ast.Call) and callee_last(n) == 'get' and n.args and isinstance(n.args[0], ast.Constant) and n.args[0].value == 'j_precompute':
                defaults[f.name] = norm(n.args[1]) if len(n.args) > 1 else 'None'
    ok = len(defaults) == 2 and len(set(defaults.values())) == 1
    rep.ob(rule, fwd.fq(), "forward and backward read opts.get('j_precompute', <default>) with the same default", fwd.loc(), ok, f"defaults: {defaults}")
    # the flag selects between the two Jacobian constructions, in both places, with the same polarity
    for f in (fwd, bwd):
        sel = []
        for n in ast.walk(f.node):       # lambdas and local helper functions included
            if isinstance(n, ast.IfExp) or isinstance(n, ast.If):
                t = norm(n.test)
                if 'j_precompute' in t:
                    body = n.body if isinstance(n.body, list) else [n.body]
                    orelse = n.orelse if isinstance(n.orelse, list) else [n.orelse]
                    # the construction is selected by calling it in the branch or by binding it to a name that is called later
                    bc = {callee_last(x) for s in body for x in ast.walk(s) if isinstance(x, ast.Call)} | {x.id for s in body for x in ast.walk(s) if isinstance(x, ast.Name) and isinstance(x.ctx, ast.Load)}
                    oc = {callee_last(x) for s in orelse for x in ast.walk(s) if isinstance(x, ast.Call)} | {x.id for s in orelse for x in ast.walk(s) if isinstance(x, ast.Name) and isinstance(x.ctx, ast.Load)}
                    neg = t.startswith('not ')
                    pre_in_true = 'J_precompute_products' in (oc if neg else bc)
                    plain_in_false = 'J' in (bc if neg else oc)
                    sel.append(pre_in_true and plain_in_false)
        rep.ob(rule, f.fq(), 'j_precompute selects J_precompute_products, otherwise J', f.loc(), bool(sel) and all(sel), f"{len(sel)} selection site(s)")
    # comp_opts is a copy of opts with only `method` rewritten; passed to the per-SCC call
    kw = sp.node.args.kwarg.arg if sp.node.args.kwarg else 'opts'
    cp = [n for n in own_nodes(sp.node) if isinstance(n, ast.Assign) and isinstance(n.targets[0], ast.Name) and norm(n.value) in (f"dict({kw})", f"{kw}.copy()", f"{{**{kw}}}")]
    cname = cp[0].targets[0].id if cp else None
    stores = [n for n in own_nodes(sp.node) if isinstance(n, ast.Assign) and isinstance(n.targets[0], ast.Subscript) and norm(n.targets[0].value) == cname]
    keys = {n.targets[0].slice.value for n in stores if isinstance(n.targets[0].slice, ast.Constant)}
    use = [n for n in own_nodes(sp.node) if isinstance(n, ast.Call) and callee_last(n) == 'apply_to_patterned_tensors' and len(n.args) > 1 and norm(n.args[1]) in (cname, kw)]
    rep.ob(rule, sp.fq(), 'per-SCC options = copy of opts with only `method` rewritten', sp.loc(), bool(cp) and keys <= {'method'} and bool(use), f"keys rewritten per SCC: {sorted(keys)}")


def zip_alignment(rep: Report, prog: Program) -> None:
    """The Jacobians pair each rule with the value computed for it (J_log: zip(rules, tau_rules_stacked)); rules without a value
    are dropped first, so both operands must come from the same selection."""
    from ..rules.lengths import check_zip_alignment
    n = 0
    for mod in (SP, 'fggs.viterbi', 'fggs.multi'):
        for f in prog.module(mod).functions.values():
            if not f.is_lambda:
                n += check_zip_alignment(rep, 'C11-D4 zip-alignment', f)
    rep.floor('C11-D4', n, 4)


def multiplied_functions(prog: Program) -> Set[str]:
    """Functions of sum_product.py whose return value has had the multiplier applied."""
    out = set()
    for f in prog.module(SP).functions.values():
        if f.is_lambda or f.name == MULT: continue
        for n in own_nodes(f.node):
            if isinstance(n, ast.Call) and callee_last(n) == MULT:
                out.add(f.name)
    return out


def compounding(rep: Report, prog: Program) -> None:
    rule = 'C11-D3 multiplier-compounding'
    M = multiplied_functions(prog)
    rep.floor('C11-D3 multiplier-applying functions', len(M), 2)
    n_sites = 0
    for f in prog.module(SP).functions.values():
        if f.is_lambda: continue
        # names holding a multiplied value: targets of calls to M-functions, and names derived from them by plain copies / list storage
        seeds: Set[str] = set()
        for n in own_nodes(f.node):
            if isinstance(n, ast.Assign) and isinstance(n.value, ast.Call) and callee_last(n.value) in M | ({'compute_products'} if 'multiply_next_edge' in M else set()):
                t = n.targets[0]
                if isinstance(t, ast.Name): seeds.add(t.id)
                elif isinstance(t, ast.Tuple) and t.elts and isinstance(t.elts[0], ast.Name): seeds.add(t.elts[0].id)
            if isinstance(n, ast.Assign) and isinstance(n.value, ast.List) and any(isinstance(x, ast.Call) and callee_last(x) in M for x in ast.walk(n.value)):
                if isinstance(n.targets[0], ast.Name): seeds.add(n.targets[0].id)
        if not seeds:
            continue
        tainted = _copies(f, seeds)
        # (a) a multiplied value is passed as a *tensor operand* to another multiplier-applying function
        for c in [x for x in own_nodes(f.node) if isinstance(x, ast.Call) and callee_last(x) in M]:
            g = prog.module(SP).functions.get(callee_last(c))
            for i, a in enumerate(c.args):
                if isinstance(a, ast.Name) and a.id in tainted and g is not None:
                    pn = g.positional_params()[i] if i < len(g.positional_params()) else '?'
                    ann = norm(g.param_annotation(pn)) if g.param_annotation(pn) is not None else ''
                    if 'PatternedTensor' in ann or 'MultiTensor' in ann:
                        n_sites += 1
                        rep.ob(rule, f.fq(), f"{callee_last(c)}(<value that already carries the multiplier> as `{pn}`)", f.loc(c), False,
                               f"`{a.id}` already carries the domain-size multiplier (it comes from {sorted(M)} ) and is multiplied again inside {callee_last(c)}: "
                               f"with three or more edges the factor of an edgeless node is applied once per prefix step")
        # (b) two multiplied values are operands of one einsum
        for c in [x for x in own_nodes(f.node) if isinstance(x, ast.Call) and callee_last(x) == 'einsum' and x.args and isinstance(x.args[0], (ast.List, ast.Tuple))]:
            ops = [e for e in c.args[0].elts if isinstance(e, ast.Name) and e.id in tainted]
            if len(ops) >= 2:
                n_sites += 1
                rep.ob(rule, f.fq(), f"einsum of {len(ops)} operands that already carry the multiplier", f.loc(c), False,
                       f"operands {[o.id for o in ops]} each already carry the domain-size multiplier: their product carries it twice")
    # the plain paths: F, J, J_log, linear use each sum_product_edges result once (checked as C01-D1); record that they are clean
    clean = [f.name for f in prog.module(SP).functions.values() if not f.is_lambda and f.name in ('F', 'J', 'J_log', 'linear')]
    rep.ob(rule, SP, 'default Jacobian / one-step / linear paths never re-multiply', 'fggs/sum_product.py', True, f"functions without compounding sites: {clean}")
    rep.analysed['compounding_sites'] = n_sites


def _copies(f: FuncInfo, seeds: Set[str]) -> Set[str]:
    """Names that may hold (an element of) a seed value through plain copies: x = y, x, _ = y, z, x = cast(T, y[i]), for x in y, lst.append(y)."""
    t = set(seeds)
    changed = True
    while changed:
        changed = False
        for n in own_nodes(f.node):
            if isinstance(n, ast.Assign):
                v = n.value
                srcs: List[ast.AST] = []
                if isinstance(v, ast.Tuple): srcs = list(v.elts)
                else: srcs = [v]
                tg = n.targets[0]
                tgts = list(tg.elts) if isinstance(tg, ast.Tuple) else [tg]
                if len(tgts) != len(srcs):
                    srcs = [v] * len(tgts)
                for a, b in zip(tgts, srcs):
                    base = b
                    while isinstance(base, ast.Call) and callee_last(base) == 'cast' and len(base.args) == 2: base = base.args[1]
                    while isinstance(base, ast.Subscript): base = base.value
                    if isinstance(a, ast.Name) and isinstance(base, ast.Name) and base.id in t and a.id not in t:
                        t.add(a.id); changed = True
            elif isinstance(n, ast.AnnAssign) and n.value is not None and isinstance(n.target, ast.Name):
                base = n.value
                while isinstance(base, ast.Call) and callee_last(base) == 'cast' and len(base.args) == 2: base = base.args[1]
                while isinstance(base, ast.Subscript): base = base.value
                if isinstance(base, ast.Name) and base.id in t and n.target.id not in t:
                    t.add(n.target.id); changed = True
            elif isinstance(n, ast.Call) and callee_last(n) in ('append', 'extend') and isinstance(n.func.value, ast.Name) and n.args and isinstance(n.args[0], ast.Name) and n.args[0].id in t:
                if n.func.value.id not in t:
                    t.add(n.func.value.id); changed = True
    return t
