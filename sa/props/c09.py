"""C09 -- semiring linear solvers: arguments are left unmodified; thunks hand out fresh buffers; the LU result is accepted
only under both acceptance tests and the consumed buffers are never reused on the fallback path."""
from __future__ import annotations
import ast
from typing import Dict, List, Optional, Set
from ..model import Program, AnalysisError, own_nodes, norm, names_in
from ..cfg import cfg_of
from ..guards import Env, walk, collect_atoms
from ..report import Report
from ..effects import effects_for
from ..util import callee_last, enclosing_stmt

ENTRY = [('fggs.semirings', 'Semiring.solve'), ('fggs.semirings', 'Semiring.mm'), ('fggs.semirings', 'Semiring.mv'),
         ('fggs.indices', 'PatternedTensor.solve'), ('fggs.indices', 'PatternedTensor.mv'), ('fggs.indices', 'PatternedTensor.mm'),
         ('fggs.multi', 'multi_solve'), ('fggs.multi', 'multi_mv')]


def run(prog: Program, rep: Report, tier: str) -> None:
    rep.rule('C09-D1', 'arguments unmodified (effect analysis): Semiring.solve/mm/mv, PatternedTensor.solve/mv/mm, multi_solve and multi_mv have no write effect on their parameters or anything reachable from them; every semiring operation except add_ is free of write effects, add_ writes only its first operand; every thunk passed to solve_thunks returns fresh storage')
    rep.rule('C09-D2', 'LU fallback discipline in RealSemiring.solve_thunks: the LU result is returned only if the input had no infinite entry and the result is non-negative; once the buffers have been transformed in place they are consumed: every other path obtains new buffers from the thunks (calls the generic solver with the thunks, not with the buffers)')
    rep.rule('C09-D4', 'transposes of matrices: every `.T` in multi_solve / multi_mv is applied to a value with exactly two axes (a block reshaped over two flat shapes, an element of a MultiTensor built over two flat shape tables, or the solve/transpose/clone of such a value) -- decided by a rank inference with reaching definitions')
    rep.rule('C09-D3', 'generic elimination: solve_thunks obtains both buffers from the thunks, eliminates every pivot k in range(a.shape[0]) and multiplies the pivot column by star(a[k,k]) before using it')
    rep.not_decided += ['least-solution semantics of the elimination for every block structure', 'correctness of the elimination order heuristic', 'divergence handling beyond star at the radius (C08-L6)']
    rep.trusted += ['E1 tables (view list, naming convention for in-place operations)', 'torch.linalg.solve does not modify its arguments']
    eng = effects_for(prog)
    for mod, fn in ENTRY:
        f = prog.func(mod, fn)
        S = eng.summaries[f]
        effs = [e for e in S.writes if e.root.startswith('P:')]
        if not effs:
            rep.ob('C09-D1 arguments-unmodified', f.fq(), f"{fn}: no write effect on its arguments", f.loc(), True, 'effect summary is empty')
        seen = set()
        for e in effs:
            p = e.root[2:].split('.')[0]
            if (p, e.text) in seen: continue
            seen.add((p, e.text))
            rep.ob('C09-D1 arguments-unmodified', f.fq(), f"{fn}: argument `{p}` written by `{e.text}`", f.loc(), False,
                   f"{e.kind} at {e.loc} in {e.where} reaches {e.root}" + ('; call chain: ' + ' -> '.join(e.via) if e.via else ''))
    # semiring operations
    base = prog.cls('fggs.semirings', 'Semiring')
    n_ops = 0
    for ci in [base] + prog.subclasses(base, strict=True):
        for name, m in sorted(ci.methods.items()):
            if name.startswith('__') or name == 'solve_thunks':
                continue
            if prog.is_new_helper(m):
                continue        # a private helper (e.g. an einsum callback given a name): not a semiring operation of its own
            n_ops += 1
            S = eng.summaries[m]
            pos = [p for p in m.positional_params() if p != m.self_name()]
            allowed = {pos[0]} if name == 'add_' and pos else set()
            bad = [e for e in S.writes if e.root.startswith('P:') and e.root[2:].split('.')[0] not in allowed]
            rep.ob('C09-D1 semiring-ops-pure', m.fq(), f"{ci.name}.{name}: " + ('writes only its first operand' if allowed else 'no write effect on its operands'), m.loc(), not bad,
                   'effect summary agrees' if not bad else f"`{bad[0].text}` at {bad[0].loc} writes {bad[0].root}")
    rep.floor('C09-D1 semiring operations', n_ops, 30)
    # thunks
    n_thunks = 0
    for f in prog.all_functions():
        for c in [x for x in own_nodes(f.node) if isinstance(x, ast.Call) and callee_last(x) == 'solve_thunks']:
            for a in list(c.args) + [k.value for k in c.keywords]:
                g = None
                if isinstance(a, ast.Lambda):
                    g = next((h for h in f.module.functions.values() if h.node is a), None)
                elif isinstance(a, ast.Name):
                    # the thunk given a name first: a local `def make_a(): ...` (or `make_a = lambda: ...`) of the calling function
                    g = next((h for h in f.children if not h.is_lambda and h.name == a.id), None)
                    if g is None:
                        lam = next((n.value for n in own_nodes(f.node) if isinstance(n, ast.Assign) and len(n.targets) == 1 and isinstance(n.targets[0], ast.Name)
                                    and n.targets[0].id == a.id and isinstance(n.value, ast.Lambda)), None)
                        g = next((h for h in f.module.functions.values() if lam is not None and h.node is lam), None)
                if g is not None:
                    n_thunks += 1
                    r = eng.summaries[g].ret
                    roots = r.id | r.reach()
                    rep.ob('C09-D1 thunks-fresh', f.fq(), f"thunk `{norm(a)}`", f.loc(a), not roots,
                           'returns fresh storage on every call' if not roots else f"the buffer it hands out is or views {sorted(roots)}: the in-place elimination would modify the caller's tensor")
    rep.floor('C09-D1 thunks', n_thunks, 4)
    lu_fallback(rep, prog)
    semiring_zero_tests(rep, prog)
    generic_elimination(rep, prog)
    transposes_of_matrices(rep, prog)


def lu_fallback(rep: Report, prog: Program) -> None:
    rule = 'C09-D2 lu-fallback'
    f = prog.func('fggs.semirings', 'RealSemiring.solve_thunks')
    cfg = cfg_of(f)
    pos = f.positional_params()
    thunks = pos[1:3]
    # buffers obtained from thunks
    bufs: Dict[str, str] = {}
    for n in own_nodes(f.node):
        if isinstance(n, ast.Assign) and isinstance(n.value, ast.Call) and isinstance(n.value.func, ast.Name) and n.value.func.id in thunks and isinstance(n.targets[0], ast.Name):
            bufs[n.targets[0].id] = n.value.func.id
    rep.ob(rule, f.fq(), 'both buffers come from the thunks', f.loc(), len(bufs) == 2, f"buffers: {bufs}")
    lu = [n for n, nd in cfg.nodes.items() if nd.kind == 'stmt' and nd.stmt is not None and any(isinstance(x, ast.Call) and norm(x.func).endswith('linalg.solve') for x in ast.walk(nd.stmt))]
    if not lu:
        rep.ob(rule, f.fq(), 'LU path', f.loc(), True, 'no torch.linalg.solve call: only the generic elimination is used', nontrivial=False)
        return
    lu_n = lu[0]
    xname = norm(cfg.nodes[lu_n].stmt.targets[0]) if isinstance(cfg.nodes[lu_n].stmt, ast.Assign) else None
    rets = [n for n, nd in cfg.nodes.items() if nd.kind == 'return' and nd.expr is not None and norm(nd.expr) == xname]
    # acceptance tests: atoms
    atoms: Dict[str, ast.AST] = {}
    for n, nd in cfg.nodes.items():
        if nd.kind == 'test':
            atoms.update(collect_atoms(nd.expr))
    inf_atoms = [t for t in atoms if 'isinf' in t]
    nonneg = [t for t in atoms if xname and xname in t and ('>= 0' in t or '>=0' in t)]
    ok_atoms = len(inf_atoms) == 1 and len(nonneg) == 1
    rep.ob(rule, f.fq(), 'acceptance tests present: no infinite entry in the input, non-negative solution', f.loc(), ok_atoms and bool(rets), f"tests: {sorted(atoms)}")
    if ok_atoms and rets:
        bad = []
        for vi in (True, False):
            for vn in (True, False):
                r = walk(cfg, cfg.entry, Env(atoms={inf_atoms[0]: vi, nonneg[0]: vn}), unknown='both')
                reached = any(x in r for x in rets)
                # `not torch.any(isinf(a))`: atom text is the any(...) call; accepted iff it is False and non-negativity is True
                want = (not vi) and vn
                if reached and not want:
                    bad.append(f"LU result returned with any-infinite={vi}, non-negative={vn}")
        rep.ob(rule, f.fq(), f"return {xname} only if the input is finite and the solution non-negative", f.loc(cfg.nodes[rets[0]].stmt), not bad, '; '.join(bad) if bad else 'truth table over the two acceptance tests agrees')
    # consumed buffers: after the in-place transformation, the fallback must not pass the buffers on
    consume = [n for n, nd in cfg.nodes.items() if nd.kind == 'stmt' and nd.stmt is not None and any(isinstance(x, ast.Call) and (callee_last(x) or '').endswith('_') and not (callee_last(x) or '').endswith('__') and names_in(x) & set(bufs) for x in ast.walk(nd.stmt))]
    fallback = [x for x in own_nodes(f.node) if isinstance(x, ast.Call) and callee_last(x) == 'solve_thunks']
    okf = bool(fallback)
    for c in fallback:
        args = [norm(a) for a in c.args]
        if any(b in args for b in bufs) or not all(t in args for t in thunks):
            okf = False
    rep.ob(rule, f.fq(), 'fallback re-invokes the thunks (consumed buffers are not reused)', f.loc(fallback[0]) if fallback else f.loc(), okf,
           f"{len(consume)} in-place transformation(s) of the buffers; fallback call arguments: {[norm(c)[:70] for c in fallback]}" if okf else
           'the generic solver is handed the buffers that the LU attempt has already overwritten (or not the thunks)')
    # the fallback is reached on every path that does not return the LU result (including RuntimeError)
    if fallback:
        fb_n = cfg.node_of(enclosing_stmt(f, fallback[0]))
        handlers = [n for n, nd in cfg.nodes.items() if nd.kind == 'except']
        okh = all(cfg.reaches(h, fb_n) or any(cfg.nodes[m].kind == 'raise' for m in cfg.reachable([h])) for h in handlers) and bool(handlers)
        rep.ob(rule, f.fq(), 'a failed torch.linalg.solve (RuntimeError) falls back to the generic solver', f.loc(), okh, '')


def semiring_zero_tests(rep: Report, prog: Program) -> None:
    """multi.py works in whatever semiring its operands carry: "this block is zero, skip it" must mean the semiring's zero (-inf in
    the log and Viterbi semirings, where the numeric 0.0 is the semiring *one*).  A test of stored elements against the number zero
    -- truthiness, .any()/.all(), count_nonzero, == 0 on `.physical` -- is right in the real and boolean semirings only.  The rule
    has no instance on today's tree (kept alive by a synthetic positive example)."""
    rule = 'C09-D5 semiring-zero tests'
    rep.rule('C09-D5', 'no numeric-zero test on stored tensor elements in the semiring-generic block algebra of fggs/multi.py (any/all/count_nonzero/nonzero/== 0 on `.physical`)')

    def numeric_tests(tree):
        out = []
        for x in ast.walk(tree):
            if isinstance(x, ast.Call) and isinstance(x.func, ast.Attribute) and x.func.attr in ('any', 'all', 'count_nonzero', 'nonzero') and 'physical' in norm(x.func.value):
                out.append(x)
            if isinstance(x, ast.Compare) and len(x.ops) == 1 and isinstance(x.ops[0], (ast.Eq, ast.NotEq)) and 'physical' in norm(x.left) \
                    and isinstance(x.comparators[0], ast.Constant) and x.comparators[0].value in (0, 0.0, False):
                out.append(x)
        return out
    if len(numeric_tests(ast.parse("def f(b, z):\n    if not b[z].physical.any():\n        return None\n"))) != 1:
        rep.error(f"{rule}: the synthetic positive example is no longer matched")
    n_f = 0
    for f in prog.module('fggs.multi').functions.values():
        if f.is_lambda:
            continue
        n_f += 1
        for t in numeric_tests(f.node) if f.parent is None else []:
            rep.ob(rule, f.fq(), norm(t)[:80], f.loc(t), False,
                   'tests stored elements against the number 0: in the log and Viterbi semirings 0.0 is the semiring one, so a block of ones is treated as a block of zeros')
    rep.ob(rule, 'fggs.multi', 'no numeric-zero test on stored elements', 'fggs/multi.py:1', True, f"{n_f} functions examined")
    rep.floor('C09-D5 functions', n_f, 10)


def generic_elimination(rep: Report, prog: Program) -> None:
    rule = 'C09-D3 generic-elimination'
    f = prog.func('fggs.semirings', 'Semiring.solve_thunks')
    pos = f.positional_params()
    thunks = pos[1:3]
    got = {n.value.func.id for n in own_nodes(f.node) if isinstance(n, ast.Assign) and isinstance(n.value, ast.Call) and isinstance(n.value.func, ast.Name) and n.value.func.id in thunks}
    rep.ob(rule, f.fq(), 'both buffers come from the thunks', f.loc(), got == set(thunks), f"thunks called: {sorted(got)}")
    loops = [l for l in own_nodes(f.node) if isinstance(l, ast.For) and isinstance(l.iter, ast.Call) and callee_last(l.iter) == 'range']
    ok = any(len(l.iter.args) == 1 and norm(l.iter.args[0]).endswith('.shape[0]') for l in loops)
    rep.ob(rule, f.fq(), 'every pivot is eliminated: for k in range(a.shape[0])', f.loc(), ok, '' if ok else f"pivot loop ranges over {[norm(l.iter) for l in loops]}")
    # the right-hand side is updated in every pivot step, whatever its rank: on each path of an iteration x += a[:,k] * x[k]
    fcfg = cfg_of(f)
    xname = None
    for n_ in own_nodes(f.node):
        if isinstance(n_, ast.Assign) and isinstance(n_.value, ast.Call) and isinstance(n_.value.func, ast.Name) and n_.value.func.id == thunks[1] and isinstance(n_.targets[0], ast.Name):
            xname = n_.targets[0].id
    for l in loops:
        hdr = fcfg.node_of(l)
        be = [b for b, lab in fcfg.succ[hdr] if lab == 'iter'][0]
        upd = lambda m: fcfg.nodes[m].kind == 'stmt' and any(isinstance(c, ast.Call) and callee_last(c) in ('add_', 'add') and c.args and norm(c.args[0]) == xname for c in ast.walk(fcfg.nodes[m].stmt)) \
            or (fcfg.nodes[m].kind == 'stmt' and isinstance(fcfg.nodes[m].stmt, (ast.Assign, ast.AugAssign)) and xname in {norm(t) for t in ([fcfg.nodes[m].stmt.target] if isinstance(fcfg.nodes[m].stmt, ast.AugAssign) else fcfg.nodes[m].stmt.targets)})
        okp, wit = fcfg.all_paths_pass(be, upd, targets={hdr, fcfg.exit})
        rep.ob(rule, f.fq(), f"for {norm(l.target)} in {norm(l.iter)}: `{xname}` is updated in every pivot step", f.loc(l), okp and xname is not None,
               'x += a[:,k] * x[k] on every path of the iteration' if okp else
               'an iteration can finish without substituting x[k] into the other rows (a right-hand side of a rank no branch handles is returned unchanged): ' + ' -> '.join(fcfg.describe(w).split(':', 1)[0] for w in (wit or [])[-4:]))
    for l in loops:
        k = norm(l.target)
        # the scaling a[:,k] = mul(a[:,k], star(a[k,k])) precedes, on every path of the iteration, the two updates that read the column
        hdr = fcfg.node_of(l)
        be = [b for b, lab in fcfg.succ[hdr] if lab == 'iter'][0]
        def scales(m, k=k):
            st = fcfg.nodes[m].stmt
            return fcfg.nodes[m].kind == 'stmt' and isinstance(st, ast.Assign) and norm(st.targets[0]).endswith(f"[:, {k}]") \
                and any(isinstance(x, ast.Call) and callee_last(x) == 'star' and x.args and norm(x.args[0]).endswith(f"[{k}, {k}]") for x in ast.walk(st.value))
        users = {m for m in fcfg.loop_body.get(hdr, set()) if fcfg.nodes[m].kind == 'stmt' and not scales(m)
                 and any(isinstance(x, ast.Call) and callee_last(x) in ('add_', 'add') for x in ast.walk(fcfg.nodes[m].stmt))}
        has = any(scales(m) for m in fcfg.loop_body.get(hdr, set()))
        oks = has and bool(users) and fcfg.all_paths_pass(be, scales, targets=users)[0]
        rep.ob(rule, f.fq(), f"pivot column scaled by star(a[{k},{k}]) first", f.loc(l), bool(oks), '' if oks else 'the pivot loop does not scale a[:,k] by star(a[k,k]) before the updates that read the column')


# ------------------------------------------------------------------------------------------ D4 rank of transposed values
def transposes_of_matrices(rep: Report, prog: Program) -> None:
    """`.T` of a PatternedTensor reverses *all* axes; it is the matrix transpose only of a value with two axes.  In multi.py
    blocks are flattened (`reshape(flat[x] + flat[y])`, elements of a MultiTensor built over flat shapes); a small rank inference
    over the function decides that every transposed value is such a matrix."""
    rule = 'C09-D4 transposes-of-matrices'
    n_sites = 0
    for fn in ('multi_solve', 'multi_mv'):
        f = prog.func('fggs.multi', fn)
        cfg = cfg_of(f)
        dom = cfg.dominators()
        assigns: Dict[str, List[int]] = {}
        for n, nd in cfg.nodes.items():
            if nd.kind == 'stmt' and isinstance(nd.stmt, (ast.Assign, ast.AnnAssign)):
                for t in (nd.stmt.targets if isinstance(nd.stmt, ast.Assign) else [nd.stmt.target]):
                    if isinstance(t, ast.Name):
                        assigns.setdefault(t.id, []).append(n)
        loops = {n: nd.stmt for n, nd in cfg.nodes.items() if nd.kind == 'for'}

        def flat_dict(name: str) -> bool:
            ds = assigns.get(name, [])
            if len(ds) != 1:
                return False
            v = cfg.nodes[ds[0]].stmt.value
            if not isinstance(v, ast.DictComp):
                return False
            val = v.value
            if isinstance(val, ast.Call) and callee_last(val) == 'Size' and val.args:
                val = val.args[0]
            return isinstance(val, ast.Tuple) and len(val.elts) == 1

        def reaching(name: str, at: int) -> Optional[ast.AST]:
            """The defining expression of `name` at node `at`: the closest assignment that dominates it, provided no other
            assignment lies between (None: a parameter or ambiguous)."""
            ds = [d for d in assigns.get(name, []) if d in dom.get(at, set()) and d != at]
            if not ds:
                return None
            best = max(ds, key=lambda d: len(dom.get(d, set())))
            others = [d for d in assigns.get(name, []) if d != best and d not in dom.get(best, set())]
            if any(cfg.reaches(best, o) and cfg.reaches(o, at) for o in others):
                return None
            return cfg.nodes[best].stmt.value

        def multi_rank(e: ast.AST, at: int, depth: int = 0) -> Optional[int]:
            """Rank of the elements of the MultiTensor denoted by e."""
            if depth > 4:
                return None
            if isinstance(e, ast.Name):
                v = reaching(e.id, at)
                return multi_rank(v, at, depth + 1) if v is not None else None
            if isinstance(e, ast.Call) and callee_last(e) == 'MultiTensor' and e.args and isinstance(e.args[0], ast.Tuple):
                comps = e.args[0].elts
                if all(isinstance(c, ast.Name) and flat_dict(c.id) for c in comps):
                    return len(comps)
            return None

        def rank(e: ast.AST, at: int, depth: int = 0) -> Optional[int]:
            if depth > 6:
                return None
            if isinstance(e, ast.Attribute) and e.attr == 'T':
                return rank(e.value, at, depth + 1)
            if isinstance(e, ast.Subscript):
                return multi_rank(e.value, at)
            if isinstance(e, ast.Name):
                v = reaching(e.id, at)
                if v is not None:
                    return rank(v, at, depth + 1)
                # loop target of `for k, t in M.items()` / `for t in M.values()`
                for ln, lp in loops.items():
                    if ln in dom.get(at, set()) and e.id in names_in(lp.target) and isinstance(lp.iter, ast.Call) and callee_last(lp.iter) in ('items', 'values'):
                        return multi_rank(lp.iter.func.value, ln)
                return None
            if isinstance(e, ast.Call) and isinstance(e.func, ast.Attribute):
                m = e.func.attr
                if m in ('reshape', 'view') and len(e.args) == 1:
                    parts: List[ast.AST] = []
                    def split(x):
                        if isinstance(x, ast.BinOp) and isinstance(x.op, ast.Add):
                            split(x.left); split(x.right)
                        else:
                            parts.append(x)
                    split(e.args[0])
                    if all(isinstance(p_, ast.Subscript) and isinstance(p_.value, ast.Name) and flat_dict(p_.value.id) for p_ in parts):
                        return len(parts)
                    return None
                if m == 'flatten' and not e.args:
                    return 1
                if m in ('clone', 'copy_', 'detach', 'to', 'freshen'):
                    return rank(e.func.value, at, depth + 1)
                if m == 'solve' and e.args:
                    return rank(e.args[0], at, depth + 1)
                if m == 'mm':
                    return 2
                if m == 'mv':
                    return 1
            return None
        for n, nd in cfg.nodes.items():
            st = nd.stmt if nd.kind in ('stmt', 'return') else nd.expr if nd.kind == 'test' else None
            if st is None:
                continue
            for x in ast.walk(st):
                if isinstance(x, ast.Attribute) and x.attr == 'T' and isinstance(x.ctx, ast.Load):
                    n_sites += 1
                    r = rank(x.value, n)
                    rep.ob(rule, f.fq(), f"{norm(x)[:70]}: the transposed value has two axes", f.loc(x), r == 2,
                           'a block flattened to a matrix' if r == 2 else
                           (f"the value has {r} axis" if r is not None else 'the value is not known to be flattened to two axes') +
                           ': `.T` reverses all axes, so for a block index of more than one dimension this is not the transpose of the flattened matrix')
    rep.floor('C09-D4', n_sites, 4)
