"""C02 -- recursive sum-product: budget exhaustion must warn; `linear` must raise on non-linear recursion;
a requested method is never silently replaced by another iterative method; star at the radius (E3)."""
from __future__ import annotations
import ast
from typing import Dict, Optional, Set
from ..model import Program, AnalysisError, own_nodes, norm, names_in
from ..cfg import cfg_of
from ..guards import Env, walk, collect_atoms, valuations
from ..report import Report
from ..rules.budget import check_budget_loops
from ..rules.dispatch import check_dispatch, docstring_options, argparse_choices, check_forwarding
from ..callgraph import Resolver
from ..util import callee_last, inline_temps

SP = 'fggs.sum_product'


def run(prog: Program, rep: Report, tier: str) -> None:
    from ..absint import domain as _dom
    if tier == 'thorough':
        _dom.refine([-2.0, -0.5, 0.5, 2.0])
        rep.notes.append('thorough tier: abstract partition refined with cut points -2, -0.5, 0.5, 2 (16 numeric classes)')
    try:
        _run(prog, rep, tier)
    finally:
        _dom.refine([])


def _run(prog: Program, rep: Report, tier: str) -> None:
    rep.rule('C02-D1', 'budget-must-warn: every kmax-bounded loop of fggs/sum_product.py reaches warnings.warn on all paths from its budget exit (guards on the counter evaluated under the exit fact)')
    rep.rule('C02-D2', "linear-raises: in `linear`, with the count of in-component rhs edges abstracted to {0,1,2,3}, count>=2 always reaches `raise` before any add_single and count<=1 never raises; per-SCC method rewrites are constants in {'one-step','linear'} guarded by the in-component edge count; SumProduct.forward's dispatch is exhaustive with a raising fall-through; tol/kmax are forwarded to the iterative solvers")
    rep.rule('C02-D4', "rule-contributions-accumulate: inside a loop over a nonterminal's rules (F, J, J_precompute_products, J_log, linear) every store into a MultiTensor under construction is an accumulation (add_single, or X[k] = ... X[k] ...): the block of a nonterminal is the semiring sum over all its rules, and of a pair (X, Y) over all rules and edges")
    rep.rule('C02-D3', 'star-at-radius (abstract interpretation, shared with C08-L6): star(one) is one in idempotent semirings and top otherwise')
    rep.not_decided += ['convergence to the least fixed point', 'error -> 0 as tol -> 0', "correctness of Newton's iteration and of multi_solve"]
    rep.trusted += ['warnings.warn emits a warning when called', 'range(n) yields 0..n-1']
    m = prog.module(SP)

    # ---- D1
    n_loops = 0
    for f in m.functions.values():
        if f.is_lambda or 'kmax' not in f.param_names() or prog.is_new_helper(f):   # a helper cut out of a solver is checked where it is inlined
            continue
        n_loops += check_budget_loops(rep, f, 'kmax', 'C02-D1 budget-must-warn')
    rep.floor('C02-D1', n_loops, 2)

    # ---- D2a  linear
    check_linear(rep, prog)
    # ---- D2b  method rewrites in sum_products
    check_rewrites(rep, prog)
    # ---- D2c  dispatch
    fwd = prog.func(SP, 'SumProduct.forward')
    sel = method_selector(fwd)
    doc = docstring_options(prog.func(SP, 'sum_product'), 'method')
    binc = argparse_choices(prog, 'bin.sum_product', 'method')
    documented: Dict[str, Set[str]] = {}
    if doc: documented['sum_product docstring'] = doc
    if binc: documented['bin/sum_product.py -m choices'] = binc
    if not documented:
        rep.error('C02-D2: neither the sum_product docstring nor bin/sum_product.py lists the method options any more')
    rewrites = rewrite_constants(prog)
    check_dispatch(rep, 'C02-D2 dispatch', fwd, sel, documented, internal=rewrites)
    # ---- D2d  tol/kmax forwarding from forward() to the solvers
    res = Resolver(prog)
    nf = 0
    for p in ('tol', 'kmax'):
        nf += check_opts_forwarding(rep, fwd, p)
    rep.floor('C02-D2 opts-forwarding', nf, 4)

    # ---- D2d'  the public wrapper hands the caller's options on as they are (tol=0 and kmax=0 are values, not "unset")
    sp = prog.func(SP, 'sum_product')
    kwname = sp.node.args.kwarg.arg if sp.node.args.kwarg is not None else None
    calls_sp = [c for c in own_nodes(sp.node) if isinstance(c, ast.Call) and callee_last(c) == 'sum_products']
    rep.floor('C02-D2 options-forwarded', len(calls_sp), 1)
    for c in calls_sp:
        stars = [k.value for k in c.keywords if k.arg is None]
        rebound = kwname is not None and any(isinstance(x, ast.Name) and x.id == kwname and isinstance(x.ctx, ast.Store) for x in own_nodes(sp.node))
        ok = kwname is not None and len(stars) == 1 and isinstance(stars[0], ast.Name) and stars[0].id == kwname and not rebound
        rep.ob('C02-D2 options-forwarded', sp.fq(), norm(c)[:90], sp.loc(c), ok,
               'sum_products receives exactly the options the caller gave' if ok else
               f"the options are filtered or rebuilt on the way (`{norm(stars[0])[:60] if stars else 'no **'}`): a value the filter drops (tol=0, kmax=0, False) silently becomes the default")
    # ---- D2e  the stopping test of the iterative solvers compares consecutive iterates with the caller's tol
    for name in ('fixed_point', 'newton'):
        g = prog.func(SP, name)
        calls = [x for x in own_nodes(g.node) if isinstance(x, ast.Call) and callee_last(x) in ('shouldStop', 'allclose')]
        rep.floor(f"C02-D2 stop-test in {name}", len(calls), 1)
        for c in calls:
            tol_arg = c.args[1] if len(c.args) > 1 else next((k.value for k in c.keywords if k.arg == 'tol'), None)
            ok = isinstance(tol_arg, ast.Name) and tol_arg.id == 'tol'
            rep.ob('C02-D2 stop-test', g.fq(), norm(c), g.loc(c), ok, 'the caller\'s tol is used unmodified' if ok else f"tolerance argument is `{norm(tol_arg) if tol_arg is not None else None}`")
    # ---- D4  contributions of several rules (and of several edges with one label) to one block are summed
    check_rule_contributions(rep, prog)
    # ---- D3
    from ..absint import semiring_laws
    semiring_laws.check_star_at_one(prog, rep, 'C02-D3 star-at-radius')


def check_rule_contributions(rep: Report, prog: Program) -> None:
    rule = 'C02-D4 rule-contributions-accumulate'
    n_sites = 0
    for f in prog.module(SP).functions.values():
        if f.is_lambda or prog.is_new_helper(f):
            continue
        from ..rules.loopstate import multitensor_names
        multis = multitensor_names(f)
        if not multis:
            continue
        for loop in [n for n in own_nodes(f.node) if isinstance(n, ast.For)]:
            it = norm(loop.iter)
            if not (isinstance(loop.iter, ast.Call) and callee_last(loop.iter) in ('rules', 'all_rules') or 'rule' in {x.id for x in ast.walk(loop.target) if isinstance(x, ast.Name)}):
                continue
            for st in ast.walk(loop):
                if isinstance(st, ast.Call) and isinstance(st.func, ast.Attribute) and st.func.attr == 'add_single' \
                        and isinstance(st.func.value, ast.Name) and st.func.value.id in multis:
                    n_sites += 1
                    rep.ob(rule, f.fq(), norm(st)[:100], f.loc(st), True, 'accumulated with add_single')
                elif isinstance(st, (ast.Assign, ast.AugAssign)):
                    tgts = st.targets if isinstance(st, ast.Assign) else [st.target]
                    for t in tgts:
                        if isinstance(t, ast.Subscript) and isinstance(t.value, ast.Name) and t.value.id in multis:
                            n_sites += 1
                            key = norm(t)
                            reads_old = isinstance(st, ast.AugAssign) or any(isinstance(x, ast.Subscript) and norm(x) == key and isinstance(x.ctx, ast.Load) for x in ast.walk(st.value))
                            rep.ob(rule, f.fq(), norm(st)[:100], f.loc(st), reads_old,
                                   'the stored value reads the old block' if reads_old else
                                   f"`{key}` is overwritten inside the loop over `{it}`: when two rules (or two edges with one label) contribute to this block only the last contribution survives")
    rep.floor(rule, n_sites, 5)
    from ..rules.loopstate import check_jacobi_sweep
    nj = 0
    for name in ('F', 'J', 'J_log'):
        nj += check_jacobi_sweep(rep, 'C02-D4 jacobi-sweep', prog.func(SP, name))
    rep.floor('C02-D4 jacobi-sweep', nj, 3)


def method_selector(fwd) -> str:
    """Local that receives opts['method'] in SumProduct.forward."""
    for n in own_nodes(fwd.node):
        if isinstance(n, ast.Assign):
            tgts = n.targets[0].elts if isinstance(n.targets[0], ast.Tuple) else [n.targets[0]]
            vals = n.value.elts if isinstance(n.value, ast.Tuple) else [n.value]
            if len(tgts) == len(vals):
                for t, v in zip(tgts, vals):
                    if isinstance(t, ast.Name) and isinstance(v, ast.Subscript) and isinstance(v.slice, ast.Constant) and v.slice.value == 'method':
                        return t.id
    # direct use of opts['method'] in comparisons
    for n in own_nodes(fwd.node):
        if isinstance(n, ast.Compare):
            for o in [n.left] + n.comparators:
                if isinstance(o, ast.Subscript) and isinstance(o.slice, ast.Constant) and o.slice.value == 'method':
                    return norm(o)
    raise AnalysisError("C02-D2: cannot find where SumProduct.forward reads opts['method']")


def check_opts_forwarding(rep: Report, fwd, key: str) -> int:
    """Calls in forward() to functions with a keyword-only/positional parameter `key` pass opts[key] (or a local bound to it)."""
    n = 0
    mod = fwd.module
    for c in [x for x in own_nodes(fwd.node) if isinstance(x, ast.Call)]:
        name = callee_last(c)
        tgt = mod.functions.get(name) if name else None
        if tgt is None or key not in tgt.param_names():
            continue
        n += 1
        arg = None
        for k in c.keywords:
            if k.arg == key: arg = k.value
        pos = tgt.positional_params()
        if arg is None and key in pos and pos.index(key) < len(c.args):
            arg = c.args[pos.index(key)]
        ok = arg is not None and any(isinstance(s, ast.Subscript) and isinstance(s.slice, ast.Constant) and s.slice.value == key
                                     for s in ast.walk(arg))
        if arg is not None and not ok and isinstance(arg, ast.Name):
            # local bound from opts[key] / opts.get(key, ...)
            for a in own_nodes(fwd.node):
                if isinstance(a, ast.Assign) and any(isinstance(t, ast.Name) and t.id == arg.id for t in ast.walk(a.targets[0])):
                    if key in [x.value for x in ast.walk(a.value) if isinstance(x, ast.Constant)]:
                        ok = True
        rep.ob('C02-D2 opts-forwarding', fwd.fq(), f"{name}(...) receives opts[{key!r}]", fwd.loc(c), ok,
               f"argument for `{key}`: {norm(arg) if arg is not None else '<missing: callee default used>'}")
    return n


def rewrite_constants(prog: Program) -> Set[str]:
    f = prog.func(SP, 'sum_products')
    out: Set[str] = set()
    for n in own_nodes(f.node):
        if isinstance(n, ast.Assign):
            for t in n.targets:
                if isinstance(t, ast.Subscript) and isinstance(t.slice, ast.Constant) and t.slice.value == 'method' and isinstance(n.value, ast.Constant):
                    out.add(n.value.value)
            # merged copies: opts | {'method': c} / dict(opts, method=c) / {**opts, 'method': c}
            v = n.value
            cands = []
            if isinstance(v, ast.BinOp) and isinstance(v.op, ast.BitOr) and isinstance(v.right, ast.Dict):
                cands = [val for k, val in zip(v.right.keys, v.right.values) if isinstance(k, ast.Constant) and k.value == 'method']
            elif isinstance(v, ast.Call) and callee_last(v) == 'dict':
                cands = [k.value for k in v.keywords if k.arg == 'method']
            elif isinstance(v, ast.Dict):
                cands = [val for k, val in zip(v.keys, v.values) if isinstance(k, ast.Constant) and k.value == 'method']
            out |= {c.value for c in cands if isinstance(c, ast.Constant) and isinstance(c.value, str)}
    return out


def check_rewrites(rep: Report, prog: Program) -> None:
    """comp_opts['method'] = <const>: const in {'one-step','linear'}; 'one-step' only when the in-component edge count is 0,
    'linear' only when it is 1 (so that `linear` cannot be handed a non-linear SCC silently... it would raise) and never
    replaces a requested 'linear'/'fixed-point' by a different iterative method."""
    rule = 'C02-D2 method-rewrite'
    f = prog.func(SP, 'sum_products')
    cfg = cfg_of(f)
    stores = []
    for n in own_nodes(f.node):
        if isinstance(n, ast.Assign):
            for t in n.targets:
                if isinstance(t, ast.Subscript) and isinstance(t.slice, ast.Constant) and t.slice.value == 'method':
                    stores.append(n)
    # the same rewrite written as a merged copy: X = opts | {'method': c} / dict(opts, method=c) / {**opts, 'method': c}
    import copy as _copy
    for n in own_nodes(f.node):
        if isinstance(n, ast.Assign) and len(n.targets) == 1 and isinstance(n.targets[0], ast.Name):
            v = n.value; c = None
            if isinstance(v, ast.BinOp) and isinstance(v.op, ast.BitOr) and isinstance(v.right, ast.Dict):
                c = next((val for k, val in zip(v.right.keys, v.right.values) if isinstance(k, ast.Constant) and k.value == 'method'), None)
            elif isinstance(v, ast.Call) and callee_last(v) == 'dict' and v.args:
                c = next((k.value for k in v.keywords if k.arg == 'method'), None)
            elif isinstance(v, ast.Dict) and any(k is None for k in v.keys):
                c = next((val for k, val in zip(v.keys, v.values) if isinstance(k, ast.Constant) and k.value == 'method'), None)
            if c is not None:
                fake = ast.copy_location(ast.Assign(targets=[ast.Subscript(value=ast.Name(id=n.targets[0].id, ctx=ast.Load()), slice=ast.Constant(value='method'), ctx=ast.Store())], value=c), n)
                ast.fix_missing_locations(fake)
                fake._sa_real = n
                stores.append(fake)
    rep.floor(rule, len(stores), 2)
    # the counter of in-component edges: a name V with  V = max(V, n)  (running maximum)
    maxvars = set()
    for n in own_nodes(f.node):
        if isinstance(n, ast.Assign) and len(n.targets) == 1 and isinstance(n.targets[0], ast.Name) \
                and isinstance(n.value, ast.Call) and callee_last(n.value) == 'max' \
                and n.targets[0].id in names_in(n.value):
            maxvars.add(n.targets[0].id)
        # the same running maximum spelt  `if n > V: V = n`  /  `if V < n: V = n`
        if isinstance(n, ast.If) and not n.orelse and len(n.body) == 1 and isinstance(n.body[0], ast.Assign) and len(n.body[0].targets) == 1 \
                and isinstance(n.body[0].targets[0], ast.Name) and isinstance(n.test, ast.Compare) and len(n.test.ops) == 1:
            V, val = n.body[0].targets[0].id, norm(n.body[0].value)
            l_, op_, r_ = norm(n.test.left), n.test.ops[0], norm(n.test.comparators[0])
            if (isinstance(op_, (ast.Gt, ast.GtE)) and l_ == val and r_ == V) or (isinstance(op_, (ast.Lt, ast.LtE)) and l_ == V and r_ == val):
                maxvars.add(V)
    # what the counter counts: rhs edges whose label lies *in the component* (`e.label in comp`) -- the recursive ones.  A count of
    # all nonterminal edges classifies a non-recursive nonterminal with a nonterminal child as recursive: it is then iterated from
    # zero and stopped by the tolerance, instead of being evaluated exactly in one step
    from ..util import parents as _parents
    pm_ = _parents(f)
    comp_vars = {norm(l.target) for l in own_nodes(f.node) if isinstance(l, ast.For) and any(isinstance(x, ast.Call) and callee_last(x) == 'scc' for x in ast.walk(inline_temps(f.node, l.iter)))}
    incs = [a for a in own_nodes(f.node) if isinstance(a, ast.AugAssign) and isinstance(a.op, ast.Add) and isinstance(a.target, ast.Name)
            and isinstance(a.value, ast.Constant) and a.value.value == 1 and a.target.id not in maxvars]
    for a in incs:
        guarded = False
        ch, p_ = a, pm_.get(id(a))
        while p_ is not None and not isinstance(p_, (ast.For, ast.While, ast.FunctionDef)):
            if isinstance(p_, ast.If):
                t_ = p_.test
                if isinstance(t_, ast.Compare) and len(t_.ops) == 1 and norm(t_.comparators[0]) in comp_vars and norm(t_.left).endswith('.label'):
                    if (isinstance(t_.ops[0], ast.In) and ch in p_.body) or (isinstance(t_.ops[0], ast.NotIn) and ch in p_.orelse):
                        guarded = True
            ch, p_ = p_, pm_.get(id(p_))
        rep.ob(rule, f.fq(), f"{norm(a)}: counts the rhs edges whose label is in the component", f.loc(a), guarded,
               'incremented under `<edge>.label in <component>`' if guarded else
               f"`{norm(a)}` is not guarded by a membership test of the edge's label in the component: edges to nonterminals outside the component are counted as recursive")
    rep.floor(rule + ' counter increments', len(incs), 1)
    for st in stores:
        v = st.value
        construct = norm(st)
        if not isinstance(v, ast.Constant) or v.value not in ('one-step', 'linear'):
            rep.ob(rule, f.fq(), construct, f.loc(st), False,
                   "a per-SCC method rewrite must be the constant 'one-step' or 'linear' (never an iterative method the caller did not ask for)")
            continue
        want = 0 if v.value == 'one-step' else 1
        node = cfg.node_of(getattr(st, '_sa_real', st))
        # evaluate the guards with the running maximum set to 0..3
        if len(maxvars) != 1:
            rep.error(f"{rule}: cannot identify the in-component edge counter (running maximum) in sum_products: {sorted(maxvars)}")
            return
        mv = next(iter(maxvars))
        reached_for = []
        # start after the last assignment to the counter: the statement dominating the store = first test guarding it
        # guards evaluated on the final value of the counter: tests from which no further assignment to it can be reached
        # (the running-maximum update itself may be spelt as a test: `if n > V: V = n`)
        mv_assigns = [n for n, nd in cfg.nodes.items() if nd.kind == 'stmt' and isinstance(nd.stmt, (ast.Assign, ast.AugAssign))
                      and mv in {norm(t) for t in ([nd.stmt.target] if isinstance(nd.stmt, ast.AugAssign) else nd.stmt.targets)}]
        tests = [n for n, nd in cfg.nodes.items() if nd.kind == 'test' and mv in names_in(nd.expr)
                 and not any(cfg.reaches(n, a, stop=lambda z, hs=set(nd.loops): z in hs) for a in mv_assigns)]       # within the same iteration of the enclosing loops
        if not tests:
            rep.error(f"{rule}: no guard on `{mv}` before {construct}")
            return
        first = min(tests, key=lambda n: cfg.nodes[n].lineno)
        for val in range(0, 4):
            env = Env(ints={mv: val})
            loops = cfg.nodes[first].loops
            r = walk(cfg, first, env, unknown='both', loop_header_stop=loops[-1] if loops else None)
            if node in r:
                reached_for.append(val)
        ok = reached_for == [want]
        rep.ob(rule, f.fq(), construct, f.loc(st), ok,
               f"store executes for in-component edge count in {reached_for} (abstract values 0..3); required exactly [{want}]")
    # requested method preserved otherwise: the rewrite to 'linear' must be conditional on the requested method being 'newton'
    # (a requested 'fixed-point' stays 'fixed-point'); decided by evaluating the guard with opts['method'] = each documented option
    for st in stores:
        if not (isinstance(st.value, ast.Constant) and st.value.value == 'linear'):
            continue
        node = cfg.node_of(getattr(st, '_sa_real', st))
        sel = None
        for n, nd in cfg.nodes.items():
            if nd.kind == 'test':
                for x in ast.walk(nd.expr):
                    if isinstance(x, ast.Subscript) and isinstance(x.slice, ast.Constant) and x.slice.value == 'method':
                        sel = norm(x)
        if sel is None:
            rep.ob(rule, f.fq(), norm(st) + ' [requested method]', f.loc(st), False, "rewrite to 'linear' is not conditional on the requested method")
            continue
        mv = next(iter(maxvars))
        mv_assigns = [n for n, nd in cfg.nodes.items() if nd.kind == 'stmt' and isinstance(nd.stmt, (ast.Assign, ast.AugAssign))
                      and mv in {norm(t) for t in ([nd.stmt.target] if isinstance(nd.stmt, ast.AugAssign) else nd.stmt.targets)}]
        tests = [n for n, nd in cfg.nodes.items() if nd.kind == 'test' and mv in names_in(nd.expr)
                 and not any(cfg.reaches(n, a, stop=lambda z, hs=set(nd.loops): z in hs) for a in mv_assigns)]
        first = min(tests, key=lambda n: cfg.nodes[n].lineno)
        hit = []
        for opt in ('fixed-point', 'newton', 'linear'):
            env = Env(ints={mv: 1}, strs={sel: opt})
            loops = cfg.nodes[first].loops
            if node in walk(cfg, first, env, unknown='both', loop_header_stop=loops[-1] if loops else None):
                hit.append(opt)
        ok = 'fixed-point' not in hit
        rep.ob(rule, f.fq(), norm(st) + ' [requested method]', f.loc(st), ok,
               f"with one in-component edge the rewrite to 'linear' happens for requested method in {hit}; a requested 'fixed-point' must be kept")


def check_linear(rep: Report, prog: Program) -> None:
    rule = 'C02-D2 linear-raises'
    f = prog.func(SP, 'linear')
    cfg = cfg_of(f)
    raises = {n for n, nd in cfg.nodes.items() if nd.kind == 'raise'}
    if not raises:
        rep.ob(rule, f.fq(), 'raise ValueError on non-linear recursion', f.loc(), False, '`linear` contains no raise statement at all')
        return
    from ..util import check_raise_type
    for rn in sorted(raises):
        if isinstance(cfg.nodes[rn].stmt, ast.Raise):
            check_raise_type(rep, rule + ' exception type', prog, f, cfg.nodes[rn].stmt, 'ValueError', 'non-linear recursion')
    terms: Dict[str, str] = {}
    tests = []
    for n, nd in cfg.nodes.items():
        if nd.kind != 'test':
            continue
        for x in ast.walk(nd.expr):
            if isinstance(x, ast.Call) and isinstance(x.func, ast.Name) and x.func.id == 'len' and len(x.args) == 1 and isinstance(x.args[0], ast.Name):
                terms[norm(x)] = x.args[0].id
                tests.append(n)
    if len(terms) != 1:
        rep.error(f"{rule}: expected exactly one len(<edges>) term guarding the cases of `linear`, found {sorted(terms)}")
        return
    term, var = next(iter(terms.items()))
    # the empty case may be tested by truthiness (`if not edges`): every test that mentions the list belongs to the case analysis
    tests = [n for n, nd in cfg.nodes.items() if nd.kind == 'test' and var in names_in(nd.expr)]
    # role of the variable: rhs edges whose label is not an input
    role_ok, role_detail = edges_not_in_inputs(f, var)
    rep.ob(rule, f.fq(), f"{var} = rhs edges whose label is not in the inputs", f.loc(), role_ok, role_detail)
    first = min(tests, key=lambda n: cfg.nodes[n].lineno)
    loops = cfg.nodes[first].loops
    header = loops[-1] if loops else None

    def has_call(n: int, name: str) -> bool:
        st = cfg.nodes[n].stmt
        return st is not None and cfg.nodes[n].kind == 'stmt' and any(isinstance(x, ast.Call) and callee_last(x) == name for x in ast.walk(st))
    for val in range(0, 4):
        env = Env(ints={term: val})
        r = walk(cfg, first, env, stop=lambda n: n in raises, loop_header_stop=header)
        reached_raise = bool(r & raises)
        escapes = (header in r if header is not None else False) or cfg.exit in r
        adds = [n for n in r if has_call(n, 'add_single')]
        if val >= 2:
            ok = reached_raise and not escapes and not adds
            rep.ob(rule, f.fq(), f"{term} == {val}: every path raises before contributing", f.loc(cfg.nodes[first].stmt), ok,
                   f"raise reached: {reached_raise}; path continuing without raise: {escapes}; add_single reachable first: {bool(adds)}")
        else:
            ok = not reached_raise
            rep.ob(rule, f.fq(), f"{term} == {val}: no raise", f.loc(cfg.nodes[first].stmt), ok,
                   f"raise reachable: {reached_raise}")


def edges_not_in_inputs(f, var: str):
    asg = [n for n in own_nodes(f.node) if isinstance(n, ast.Assign) and any(isinstance(t, ast.Name) and t.id == var for t in n.targets)]
    if len(asg) != 1:
        return False, f"`{var}` is assigned {len(asg)} times (rule expects one definition)"
    v = asg[0].value
    if not isinstance(v, (ast.ListComp, ast.GeneratorExp, ast.SetComp)) or len(v.generators) != 1:
        raise AnalysisError(f"C02-D2: {f.loc(asg[0])} `{var}` is not defined by a single-generator comprehension; idiom not recognised")
    g = v.generators[0]
    from ..util import inline_temps
    it = inline_temps(f.node, g.iter)          # `rhs_edges = rule.rhs.edges()` named first
    if not (isinstance(it, ast.Call) and callee_last(it) == 'edges'):
        return False, f"`{var}` does not range over <rule>.rhs.edges(): {norm(g.iter)}"
    if norm(v.elt) != norm(g.target):
        return False, f"`{var}` does not collect the edges themselves"
    params = set(f.param_names())
    cond = ast.BoolOp(op=ast.And(), values=list(g.ifs)) if len(g.ifs) != 1 else g.ifs[0]
    if not g.ifs:
        return False, f"`{var}` keeps every rhs edge (terminals and already-computed nonterminals would count as recursive)"
    atoms = collect_atoms(cond)
    label_in = [t for t, a in atoms.items() if isinstance(a, ast.Compare) and isinstance(a.ops[0], (ast.In, ast.NotIn))
                and norm(a.left) == f"{norm(g.target)}.label" and isinstance(a.comparators[0], ast.Name) and a.comparators[0].id in params]
    if len(atoms) != 1 or len(label_in) != 1:
        raise AnalysisError(f"C02-D2: {f.loc(asg[0])} filter `{norm(cond)}` is not a single membership test of the edge label in a parameter")
    kept = [e.atoms[label_in[0]] for e in valuations(label_in) if e.eval(cond) is True]
    ok = kept == [False]
    return ok, f"filter `{norm(cond)}` keeps an edge iff ({label_in[0]}) is {kept}" + ('' if ok else ' -- must be exactly [False]')
