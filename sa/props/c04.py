"""C04 -- viterbi: partial sequence operations are guarded against emptiness; the assignment handed to FGGDerivation
covers every node of the rule; producer and consumer of the back-pointers enumerate the summed-out nodes in the same order;
one pointer entry is recorded per rule index."""
from __future__ import annotations
import ast
from typing import Dict, List, Optional, Set, Tuple
from ..model import Program, AnalysisError, own_nodes, norm, names_in, FuncInfo
from ..cfg import cfg_of
from ..guards import Env, walk, collect_atoms, mentions
from ..report import Report
from ..normalize import alias_view
from ..util import callee_last, parents, enclosing_stmt

VT = 'fggs.viterbi'
IDX = 'fggs.indices'
EQ = 'fggs.equation'


def run(prog: Program, rep: Report, tier: str) -> None:
    rep.rule('C04-D1', 'totality on empty sequences: torch.stack/cat of a list, [i] on a list built in the function, fixed-arity unpacking of a set/list and zip(*comprehension) are reached only when a dominating guard (a test on len(...) or on a counter asserted equal to it, or an early return on the empty operand list propagated through same-length comprehensions to the callee) excludes the empty case')
    rep.rule('C04-D2', 'assignment covers the rule: the dict passed as `asst` to FGGDerivation(...) receives a value for every node of rule.rhs.nodes() that has none yet (the reader derive() subscripts it with every rhs node)')
    rep.rule('C04-D3', 'pointer order contract: the producer indexes the einsum by edge.nodes for the edges of rule.rhs.edges() in iteration order, unfiltered; the consumer walks rule.rhs.edges() x e.nodes in the same nesting and consumes the next pointer entry exactly when the node has no value yet; externals are the outputs on both sides')
    rep.rule('C04-D5', 'component-local state: every name the per-SCC loop of viterbi() binds and reads (the trivial/iterated flag, x, x1, the pointer tables of the component) is bound on all paths of the same iteration before it is read, so nothing decided for one component leaks into the next (inner for-loops assumed to run at least once: kmax >= 1)')
    rep.rule('C04-D4', 'one back-pointer entry per rule index: F_viterbi appends to rhs_pointer[n] on every iteration of the rule loop (also for rules that contribute nothing), and records the rule index where the new rule is strictly better')
    rep.rule('C04-D6', 'Jacobi sweep: the iterate F_viterbi builds is written only; no product of the same sweep receives it (a partial maximum over the rules seen so far must not shadow the previous iterate, or the pointers describe a derivation of another weight)')
    rep.not_decided += ['optimality of the returned derivation', 'equality with the Viterbi-semiring sum-product', 'tie handling', 'convergence of the max-plus fixed-point iteration']
    stack_guards(rep, prog)
    unpack_guards(rep, prog)
    reduce_precondition(rep, prog)
    asst_coverage(rep, prog)
    pointer_order(rep, prog)
    pointer_entries(rep, prog)
    negative_expand(rep, prog)
    # the rule-index table is written through the mask's pattern: in masked_fill_into the stored mask meets `dest` only via
    # project(dest, self.paxes, self.vaxes, ...) -- the stored tensor's axes are in physical order, dest's in virtual order
    mf = prog.cls('fggs.indices', 'PatternedTensor').methods.get('masked_fill_into')
    if mf is None:
        rep.error('C04-D4: PatternedTensor.masked_fill_into not found')
    else:
        selfn_, destn = mf.positional_params()[0], mf.positional_params()[1]
        n_mask = 0
        for c in [x for x in own_nodes(mf.node) if isinstance(x, ast.Call)]:
            parts = [norm(a) for a in c.args] + ([norm(c.func.value)] if isinstance(c.func, ast.Attribute) else [])
            if f"{selfn_}.physical" in parts:
                n_mask += 1
                raw = destn in parts
                rep.ob('C04-D4 pointer-entries mask alignment', mf.fq(), norm(c)[:80], mf.loc(c), not raw,
                       'the stored mask is combined with the projection of dest along its own pattern' if not raw else
                       f"the stored mask is applied to `{destn}` directly: its axes are in physical order (gt() returns them reversed), so for two external nodes of one domain the table of winning rules is written transposed")
        rep.floor('C04-D4 mask alignment', n_mask, 1)
    from ..rules.loopstate import check_jacobi_sweep
    rep.floor('C04-D6', check_jacobi_sweep(rep, 'C04-D6 jacobi-sweep', prog.func(VT, 'F_viterbi')), 1)
    # D5: the per-component loop of viterbi() decides trivial / iterated and collects x1, lp1, rp1 per component
    from ..rules.loopstate import check_iteration_local
    vf = prog.func('fggs.viterbi', 'viterbi')
    n_state = 0
    from ..util import inline_temps as _it
    for l in [n for n in own_nodes(vf.node) if isinstance(n, ast.For) and any(isinstance(x, ast.Call) and callee_last(x) == 'scc' for x in ast.walk(_it(vf.node, n.iter)))]:
        n_state += check_iteration_local(rep, 'C04-D5 component-local state', vf, l)
    rep.floor('C04-D5 component-local names', n_state, 4)


# ------------------------------------------------------------------------------------------ D1
def stack_guards(rep: Report, prog: Program) -> None:
    rule = 'C04-D1 partial-on-empty'
    f = prog.func(IDX, 'log_viterbi_einsum_forward')
    cfg = cfg_of(f)
    # lists built by append in f
    built = {x.func.value.id for x in own_nodes(f.node) if isinstance(x, ast.Call) and isinstance(x.func, ast.Attribute) and x.func.attr == 'append' and isinstance(x.func.value, ast.Name)}
    sites = []
    for n, nd in cfg.nodes.items():
        if nd.stmt is None or nd.kind not in ('stmt', 'return'):
            continue
        for x in ast.walk(nd.stmt):
            if isinstance(x, ast.Call) and callee_last(x) in ('stack', 'cat') and x.args and isinstance(x.args[0], ast.Name) and x.args[0].id in built:
                sites.append((n, x, x.args[0].id, 1))
            if isinstance(x, ast.Subscript) and isinstance(x.ctx, ast.Load) and isinstance(x.value, ast.Name) and x.value.id in built \
                    and isinstance(x.slice, ast.Constant) and isinstance(x.slice.value, int):
                need = x.slice.value + 1 if x.slice.value >= 0 else -x.slice.value
                sites.append((n, x, x.value.id, need))
    rep.floor('C04-D1 stack/index sites', len(sites), 2)
    for n, x, L, need in sites:
        # counters asserted equal to len(L)
        terms = {f"len({L})"}
        for a in own_nodes(f.node):
            if isinstance(a, ast.Assign) and len(a.targets) == 1 and isinstance(a.targets[0], ast.Name) and norm(a.value) == f"len({L})":
                terms.add(a.targets[0].id)          # n = len(L)
        for a in own_nodes(f.node):
            if isinstance(a, ast.Assert):
                for c in ast.walk(a.test):
                    if isinstance(c, ast.Compare) and len(c.ops) == 1 and isinstance(c.ops[0], ast.Eq):
                        s = [norm(c.left), norm(c.comparators[0])]
                        if f"len({L})" in s:
                            terms.add([t for t in s if t != f"len({L})"][0])
        tests = [m for m, md in cfg.nodes.items() if md.kind == 'test' and any(mentions(md.expr, t) for t in terms)]
        dom = cfg.dominators()
        tests = [m for m in tests if m in dom.get(n, set())]
        if not tests:
            rep.ob(rule, f.fq(), norm(x)[:80], f.loc(x), False,
                   f"`{norm(x)[:60]}` needs at least {need} element(s) of `{L}` but no dominating test on {sorted(terms)} excludes a shorter list (an einsum with nothing to sum out makes it empty)")
            continue
        first = min(tests, key=lambda m: cfg.nodes[m].lineno)
        bad = []
        for v in range(0, 4):
            env = Env(ints={t: v for t in terms})
            r = walk(cfg, first, env, unknown='both')
            if n in r and v < need:
                bad.append(v)
        rep.ob(rule, f.fq(), norm(x)[:80], f.loc(x), not bad,
               f"reached only when {sorted(terms)[0]} >= {need} (evaluated for 0..3)" if not bad else
               f"reached with {sorted(terms)} = {bad}: the operation fails on a list that short (rule with no summed-out node)")


def unpack_guards(rep: Report, prog: Program) -> None:
    rule = 'C04-D1 partial-on-empty'
    m = prog.module(VT)
    n_sites = 0
    for f in m.functions.values():
        if f.is_lambda: continue
        cfg = cfg_of(f)
        for n, nd in cfg.nodes.items():
            st = nd.stmt
            if nd.kind == 'stmt' and isinstance(st, ast.Assign) and len(st.targets) == 1 and isinstance(st.targets[0], (ast.List, ast.Tuple)) \
                    and isinstance(st.value, ast.Name) and not any(isinstance(e, ast.Starred) for e in st.targets[0].elts):
                k = len(st.targets[0].elts)
                src = st.value.id
                n_sites += 1
                term = f"len({src})"
                dom = cfg.dominators()
                uses_len = any(isinstance(x, ast.Call) and norm(x) == term for x in own_nodes(f.node))
                if not isinstance(st.targets[0], ast.List) and not uses_len:
                    n_sites -= 1
                    continue          # unpacking a fixed-size tuple value, not a collection
                tests = [t for t, td in cfg.nodes.items() if td.kind == 'test' and mentions(td.expr, term) and t in dom.get(n, set())]
                if not tests:
                    rep.ob(rule, f.fq(), norm(st), f.loc(st), False, f"unpacking `{src}` into {k} name(s) without a dominating test on {term}")
                    continue
                first = min(tests, key=lambda t: cfg.nodes[t].lineno)
                loops = cfg.nodes[n].loops
                bad = [v for v in range(0, 4) if v != k and n in walk(cfg, first, Env(ints={term: v}), unknown='both', loop_header_stop=loops[-1] if loops else None)]
                rep.ob(rule, f.fq(), norm(st), f.loc(st), not bad, f"reached only when {term} == {k}" if not bad else f"reached with {term} in {bad}")
    rep.floor('C04-D1 unpack sites', n_sites, 1)


def _same_length_sources(f: FuncInfo, name: str, depth: int = 0) -> Set[str]:
    """Names whose length equals len(name): name = [.. for x in SRC] (no filter) / built by an unconditional append in a loop
    over (enumerate/zip of) SRC."""
    out = {name}
    if depth > 5:
        return out
    for n in own_nodes(f.node):
        if isinstance(n, ast.Assign) and any(isinstance(t, ast.Name) and t.id == name for t in n.targets):
            v = n.value
            if isinstance(v, (ast.ListComp, ast.GeneratorExp)) and len(v.generators) == 1 and not v.generators[0].ifs:
                it = v.generators[0].iter
                for s in _iter_sources(it):
                    out |= _same_length_sources(f, s, depth + 1)
            elif isinstance(v, ast.Name):
                out |= _same_length_sources(f, v.id, depth + 1)
    for lp in [x for x in own_nodes(f.node) if isinstance(x, ast.For)]:
        for st in lp.body:
            if isinstance(st, ast.Expr) and isinstance(st.value, ast.Call) and isinstance(st.value.func, ast.Attribute) and st.value.func.attr == 'append' \
                    and isinstance(st.value.func.value, ast.Name) and st.value.func.value.id == name:
                for s in _iter_sources(lp.iter):
                    out |= _same_length_sources(f, s, depth + 1)
    return out


def _iter_sources(it: ast.AST) -> List[str]:
    if isinstance(it, ast.Name):
        return [it.id]
    if isinstance(it, ast.Call) and callee_last(it) in ('enumerate', 'zip', 'list', 'tuple', 'reversed') and it.args:
        return _iter_sources(it.args[0])
    return []


def reduce_precondition(rep: Report, prog: Program) -> None:
    """reduce_equation unpacks zip(*[... for t in tensors]) into a fixed number of names: it requires a non-empty operand
    list; every caller must have returned early on the empty list."""
    rule = 'C04-D1 partial-on-empty'
    re_ = prog.func(EQ, 'reduce_equation')
    needs: Optional[str] = None
    for n in own_nodes(re_.node):
        if isinstance(n, ast.Assign) and isinstance(n.targets[0], ast.Tuple) and isinstance(n.value, ast.Call) and callee_last(n.value) == 'zip' \
                and n.value.args and isinstance(n.value.args[0], ast.Starred):
            inner = n.value.args[0].value
            if isinstance(inner, (ast.ListComp, ast.GeneratorExp)):
                src = _iter_sources(inner.generators[0].iter)
                if src and src[0] in re_.param_names():
                    needs = src[0]
    if needs is None:
        rep.ob(rule, re_.fq(), 'reduce_equation: no fixed-arity unpacking of zip(*...) over a parameter', re_.loc(), True, 'nothing to protect', nontrivial=False)
        return
    pidx = re_.positional_params().index(needs)
    n_calls = 0
    for fn in ('einsum', 'log_viterbi_einsum_forward'):
        f = prog.func(IDX, fn)
        cfg = cfg_of(f)
        for c in [x for x in own_nodes(f.node) if isinstance(x, ast.Call) and callee_last(x) == 'reduce_equation']:
            n_calls += 1
            arg = c.args[pidx] if pidx < len(c.args) else None
            if not isinstance(arg, ast.Name):
                rep.error(f"{rule}: {f.loc(c)} argument for `{needs}` is not a name"); continue
            same = _same_length_sources(f, arg.id)
            node = cfg.node_of(enclosing_stmt(f, c))
            # an early exit on len(S) == 0 for some S of the same length must make the call unreachable when the length is 0
            ok = False; used = None
            for S in sorted(same):
                term = f"len({S})"
                tests = [t for t, td in cfg.nodes.items() if td.kind == 'test' and mentions(td.expr, term)]
                if not tests:
                    continue
                r = walk(cfg, cfg.entry, Env(ints={term: 0}), unknown='both')
                if node not in r:
                    ok = True; used = S
            rep.ob(rule, f.fq(), f"reduce_equation(..., {arg.id}) needs a non-empty operand list", f.loc(c), ok,
                   f"`{arg.id}` has the length of {sorted(same)}; with len({used}) == 0 the call is unreachable (early return)" if ok else
                   f"`{arg.id}` has the length of {sorted(same)}, and nothing returns early when that length is 0: zip(*[]) cannot be unpacked")
    rep.floor('C04-D1 reduce_equation callers', n_calls, 2)


# ------------------------------------------------------------------------------------------ D2
def asst_coverage(rep: Report, prog: Program) -> None:
    rule = 'C04-D2 assignment-covers-rule'
    f = prog.func(VT, 'viterbi.reconstruct')
    cfg = cfg_of(f)
    ctors = [x for x in own_nodes(f.node) if isinstance(x, ast.Call) and callee_last(x) == 'FGGDerivation']
    rep.floor('C04-D2', len(ctors), 1)
    for c in ctors:
        kw = {k.arg: k.value for k in c.keywords}
        asst = kw.get('asst') or (c.args[2] if len(c.args) > 2 else None)
        rule_arg = kw.get('rule') or (c.args[1] if len(c.args) > 1 else None)
        if not isinstance(asst, ast.Name) or rule_arg is None:
            rep.error(f"{rule}: {f.loc(c)} cannot identify the asst / rule arguments"); continue
        A, R = asst.id, norm(rule_arg)
        for st0 in [x for x in own_nodes(f.node) if isinstance(x, ast.Assign) and isinstance(x.targets[0], ast.Subscript) and norm(x.targets[0].value) == A and isinstance(x.value, ast.Constant)]:
            rep.ob(rule, f.fq(), f"{norm(st0)}: the value given to a node without edges is in every domain", f.loc(st0), st0.value.value == 0,
                   'index 0 exists in every non-empty domain' if st0.value.value == 0 else f"index {st0.value.value!r} does not exist in a domain of that size or smaller")
        ok = False; detail = f"no loop over {R}.rhs.nodes() stores into {A}"
        for lp in [x for x in own_nodes(f.node) if isinstance(x, ast.For) and norm(x.iter) == f"{R}.rhs.nodes()" and isinstance(x.target, ast.Name)]:
            v = lp.target.id
            hdr = cfg.node_of(lp)
            be = [b for b, l in cfg.succ[hdr] if l == 'iter'][0]
            stores = {n for n in cfg.loop_body[hdr] if cfg.nodes[n].kind == 'stmt' and isinstance(cfg.nodes[n].stmt, ast.Assign)
                      and any(isinstance(t, ast.Subscript) and norm(t.value) == A and norm(t.slice) == v for t in cfg.nodes[n].stmt.targets)}
            # A.setdefault(v, c): the same store, taken only when v has no value yet
            for n in cfg.loop_body[hdr]:
                st_ = cfg.nodes[n].stmt
                if cfg.nodes[n].kind == 'stmt' and isinstance(st_, ast.Expr) and isinstance(st_.value, ast.Call) and callee_last(st_.value) == 'setdefault' \
                        and norm(st_.value.func.value) == A and len(st_.value.args) == 2 and norm(st_.value.args[0]) == v:
                    stores.add(n)
                    dflt = st_.value.args[1]
                    rep.ob(rule, f.fq(), f"{norm(st_)}: the value given to a node without edges is in every domain", f.loc(st_), isinstance(dflt, ast.Constant) and dflt.value == 0,
                           'index 0 exists in every non-empty domain' if isinstance(dflt, ast.Constant) and dflt.value == 0 else f"`{norm(dflt)}` need not be an index of the node's domain")
            r = walk(cfg, be, Env(atoms={f"{v} in {A}": False}), stop=lambda n: n in stores, loop_header_stop=hdr, unknown='both')
            if stores and hdr not in r and cfg.exit not in r:
                ok = True; detail = f"every node of {R}.rhs.nodes() without a value receives one ({cfg.describe(sorted(stores)[0])})"
            # the loop must come before the constructor
            if ok and not cfg.reaches(hdr, cfg.node_of(enclosing_stmt(f, c))):
                ok = False; detail = 'the covering loop does not precede the constructor call'
        rep.ob(rule, f.fq(), norm(c)[:80], f.loc(c), ok,
               detail if ok else detail + f": a node attached to no edge is left out and derive() fails with KeyError (it reads {A}[node] for every rhs node)")
    # the reader really demands every rhs node (writer/reader agreement is about this loop)
    v = prog.func('fggs.derivations', 'FGGDerivation.derive.visit')
    reads_all = any(isinstance(x, ast.For) and norm(x.iter).endswith('.rule.rhs.nodes()') for x in own_nodes(v.node))
    rep.ob(rule, v.fq(), 'reader: derive() looks up the assignment of every rhs node', v.loc(), reads_all, '', nontrivial=False)


# ------------------------------------------------------------------------------------------ D3
def pointer_order(rep: Report, prog: Program) -> None:
    rule = 'C04-D3 pointer-order'
    prod = alias_view(prog.func(VT, 'sum_product_edges'))       # `ext = rule.rhs.ext` read through
    pcfg = cfg_of(prod)
    rparam = [p for p in prod.positional_params() if p == 'rule']
    R = rparam[0] if rparam else prod.positional_params()[1]
    cand = [x for x in own_nodes(prod.node) if isinstance(x, ast.For) and any(isinstance(c, ast.Call) and callee_last(c) == 'edges' for c in ast.walk(x.iter))
            and any(isinstance(c, ast.Call) and callee_last(c) == 'append' and c.args and norm(c.args[0]).endswith('.nodes') for c in ast.walk(x))]
    rep.floor('C04-D3 producer loop', len(cand), 1)
    for lp in cand:
        direct = norm(lp.iter) == f"{R}.rhs.edges()"
        rep.ob(rule, prod.fq(), f"producer iterates {norm(lp.iter)[:70]}", prod.loc(lp), direct,
               'the einsum operands are listed in the order of rule.rhs.edges(), the order the consumer walks' if direct else
               'the producer reorders / filters the edges: the first-appearance order of the summed-out nodes no longer matches the order in which reconstruct() consumes the pointer')
    loops = [x for x in cand if norm(x.iter) == f"{R}.rhs.edges()"]
    for lp in loops:
        e = norm(lp.target)
        hdr = pcfg.node_of(lp)
        be = [b for b, l in pcfg.succ[hdr] if l == 'iter'][0]
        app = lambda n: pcfg.nodes[n].kind == 'stmt' and any(isinstance(x, ast.Call) and callee_last(x) == 'append' and x.args and norm(x.args[0]) == f"{e}.nodes" for x in ast.walk(pcfg.nodes[n].stmt))
        ok, _ = pcfg.all_paths_pass(be, app, targets={hdr})
        rep.ob(rule, prod.fq(), f"for {e} in {norm(lp.iter)}: indexing.append({e}.nodes)", prod.loc(lp), ok,
               'every edge contributes its attachment nodes, in edge order' if ok else 'an edge can be skipped or its nodes reordered before they index the einsum')
    # outputs are the (connected) externals
    outs = [n for n in own_nodes(prod.node) if isinstance(n, ast.Assign) and isinstance(n.value, ast.ListComp) and norm(n.value.generators[0].iter) == f"{R}.rhs.ext"]
    rep.ob(rule, prod.fq(), f"einsum outputs are the externals of {R}", prod.loc(), bool(outs), '' if outs else 'outputs are not taken from rule.rhs.ext')
    call = [x for x in own_nodes(prod.node) if isinstance(x, ast.Call) and callee_last(x) == 'log_viterbi_einsum_forward']
    if call:
        c = call[0]
        idx_arg = norm(c.args[1]) if len(c.args) > 1 else None
        appended = {norm(x.func.value) for x in own_nodes(prod.node) if isinstance(x, ast.Call) and callee_last(x) == 'append' and x.args and norm(x.args[0]).endswith('.nodes')}
        rep.ob(rule, prod.fq(), 'the per-edge node lists are the einsum indices', prod.loc(c), idx_arg in appended, f"indices argument `{idx_arg}`; lists receiving edge.nodes: {sorted(appended)}")
    # consumer
    cons = prog.func(VT, 'viterbi.reconstruct')
    ccfg = cfg_of(cons)
    found = 0
    for lp in [x for x in own_nodes(cons.node) if isinstance(x, ast.For) and any(isinstance(c, ast.Call) and callee_last(c) == 'edges' for c in ast.walk(x.iter))]:
        e = norm(lp.target)
        inner = [x for x in lp.body if isinstance(x, ast.For) and e in names_in(x.iter) and 'nodes' in norm(x.iter)]
        if inner and any(isinstance(t, ast.Subscript) and isinstance(t.ctx, ast.Store) for x in inner for t in ast.walk(x)):
            direct = norm(lp.iter).endswith('.rhs.edges()') and isinstance(lp.iter, ast.Call) and callee_last(lp.iter) == 'edges'
            rep.ob(rule, cons.fq(), f"consumer iterates {norm(lp.iter)}", cons.loc(lp), direct,
                   'the edges are visited in the order the producer listed them' if direct else 'the consumer reorders / filters the edge sequence: pointer entries are attributed to the wrong nodes')
            for x in inner:
                d2 = norm(x.iter) == f"{e}.nodes"
                if not d2:
                    rep.ob(rule, cons.fq(), f"consumer iterates {norm(x.iter)}", cons.loc(x), False, 'the attachment nodes of an edge are not visited in attachment order')
                    found += 1
        for il in [x for x in lp.body if isinstance(x, ast.For) and norm(x.iter) == f"{e}.nodes"]:
            v = norm(il.target)
            hdr = ccfg.node_of(il)
            be = [b for b, l in ccfg.succ[hdr] if l == 'iter'][0]
            body = ccfg.loop_body[hdr]
            stores = {n for n in body if ccfg.nodes[n].kind == 'stmt' and isinstance(ccfg.nodes[n].stmt, ast.Assign)
                      and any(isinstance(t, ast.Subscript) and norm(t.slice) == v for t in ccfg.nodes[n].stmt.targets)}
            if not stores:
                continue
            found += 1
            st = ccfg.nodes[sorted(stores)[0]].stmt
            A = norm(st.targets[0].value)
            # counter used to index the pointer and incremented in the same branch
            aug = {norm(ccfg.nodes[n].stmt.target) for n in body if ccfg.nodes[n].kind == 'stmt' and isinstance(ccfg.nodes[n].stmt, ast.AugAssign)}
            idx = [x for x in ast.walk(st.value) if isinstance(x, ast.Subscript) and isinstance(x.slice, ast.Name) and x.slice.id in aug]
            ctr = idx[0].slice.id if idx else None
            incs = {n for n in body if ccfg.nodes[n].kind == 'stmt' and isinstance(ccfg.nodes[n].stmt, ast.AugAssign) and norm(ccfg.nodes[n].stmt.target) == ctr
                    and isinstance(ccfg.nodes[n].stmt.op, ast.Add) and isinstance(ccfg.nodes[n].stmt.value, ast.Constant) and ccfg.nodes[n].stmt.value.value == 1}
            bad = []
            for present in (True, False):
                r = walk(ccfg, be, Env(atoms={f"{v} in {A}": present}), loop_header_stop=hdr, unknown='both')
                took = bool(stores & r); inc = bool(incs & r)
                if took != (not present) or inc != (not present):
                    bad.append(f"{v} in {A} = {present}: value taken={took}, counter advanced={inc}")
            rep.ob(rule, cons.fq(), f"for {e} in {norm(lp.iter)}: for {v} in {e}.nodes: next pointer entry iff {v} has no value", cons.loc(il), not bad and ctr is not None,
                   '; '.join(bad) if bad else 'first appearance over edges x attachment nodes, externals skipped: the order in which the producer lists the summed-out indices')
    # a pointer entry taken in a loop over the declared nodes: declaration order is not first-appearance order over the edges
    ctrs = {norm(x.target) for x in own_nodes(cons.node) if isinstance(x, ast.AugAssign)}

    def takes_entry(st):
        return isinstance(st, ast.Assign) and any(isinstance(t, ast.Subscript) for t in st.targets) and any(
            isinstance(x, ast.Subscript) and isinstance(x.slice, ast.Name) and x.slice.id in ctrs for x in ast.walk(st.value))
    for lp in [x for x in own_nodes(cons.node) if isinstance(x, ast.For) and isinstance(x.iter, ast.Call) and callee_last(x.iter) == 'nodes'
               and norm(x.iter).endswith('.rhs.nodes()')]:
        if any(takes_entry(st) for st in ast.walk(lp)):
            found += 1
            rep.ob(rule, cons.fq(), f"consumer takes pointer entries in `for {norm(lp.target)} in {norm(lp.iter)}`", cons.loc(lp), False,
                   'the pointer lists the summed-out nodes by first appearance over rule.rhs.edges() x edge.nodes (the producer\'s einsum index order); '
                   'the declaration order of rule.rhs.nodes() differs as soon as an edge touches a later-declared node first')
    rep.floor('C04-D3 consumer loop', found, 1)
    # consumer seeds the assignment with the externals (so they are skipped like the producer's outputs)
    seed = [n for n in own_nodes(cons.node) if isinstance(n, ast.Assign) and isinstance(n.value, ast.Call) and callee_last(n.value) == 'dict'
            and n.value.args and isinstance(n.value.args[0], ast.Call) and callee_last(n.value.args[0]) == 'zip' and norm(n.value.args[0].args[0]).endswith('.rhs.ext')]
    rep.ob(rule, cons.fq(), 'assignment seeded with zip(rule.rhs.ext, nt_asst)', cons.loc(), bool(seed), '' if seed else 'external nodes are not pre-assigned from the parent assignment')
    # producer side in indices: summed-out = first appearance minus outputs, pointers emitted in that order
    f = prog.func(IDX, 'log_viterbi_einsum_forward')
    outp = f.positional_params()[2] if len(f.positional_params()) > 2 else 'output'
    pops = [x for x in own_nodes(f.node) if isinstance(x, ast.Call) and callee_last(x) == 'pop' and isinstance(x.func.value, ast.Name) and x.args and isinstance(x.args[0], ast.Name)]
    maps = {x.func.value.id for x in pops}
    vals = [x for x in own_nodes(f.node) if isinstance(x, ast.For) and isinstance(x.iter, ast.Call) and callee_last(x.iter) in ('values', 'items') and norm(x.iter.func.value) in maps]
    rep.ob(rule, f.fq(), 'summed-out indices = first appearances minus outputs, pointers emitted in that order', f.loc(), bool(pops) and bool(vals),
           '' if pops and vals else 'index_to_vaxis is no longer popped for the outputs / iterated for the pointers')


# ------------------------------------------------------------------------------------------ D4
def pointer_entries(rep: Report, prog: Program) -> None:
    rule = 'C04-D4 pointer-entries'
    f = prog.func(VT, 'F_viterbi')
    cfg = cfg_of(f)
    loops = [x for x in own_nodes(f.node) if isinstance(x, ast.For) and isinstance(x.iter, ast.Call) and callee_last(x.iter) == 'enumerate'
             and x.iter.args and isinstance(x.iter.args[0], ast.Call) and callee_last(x.iter.args[0]) == 'rules']
    rep.floor('C04-D4', len(loops), 1)
    for lp in loops:
        hdr = cfg.node_of(lp)
        be = [b for b, l in cfg.succ[hdr] if l == 'iter'][0]
        app = lambda n: cfg.nodes[n].kind == 'stmt' and any(isinstance(x, ast.Call) and callee_last(x) == 'append' and 'rhs_pointer' in norm(x.func.value) for x in ast.walk(cfg.nodes[n].stmt))
        ok, wit = cfg.all_paths_pass(be, app, targets={hdr, cfg.exit})
        rep.ob(rule, f.fq(), f"for {norm(lp.target)} in {norm(lp.iter)}: rhs_pointer[..].append(..) on every iteration", f.loc(lp), ok,
               'rhs_pointer[nt][ri] is aligned with the rule index' if ok else 'a rule index can be skipped, shifting the back-pointers of later rules')
        ri = norm(lp.target.elts[0]) if isinstance(lp.target, ast.Tuple) else None
        # the recorded index is the loop's rule index
        rec = [x for x in ast.walk(lp) if isinstance(x, ast.Call) and callee_last(x) in ('masked_fill_into', 'fill_')]
        okr = bool(rec) and all(norm(x.args[-1]) == ri for x in rec)
        rep.ob(rule, f.fq(), 'lhs_pointer records the index of the rule that produced the maximum', f.loc(lp), okr, f"recording calls: {[norm(x)[:60] for x in rec]}")
        # whenever the running maximum of a nonterminal is (re)bound, the rule index is recorded in the same iteration
        stores = [n for n in cfg.loop_body[hdr] if cfg.nodes[n].kind == 'stmt' and isinstance(cfg.nodes[n].stmt, ast.Assign)
                  and any(isinstance(t, ast.Subscript) and 'pointer' not in norm(t.value) for t in cfg.nodes[n].stmt.targets)]
        recn = lambda k: cfg.nodes[k].kind == 'stmt' and any(isinstance(x, ast.Call) and callee_last(x) in ('masked_fill_into', 'fill_') and 'lhs_pointer' in norm(x) for x in ast.walk(cfg.nodes[k].stmt))
        for st_n in stores:
            okp, _ = cfg.all_paths_pass(be, recn, targets={st_n})
            rep.ob(rule, f.fq(), f"{norm(cfg.nodes[st_n].stmt)[:70]}: the producing rule's index is recorded first", f.loc(cfg.nodes[st_n].stmt), okp,
                   'lhs_pointer is updated on every path to this store' if okp else
                   'the maximum is taken over from this rule without recording its index: the back-pointer still names an earlier (possibly skipped) rule')
        # strictly-better test compares the new rule with the running maximum *before* it is updated
        for x in rec:
            if callee_last(x) == 'masked_fill_into':
                st = enclosing_stmt(f, x)
                n1 = cfg.node_of(st)
                upd = [n for n in cfg.loop_body[hdr] if cfg.nodes[n].kind == 'stmt' and isinstance(cfg.nodes[n].stmt, ast.Assign) and 'maximum' in norm(cfg.nodes[n].stmt.value)]
                ok2 = bool(upd) and all(cfg.reaches(n1, u) and not cfg.reaches(u, n1, stop=lambda z: z == hdr) for u in upd)
                rep.ob(rule, f.fq(), norm(x)[:80], f.loc(x), ok2, 'compared with the running maximum before it is overwritten' if ok2 else 'the running maximum is updated before the comparison: the new rule is never strictly better')


def negative_expand(rep: Report, prog: Program) -> None:
    """PatternedTensor.expand, unlike torch.Tensor.expand, has no meaning for a negative size ("keep this dimension"): unless it
    handles one, no call on a patterned tensor may pass a negative literal."""
    rule = 'C04-D1 partial-on-empty'
    pt = prog.cls(IDX, 'PatternedTensor')
    ex = pt.methods.get('expand')
    if ex is None:
        return
    n_sites = 0
    for mod in ('fggs.viterbi', 'fggs.sum_product', 'fggs.multi', 'fggs.semirings'):
        for f in prog.module(mod).functions.values():
            if f.is_lambda:
                continue
            ptnames = set()
            for p in f.param_names():
                ann = f.param_annotation(p) if hasattr(f, 'param_annotation') else None
                if ann is not None and 'PatternedTensor' in norm(ann):
                    ptnames.add(p)
            for a in own_nodes(f.node):
                if isinstance(a, ast.Assign) and isinstance(a.value, ast.Call):
                    root = a.value.func
                    callee = None
                    if isinstance(root, ast.Name):
                        r = prog.resolve_global(f.module, root.id)
                        if r and r[0] == 'func': callee = r[1]
                    ret_ann = norm(callee.node.returns) if callee is not None and getattr(callee.node, 'returns', None) is not None else ''
                    recv_root = a.value.func
                    while isinstance(recv_root, (ast.Attribute, ast.Call, ast.Subscript)):
                        recv_root = recv_root.value if not isinstance(recv_root, ast.Call) else recv_root.func
                    if 'PatternedTensor' in ret_ann or (isinstance(recv_root, ast.Name) and recv_root.id in ptnames and isinstance(a.value.func, ast.Attribute)):
                        for t in a.targets:
                            for x in ast.walk(t):
                                if isinstance(x, ast.Name): ptnames.add(x.id)
            for c in [x for x in own_nodes(f.node) if isinstance(x, ast.Call) and isinstance(x.func, ast.Attribute) and x.func.attr == 'expand']:
                root = c.func.value
                while isinstance(root, (ast.Attribute, ast.Call, ast.Subscript)):
                    root = root.value if not isinstance(root, ast.Call) else root.func
                if not (isinstance(root, ast.Name) and root.id in ptnames):
                    continue
                n_sites += 1
                neg = [a for a in c.args if (isinstance(a, ast.UnaryOp) and isinstance(a.op, ast.USub) and isinstance(a.operand, ast.Constant))
                       or (isinstance(a, ast.Constant) and isinstance(a.value, int) and a.value < 0)]
                rep.ob(rule, f.fq(), f"{norm(c)[:90]}: sizes given to PatternedTensor.expand are actual sizes", f.loc(c), not neg,
                       'no negative literal' if not neg else f"`{norm(neg[0])}` is passed to PatternedTensor.expand, which (unlike torch) raises on it: the call fails whenever this line is reached")
    rep.analysed['patterned_expand_sites'] = n_sites
    ctl = ast.parse("ptr.view(*v, -1).expand(*e, -1)").body[0].value
    rep.ob(rule, 'positive-control', 'a negative literal among the arguments of expand() is recognised', '-', any(isinstance(a, ast.UnaryOp) for a in ctl.args), '', nontrivial=False)
