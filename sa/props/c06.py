"""C06 -- patterned tensors behave like the dense tensors they denote (element-wise clauses)."""
from __future__ import annotations
from ..model import Program
from ..report import Report
from ..absint import wrappers


def run(prog: Program, rep: Report, tier: str) -> None:
    from ..absint import domain as _dom
    if tier == 'thorough':
        _dom.refine([-2.0, -0.5, 0.5, 2.0])
        rep.notes.append('thorough tier: abstract partition refined with cut points -2, -0.5, 0.5, 2 (16 numeric classes)')
    try:
        _run(prog, rep, tier)
    finally:
        _dom.refine([])


def _run(prog: Program, rep: Report, tier: str) -> None:
    rep.rule('C06-D1', 'element-wise wrapper homomorphism: for every element-wise PatternedTensor method (unary maps and in-place forms, nan_to_num_, comparisons / arithmetic with a scalar, clamp, to) the function applied to `physical`, the function applied to `default` and the torch op of that name agree on every input class, and the default path never raises where torch returns nan/inf')
    rep.rule('C06-D2', 'pattern-aware binary ops: every commutative(u, I, D, op_) passes the identity of op_ as I and D == op(t.default, u.default); the constants the sub/div shortcuts compare defaults with are the right identities; result defaults of sub/div equal the torch op on the defaults')
    rep.not_decided += ['everything pattern-combinatorial: expansion/anti-unification, where, stack, reshape, __getitem__, any, injectivity of constructed patterns (depends on runtime axis trees)',
                        'NaN as an input class except for nan_to_num_']
    rep.trusted += ['transfer tables of sa/absint/domain.py']
    wrappers.check_wrappers(prog, rep, 'C06-D1 wrapper-homomorphism')
    wrappers.check_binary(prog, rep, 'C06-D2 binary-identities')
    from .c06_effects import inplace_discipline
    inplace_discipline(prog, rep)
