"""C06 -- patterned tensors behave like the dense tensors they denote (element-wise clauses)."""
from __future__ import annotations
from ..model import Program
from ..report import Report
from ..absint import wrappers


def run(prog: Program, rep: Report, tier: str) -> None:
    from ..absint import domain as _dom
    if tier == 'thorough':
        _dom.refine([-2.0, -0.5, 0.5, 2.0])
        rep.notes.append('thorough tier: abstract partition refined with cut points -2, -0.5, 0.5, 2 (16 numeric classes)')
    try:
        _run(prog, rep, tier)
    finally:
        _dom.refine([])


def _run(prog: Program, rep: Report, tier: str) -> None:
    rep.rule('C06-D1', 'element-wise wrapper homomorphism: for every element-wise PatternedTensor method (unary maps and in-place forms, nan_to_num_, comparisons / arithmetic with a scalar, clamp, to) the function applied to `physical`, the function applied to `default` and the torch op of that name agree on every input class, and the default path never raises where torch returns nan/inf')
    rep.rule('C06-D2', 'pattern-aware binary ops: every commutative(u, I, D, op_) passes the identity of op_ as I and D == op(t.default, u.default); the constants the sub/div shortcuts compare defaults with are the right identities; result defaults of sub/div equal the torch op on the defaults')
    rep.not_decided += ['everything pattern-combinatorial: expansion/anti-unification, where, stack, reshape, __getitem__, any, injectivity of constructed patterns (depends on runtime axis trees)',
                        'NaN as an input class except for nan_to_num_']
    rep.trusted += ['transfer tables of sa/absint/domain.py']
    wrappers.check_wrappers(prog, rep, 'C06-D1 wrapper-homomorphism')
    # derived state (caches computed by a constructor) follows its sources -- sa/rules/derived.py
    from ..rules.derived import check_derived_state, positive_control as _derived_control
    rep.rule('C06-D6', 'derived state: an attribute the constructor computes from other attributes of the object is recomputed by every method that rebinds one of those attributes (kept alive by a synthetic positive example)')
    if not _derived_control():
        rep.error('C06-D6: the synthetic positive example is no longer matched by the rule')
    rep.analysed['derived_attributes'] = check_derived_state(rep, 'C06-D6 derived-state', prog, [c for mod in ('fggs.indices', 'fggs.multi') for c in prog.module(mod).classes.values()])
    wrappers.check_binary(prog, rep, 'C06-D2 binary-identities')
    from .c06_effects import inplace_discipline
    inplace_discipline(prog, rep)
    default_dtype(prog, rep)
    aligned_operands(prog, rep)
    negative_dims(prog, rep)
    from ..rules.negdim import check_dim_slices, positive_control
    rep.rule('C06-D4b', 'axis arithmetic: in fggs/indices.py a slice bound `dim + c` / `dim - c` computed from a `dim` parameter is reached only with `dim` made non-negative (kept alive by a synthetic positive example)')
    if not positive_control():
        rep.error('C06-D4b: the synthetic positive example is no longer matched by the rule')
    n_dim = 0
    for f in prog.module('fggs.indices').functions.values():
        if not f.is_lambda and any(q in f.param_names() for q in ('dim', 'axis', 'dim0', 'dim1')):
            n_dim += 1
            check_dim_slices(rep, 'C06-D4b axis-arithmetic', f)
    rep.floor('C06-D4b functions taking an axis', n_dim, 5)
    dtype_generic_limits(prog, rep)
    constructions_state_default(prog, rep)


def aligned_operands(prog: Program, rep: Report) -> None:
    """The element-wise callback of `binary` / `commutative` combines position i of one tensor with position i of the other: its two
    arguments must have been brought to a common pattern (`expansion`, then expand / to_dense / project).  The raw `.physical`
    tensors of the two operands are aligned only if their `vaxes` agree, which equal `paxes` do not imply (a matrix and its
    transpose share their physical axes)."""
    import ast
    from ..model import own_nodes, norm
    rule = 'C06-D2 aligned-operands'
    rep.rule('C06-D2b', 'the element-wise callback of binary/commutative never receives the raw `.physical` tensors of both operands (they are aligned only after expansion to a common pattern)')
    pt = prog.cls('fggs.indices', 'PatternedTensor')
    n = 0
    for name in ('binary', 'commutative'):
        m = pt.methods.get(name)
        if m is None:
            continue
        pos = m.positional_params()
        t_, u_ = pos[0], pos[1]
        cbs = {p for p in pos[2:] if m.param_annotation(p) is not None and 'Callable' in norm(m.param_annotation(p))} or set(pos[3:])
        for c in [x for x in own_nodes(m.node) if isinstance(x, ast.Call) and isinstance(x.func, ast.Name) and x.func.id in cbs and len(x.args) >= 2]:
            n += 1
            raw = {norm(a) for a in c.args[:2]}
            bad = raw == {f"{t_}.physical", f"{u_}.physical"}
            rep.ob(rule, m.fq(), norm(c)[:80], m.loc(c), not bad,
                   'operands brought to a common pattern first' if not bad else
                   'the callback is applied to the stored tensors of both operands as they are: equal physical axes do not mean equal patterns (m and m.T), so elements at different positions are combined')
    rep.floor('C06-D2 aligned-operands', n, 2)


def default_dtype(prog: Program, rep: Report) -> None:
    """A default is a Python number; the elements it stands for live in the physical tensor's dtype.  Wherever a default is made
    a tensor in order to apply a torch operation to it, the tensor takes that dtype (`<t>.physical.new_tensor(d)`, or an explicit
    `dtype=`): `torch.as_tensor(d)` computes in float32 whatever the tensor holds, so exp / log / division of the default of a
    float64 tensor round, overflow or underflow where the stored elements do not."""
    import ast
    from ..model import own_nodes, norm
    from ..util import callee_last
    rule = 'C06-D1 default-dtype'
    rep.rule('C06-D1c', 'a default wrapped into a tensor for a torch operation takes the dtype of the physical tensor (new_tensor, or an explicit dtype=)')
    n = 0
    for f in prog.module('fggs.indices').functions.values():
        if f.is_lambda:
            continue
        for c in [x for x in own_nodes(f.node) if isinstance(x, ast.Call) and callee_last(x) in ('new_tensor', 'as_tensor', 'tensor', 'full', 'scalar_tensor')]:
            args = list(c.args) + [k.value for k in c.keywords if k.arg in (None, 'data', 'fill_value')]
            if not any(isinstance(a, ast.Attribute) and a.attr == 'default' for x in args for a in ast.walk(x)):
                continue
            n += 1
            has_dtype = any(k.arg == 'dtype' for k in c.keywords)
            inherits = callee_last(c) == 'new_tensor' and isinstance(c.func, ast.Attribute) and norm(c.func.value).endswith('physical')
            ok = has_dtype or inherits
            rep.ob(rule, f.fq(), norm(c)[:80], f.loc(c), ok,
                   'same dtype as the stored elements' if ok else
                   'the default is made a tensor of torch\'s default dtype (float32): for a float64 tensor the operation applied to the default and the one applied to the stored elements no longer agree')
    rep.floor('C06-D1 default-dtype', n, 6)


def negative_dims(prog: Program, rep: Report) -> None:
    """torch counts a negative `dim` from the end; for operations that *add* an axis (stack, unsqueeze) the end is that of the
    result, one axis longer.  `list.insert(dim, x)` with a raw negative dim lands one position too far to the left, so the
    insertion must be preceded by `if dim < 0: dim += <ndim> + 1`."""
    import ast
    from ..cfg import cfg_of
    from ..model import own_nodes, norm
    rule = 'C06-D4 negative-dim'
    rep.rule('C06-D4', 'axis-adding operations (stack, unsqueeze) normalise a negative dim with the rank of the result (ndim + 1) before using it as a list insertion index')
    targets = [prog.func('fggs.indices', 'stack'), prog.func('fggs.indices', 'PatternedTensor.unsqueeze')]
    n = 0
    for f in targets:
        if 'dim' not in f.param_names():
            continue
        cfg = cfg_of(f)
        dom = cfg.dominators()
        norms = []
        for k, nd in cfg.nodes.items():
            if nd.kind == 'test' and isinstance(nd.stmt, ast.If) and norm(nd.expr) in ('dim < 0', '0 > dim'):
                body = nd.stmt.body
                if len(body) == 1 and isinstance(body[0], ast.AugAssign) and norm(body[0].target) == 'dim' and isinstance(body[0].op, ast.Add):
                    v = body[0].value
                    plus_one = isinstance(v, ast.BinOp) and isinstance(v.op, ast.Add) and any(isinstance(x, ast.Constant) and x.value == 1 for x in (v.left, v.right))
                    norms.append((k, plus_one, norm(v)))
        for k, nd in cfg.nodes.items():
            st = nd.stmt
            if nd.kind != 'stmt' or st is None:
                continue
            for c in [x for x in ast.walk(st) if isinstance(x, ast.Call) and isinstance(x.func, ast.Attribute) and x.func.attr == 'insert' and x.args and norm(x.args[0]) == 'dim']:
                n += 1
                doms = [(pk, po, txt) for pk, po, txt in norms if pk in dom.get(k, set())]
                ok = any(po for _, po, _ in doms)
                rep.ob(rule, f.fq(), f"{norm(c)[:60]}: dim normalised against the rank of the result", f.loc(c), ok,
                       f"preceded by `if dim < 0: dim += {doms[0][2]}`" if ok else
                       ('a negative dim reaches list.insert unchanged: the new axis lands one position left of where torch puts it' if not doms else
                        f"normalised with `{doms[0][2]}`, which is the rank of the operand, not of the result"))
    rep.floor('C06-D4', n, 3)


def dtype_generic_limits(prog: Program, rep: Report) -> None:
    """A PatternedTensor's default stands for elements of the physical tensor's dtype: a finite limit that replaces an infinity
    must be that dtype's limit (torch.finfo(self.physical.dtype)), not the float64 constant sys.float_info.max -- which does
    not fit a float32 tensor (to_dense() then raises) and differs from what torch gives the stored elements."""
    import ast
    from ..model import own_nodes, norm
    from ..util import parents
    rule = 'C06-D1 dtype-generic limits'
    pt = prog.cls('fggs.indices', 'PatternedTensor')
    n = 0
    for m in pt.methods.values():
        pm = None
        for x in own_nodes(m.node):
            if isinstance(x, ast.Attribute) and x.attr in ('max', 'min') and norm(x.value) in ('float_info', 'sys.float_info'):
                n += 1
                pm = pm or parents(m)
                p_ = pm.get(id(x))
                guarded = False
                while p_ is not None and not isinstance(p_, ast.stmt):
                    if isinstance(p_, ast.IfExp) and 'dtype' in norm(p_.test):
                        guarded = True
                    p_ = pm.get(id(p_))
                st = p_
                while st is not None:
                    if isinstance(st, ast.If) and 'dtype' in norm(st.test):
                        guarded = True
                    st = pm.get(id(st))
                rep.ob(rule, m.fq(), f"{norm(x)} in {m.name}", m.loc(x), guarded,
                       'only a fallback for non-floating dtypes (guarded by a test of the dtype)' if guarded else
                       'the float64 limit is stored as the value of unstored elements whatever the dtype of the tensor: on float32 it overflows and disagrees with torch.nan_to_num')
    rep.analysed['float_info_uses_in_PatternedTensor'] = n
    ctl = ast.parse("self.default = float_info.max if posinf is None else posinf").body[0]
    rep.ob(rule, 'positive-control', 'an unguarded float_info.max is recognised', '-', any(isinstance(x, ast.Attribute) and x.attr == 'max' for x in ast.walk(ctl)), '', nontrivial=False)


def constructions_state_default(prog: Program, rep: Report) -> None:
    """A PatternedTensor built with an explicit pattern (paxes / vaxes given) stands for a tensor most of whose elements may be
    unstored: the value of those elements must be stated.  Omitting `default` silently makes it 0 -- a slice, view or copy of a
    tensor with another default then denotes a different tensor."""
    import ast
    from ..model import own_nodes, norm
    rule = 'C06-D5 constructions-state-default'
    rep.rule('C06-D5', 'every PatternedTensor(...) constructed with an explicit pattern (paxes/vaxes) in fggs/ passes a default: slices, views, copies and readers never fall back to the implicit 0')
    n = 0
    for m in prog.modules.values():
        if not m.name.startswith('fggs'):
            continue
        for f in m.functions.values():
            if f.is_lambda:
                continue
            for c in [x for x in own_nodes(f.node, into_lambdas=True) if isinstance(x, ast.Call) and isinstance(x.func, ast.Name) and x.func.id == 'PatternedTensor']:
                kw = {k.arg for k in c.keywords}
                if len(c.args) >= 3 or ({'paxes', 'vaxes'} & kw):
                    n += 1
                    ok = len(c.args) >= 4 or 'default' in kw or None in kw
                    if not ok:
                        rep.ob(rule, f.fq(), norm(c)[:90], f.loc(c), False,
                               'no default given: the unstored elements of the result are 0 whatever the default of the tensor it was made from')
    rep.ob(rule, 'fggs', f"{n} pattern-carrying constructions pass a default", '-', True, '', nontrivial=False)
    rep.floor('C06-D5', n, 50)
