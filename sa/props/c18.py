"""C18 -- queries are pure: no write effect on any object reachable from the arguments of the public queries."""
from __future__ import annotations
import ast
from typing import Dict, List, Set
from ..model import decorator_name, Program, AnalysisError, own_nodes, norm
from ..report import Report
from ..effects import effects_for, Effect, star
from ..util import callee_last as _callee_last

QUERIES = [('fggs.sum_product', 'sum_product'), ('fggs.sum_product', 'sum_products'), ('fggs.viterbi', 'viterbi'),
           ('fggs.factorize', 'factorize_rule'), ('fggs.factorize', 'factorize_hrg'), ('fggs.factorize', 'factorize_fgg'),
           ('fggs.conjunction', 'conjoin_hrgs'), ('fggs.formats', 'fgg_to_json'), ('fggs.formats', 'hrg_to_json'),
           ('fggs.derivations', 'FGGDerivation.derive')]
DOCUMENTED = {('factorize_rule', 'labels'): 'documented: "New EdgeLabels are added to the set"'}


def run(prog: Program, rep: Report, tier: str) -> None:
    rep.rule('C18-D1', 'query purity: for each public query and each of its parameters, the interprocedural effect summary contains no write (in-place tensor operation, out=, item/attribute store or delete, container mutator, augmented assignment, graph mutator) on the parameter object or on anything reachable from it (fields, elements, views of tensor storage); the documented `labels` argument of factorize_rule is the only exemption')
    rep.rule('C18-D2', 'every in-place sink in the call graphs of the queries writes storage that is fresh or owned: per sink the root set of the written object is computed; a sink whose roots are parameters of a non-query function is discharged at that function\'s call sites by D1')
    rep.rule('C18-D3', 'clone independence: the results of PatternedTensor.clone and MultiTensor.clone contain no storage of self')
    rep.rule('C18-D5', 'no state persists between calls through default arguments: a default that builds a mutable object is written by no path of the function (interprocedural effect summary) and is not returned')
    rep.rule('C18-D4', 'no query writes a module-level mutable other than the diagnostic letter cache and warnings.formatwarning')
    rep.not_decided += ['bit-identical repeatability of floating-point results (no nondeterminism source is called, but float reproducibility is not a code-shape fact)']
    rep.trusted += ['closed list of view-producing operations (sa/effects.py VIEW_METHODS/VIEW_FUNCS)', 'naming convention: torch/PatternedTensor methods ending in `_` and out= are the only in-place tensor operations; everything else returns fresh storage',
                    'torch_semiring_einsum neither mutates nor aliases its inputs and owns the first argument of its callbacks (extend.py)', 'torch.autograd.Function.apply passes the same tensors to forward']
    eng = effects_for(prog)
    rep.analysed['effect_rounds'] = eng.rounds
    rep.analysed['functions_summarised'] = len(eng.summaries)
    total_sinks = sum(len(s.sinks) for s in eng.summaries.values())
    rep.analysed['write_sinks_in_program'] = total_sinks
    rep.floor('C18 write sinks seen', total_sinks, 150)
    for mod, fn in QUERIES:
        f = prog.func(mod, fn)
        S = eng.summaries[f]
        for p in f.param_names():
            effs = sorted([e for e in S.writes if e.root == f"P:{p}" or e.root.startswith(f"P:{p}.")], key=lambda e: (e.where, e.loc))
            if (fn, p) in DOCUMENTED:
                rep.ob('C18-D1 query-purity', f.fq(), f"{fn}({p}) [documented output argument]", f.loc(), True, DOCUMENTED[(fn, p)] + f"; {len(effs)} write(s) recorded", nontrivial=False)
                continue
            if not effs:
                rep.ob('C18-D1 query-purity', f.fq(), f"{fn}: argument `{p}` is not written", f.loc(), True, 'effect summary has no write on the parameter or anything reachable from it')
            else:
                seen = set()
                for e in effs:
                    k = (e.where, e.text)
                    if k in seen: continue
                    seen.add(k)
                    rep.ob('C18-D1 query-purity', f.fq(), f"{fn}: argument `{p}` written by `{e.text}` in {e.where}", f.loc(), False,
                           f"{e.kind} at {e.loc} reaches an object that is or views `{p}`" + (f" (on {e.root}); call chain: " + ' -> '.join(e.via) if e.via else ''),
                           trace={'effect': e.text, 'where': e.where, 'loc': e.loc, 'via': list(e.via)})
    # D2: sinks reachable from the queries
    reach = reachable_functions(prog, eng, [prog.func(m, f) for m, f in QUERIES])
    n_sinks = 0; owned = 0
    for g in reach:
        for loc, text, roots, kind in eng.summaries[g].sinks:
            n_sinks += 1
            if roots: owned += 1
    rep.analysed['sinks_reachable_from_queries'] = n_sinks
    rep.analysed['of_which_on_parameters_of_helpers (discharged at call sites)'] = owned
    rep.ob('C18-D2 sinks', 'call graphs of the 9 queries', f"{n_sinks} write sinks in {len(reach)} reachable functions", '-', n_sinks >= 60,
           f"{n_sinks - owned} write fresh objects outright, {owned} write a parameter/captured object of a helper and are accounted for through summaries")
    # D3 clone
    for mod, cls in (('fggs.indices', 'PatternedTensor'), ('fggs.multi', 'MultiTensor')):
        m = prog.cls(mod, cls).methods.get('clone')
        if m is None:
            rep.error(f"C18-D3: {cls}.clone not found"); continue
        r = eng.summaries[m].ret
        selfn = m.positional_params()[0]
        storage = r.field('_dict') if cls == 'MultiTensor' else r.field('physical')
        if storage is None:
            rep.error(f"C18-D3: cannot identify the storage attribute of the value returned by {cls}.clone"); continue
        bad = sorted(x for x in (storage.id | storage.reach()) if x.startswith(f"P:{selfn}"))
        rep.ob('C18-D3 clone-independence', m.fq(), f"{cls}.clone() result shares nothing mutable with self", m.loc(), not bad,
               'result is built from fresh storage' if not bad else f"the result may be or contain {bad}: an in-place operation on the clone changes the source")
    # D4 globals
    allowed = {'G:fggs.indices.debugging_letterer', 'G:fggs.indices.debugging_letterer.*'}
    def read_back(root: str) -> bool:
        """Is the module-level object read by library code in a way that can reach a result?  Loads that are only the receiver of
        a store / mutator (`G[k] = v`, `G[k] += 1`, `G.update(...)`, `G.clear()`), arguments of logging calls, or sit in functions
        nothing in the package calls (get_stats / reset_stats accessors for the user) do not count: write-only diagnostics."""
        parts = root[2:].split('.')
        gname = parts[-1] if parts[-1] != '*' else parts[-2]
        # names used anywhere in the package (called, aliased `lower_bound = minor_min_width`, passed as a value)
        called = {x.id for m_ in prog.modules.values() for x in ast.walk(m_.tree) if isinstance(x, ast.Name) and isinstance(x.ctx, ast.Load)} | \
            {x.attr for m_ in prog.modules.values() for x in ast.walk(m_.tree) if isinstance(x, ast.Attribute)}
        for g in prog.all_functions():
            if g.is_lambda or (g.name not in called and g.parent is None and g.cls is None):
                continue
            pm = None
            for x in own_nodes(g.node):
                if not (isinstance(x, ast.Name) and x.id == gname and isinstance(x.ctx, ast.Load)):
                    continue
                if pm is None:
                    from ..util import callee_last, parents
                    pm = parents(g)
                par = pm.get(id(x))
                if isinstance(par, ast.Subscript) and par.value is x and isinstance(par.ctx, (ast.Store, ast.Del)):
                    continue
                if isinstance(par, ast.Subscript) and par.value is x and isinstance(pm.get(id(par)), ast.AugAssign) and pm.get(id(par)).target is par:
                    continue
                if isinstance(par, ast.Attribute) and par.value is x and par.attr in ('update', 'add', 'append', 'clear', 'extend', 'subtract', 'setdefault') \
                        and isinstance(pm.get(id(par)), ast.Call) and isinstance(pm.get(id(pm.get(id(par)))), ast.Expr):
                    continue
                q = par
                in_log = False
                while q is not None and not isinstance(q, ast.stmt):
                    if isinstance(q, ast.Call) and isinstance(q.func, ast.Attribute) and q.func.attr in ('debug', 'info', 'warning', 'error', 'exception', 'log'):
                        in_log = True
                    q = pm.get(id(q))
                if in_log:
                    continue
                return True
        return False
    for mod, fn in QUERIES:
        f = prog.func(mod, fn)
        effs = [e for e in eng.summaries[f].writes if e.root.startswith('G:') and e.root not in allowed]
        diag = [e for e in effs if not read_back(e.root)]
        effs = [e for e in effs if e not in diag]
        rep.ob('C18-D4 globals', f.fq(), f"{fn} writes no module-level mutable", f.loc(), not effs,
               (f"only write-only diagnostics: {sorted({e.root for e in diag})}" if diag else '') if not effs else f"writes {sorted({e.root for e in effs})} at {effs[0].loc}, which library code reads back")

    # D4b state kept by a decorator: a cache in the closure of a wrapping decorator (or functools.cache / lru_cache) survives
    # the call exactly like a module-level dict: results are shared between calls and between callers
    n_dec = 0
    for f in prog.all_functions():
        if f.is_lambda:
            continue
        for d in f.node.decorator_list:
            n_dec += 1
            dn = decorator_name(d)
            last = dn.rsplit('.', 1)[-1] if dn else ''
            why = None
            if last in ('cache', 'lru_cache', 'cached_property', 'memoize', 'memoized'):
                why = f"@{dn} keeps every result for the life of the process"
            else:
                g = None
                r = prog.resolve_global(f.module, last) if last else None
                if r is not None and r[0] == 'func':
                    g = r[1]
                if g is not None:
                    fresh = {n.targets[0].id for n in own_nodes(g.node) if isinstance(n, ast.Assign) and len(n.targets) == 1 and isinstance(n.targets[0], ast.Name) and _mutable_fresh(n.value)}
                    for w in [c for c in g.children if not c.is_lambda]:
                        for x in ast.walk(w.node):
                            tgt = None
                            if isinstance(x, ast.Subscript) and isinstance(x.ctx, (ast.Store, ast.Del)) and isinstance(x.value, ast.Name):
                                tgt = x.value.id
                            elif isinstance(x, ast.Call) and isinstance(x.func, ast.Attribute) and isinstance(x.func.value, ast.Name) \
                                    and x.func.attr in ('append', 'add', 'update', 'setdefault', 'extend', 'insert', 'pop', 'clear'):
                                tgt = x.func.value.id
                            if tgt in fresh and tgt not in {a.arg for a in ast.walk(w.node.args) if isinstance(a, ast.arg)}:
                                why = f"@{dn}: the wrapper `{w.name}` writes `{tgt}`, a container created once when {f.name} is defined"
            rep.ob('C18-D4 decorator-state', f.fq(), f"@{dn or norm(d)} on {f.qualname}", f.loc(d), why is None,
                   'the decorator keeps no state between calls' if why is None else
                   why + ': a later call with an argument the key does not distinguish (another option, a grammar edited in between) is answered from the memory, and all callers share one result object')
    rep.analysed['decorators_examined'] = n_dec

    # D5 default arguments: a default is evaluated once, at definition time; a mutable default that the body (or a callee)
    # writes, or that the function hands out, is state that persists from one call to the next
    n_def = 0
    for f in prog.all_functions():
        a = f.node.args
        pos = a.posonlyargs + a.args
        pairs = list(zip(pos[len(pos) - len(a.defaults):], a.defaults)) + [(k, d) for k, d in zip(a.kwonlyargs, a.kw_defaults) if d is not None]
        for arg, d in pairs:
            n_def += 1
            if not _mutable_fresh(d):
                continue
            S = eng.summaries.get(f)
            writes = [e for e in (S.writes if S else []) if e.root == f"P:{arg.arg}" or e.root.startswith(f"P:{arg.arg}.")]
            escapes = S is not None and any(r == f"P:{arg.arg}" or r.startswith(f"P:{arg.arg}.") for r in (set(S.ret.id) | set(S.ret.content)))
            ok = not writes and not escapes
            rep.ob('C18-D5 default-arguments', f.fq(), f"{f.qualname}({arg.arg}={norm(d)})", f.loc(d), ok,
                   'the shared default object is never written and never handed out' if ok else
                   (f"the default `{norm(d)}` is one object shared by every call that omits `{arg.arg}`; " +
                    (f"it is written by `{writes[0].text}` ({writes[0].loc})" if writes else 'it is returned to the caller') +
                    ': what one call adds is seen by the next, so the same call gives different results the second time'))
    rep.analysed['default_arguments_examined'] = n_def
    rep.floor('C18-D5 defaults examined', n_def, 40)
    ctl = ast.parse("def f(x, acc=[]):\n    acc.append(x)\n    return acc\n").body[0].args.defaults[0]
    rep.ob('C18-D5 default-arguments', 'positive-control', 'a list literal default is recognised as a mutable default', '-', _mutable_fresh(ctl), '', nontrivial=False)


MUTABLE_CTORS = {'list', 'dict', 'set', 'defaultdict', 'OrderedDict', 'Counter', 'deque', 'bytearray'}


def _mutable_fresh(d: ast.AST) -> bool:
    if isinstance(d, (ast.List, ast.Dict, ast.Set, ast.ListComp, ast.DictComp, ast.SetComp)):
        return True
    if isinstance(d, ast.Call):
        fn = d.func
        name = fn.id if isinstance(fn, ast.Name) else fn.attr if isinstance(fn, ast.Attribute) else ''
        if name in MUTABLE_CTORS:
            return True
        if name in ('frozenset', 'tuple', 'str', 'int', 'float', 'bool', 'bytes'):
            return False
        return True            # any other call builds an object of unknown mutability once, at definition time
    return False


def reachable_functions(prog, eng, starts):
    seen = []
    work = list(starts)
    while work:
        f = work.pop()
        if f in seen: continue
        seen.append(f)
        for c in [x for x in own_nodes(f.node, into_lambdas=False) if isinstance(x, ast.Call)]:
            for t in eng.res.resolve(f, c):
                if t.func is not None and t.func not in seen:
                    work.append(t.func)
        for ch in f.children:
            if ch not in seen: work.append(ch)
    return seen
