"""C08 -- the four semirings obey the semiring laws on their whole (abstract) carrier."""
from __future__ import annotations
from ..model import Program
from ..report import Report
from ..absint import semiring_laws
from ..absint import wrappers


def run(prog: Program, rep: Report, tier: str) -> None:
    from ..absint import domain as _dom
    if tier == 'thorough':
        _dom.refine([-2.0, -0.5, 0.5, 2.0])
        rep.notes.append('thorough tier: abstract partition refined with cut points -2, -0.5, 0.5, 2 (16 numeric classes)')
    try:
        _run(prog, rep, tier)
    finally:
        _dom.refine([])


def _run(prog: Program, rep: Report, tier: str) -> None:
    rep.rule('C08-L1..L8', 'semiring laws evaluated by abstract interpretation of the ASTs of from_int/add/mul/sub/star/add_ over a finite partition of the extended reals {-inf,(<-1),-1,(-1,0),0,(0,1),1,(>1),+inf} (booleans for BoolSemiring): identities, annihilation by zero incl. the infinite element, commutativity on all pairs, associativity and distributivity on all triples (exact where both sides are single points, otherwise the two sides must overlap), star(zero)=one, star(top)=top, star(one)=one iff add is idempotent else top, star>=one, (x-y)+y=x at the special pairs, add_ == add, sum in the family of add')
    rep.rule('C08-L9', 'representation agreement: every TensorLike method the semiring bodies call is a homomorphism on PatternedTensor (the function applied to `physical`, the function applied to `default`, and the torch op of that name agree on every class; the default path never raises where torch returns a value)')
    rep.not_decided += ['rounding-level laws on finite floats (associativity up to rounding)', 'behaviour inside a class (subnormals, values near overflow) beyond the extreme representatives']
    rep.trusted += ['transfer tables of sa/absint/domain.py (IEEE-754 / torch element semantics; validated against real torch by the selftest only)']
    rep.exhaustive = True
    semiring_laws.run_laws(prog, rep, thorough=(tier == 'thorough'))
    wrappers.check_wrappers(prog, rep, 'C08-L9 representation-agreement', only_semiring_used=True)
    wrappers.check_binary(prog, rep, 'C08-L9 representation-agreement (pattern-aware binary ops)')
    # the operations the laws were evaluated on are the ones callers get: no semiring method is replaced on the instance
    import ast as _ast
    from ..model import own_nodes as _own, norm as _norm
    rep.rule('C08-L0', 'the semiring operations are the methods of the class: no method of a Semiring class is rebound on the instance (a per-instance wrapper -- a cache of from_int(0), say -- is a different operation from the one whose AST was evaluated)')
    base0 = prog.cls('fggs.semirings', 'Semiring')
    n_m = 0
    for ci in [base0] + prog.subclasses(base0, strict=True):
        names = {q for c in prog.mro(ci) for q in c.methods}
        for m in ci.methods.values():
            selfn = m.self_name()
            if selfn is None:
                continue
            n_m += 1
            for x in _own(m.node):
                hit = None
                if isinstance(x, _ast.Attribute) and isinstance(x.ctx, _ast.Store) and isinstance(x.value, _ast.Name) and x.value.id == selfn and x.attr in names:
                    hit = x.attr
                if isinstance(x, _ast.Call) and isinstance(x.func, _ast.Name) and x.func.id == 'setattr' and len(x.args) == 3 and _norm(x.args[0]) == selfn \
                        and isinstance(x.args[1], _ast.Constant) and x.args[1].value in names:
                    hit = x.args[1].value
                if hit is not None:
                    rep.ob('C08-L0 methods-not-rebound', m.fq(), f"{selfn}.{hit} = ...", m.loc(x), False,
                           f"`{hit}` is a semiring operation of {ci.name}; the instance attribute shadows the method, so what callers run is the wrapper, not the method the laws were checked on")
    rep.ob('C08-L0 methods-not-rebound', base0.fq(), 'no Semiring method is rebound on an instance', f"{base0.module.relpath}:{base0.node.lineno}", True, f"{n_m} methods with a receiver examined")
    # the reductions take torch-style axis numbers (negative = from the end): shape arithmetic with `dim` must allow for that
    from ..rules.negdim import check_dim_slices, positive_control
    rep.rule('C08-L8b', 'axis arithmetic: a slice bound `dim + c` / `dim - c` in a semiring method that takes `dim` is reached only with `dim` made non-negative (for dim = -1, `shape[dim+1:]` is the whole shape); the rule has no instance on today\'s tree and is kept alive by a synthetic positive example')
    if not positive_control():
        rep.error('C08-L8b: the synthetic positive example is no longer matched by the rule')
    base = prog.cls('fggs.semirings', 'Semiring')
    n_dim = 0
    for ci in [base] + prog.subclasses(base, strict=True):
        for m in ci.methods.values():
            if any(q in m.param_names() for q in ('dim', 'axis')):
                n_dim += 1
                check_dim_slices(rep, 'C08-L8b axis-arithmetic', m)
    rep.floor('C08-L8b methods taking an axis', n_dim, 2)
