"""C05 -- factorization: method honoured, fresh-name protocol, carry-over of factors/domains/start/edges,
edge placed in exactly the topmost covering bag."""
from __future__ import annotations
import ast, copy
from typing import Dict, List, Optional, Set
from ..model import Program, AnalysisError, own_nodes, norm, names_in, FuncInfo
from ..cfg import cfg_of
from ..guards import Env, walk, collect_atoms, valuations, describe_env, iff_table
from ..report import Report
from ..rules.dispatch import check_forwarding, check_dispatch, argparse_choices
from ..rules.freshname import check_fresh_names
from ..callgraph import Resolver
from ..util import inline_temps, callee_last, calls_named, enclosing_stmt

FZ = 'fggs.factorize'


def run(prog: Program, rep: Report, tier: str) -> None:
    rep.rule('C05-D1', 'method-honoured: every function of fggs/factorize.py with a `method` parameter passes a value depending on it to every callee that has a `method` parameter; tree_decomposition dispatches exhaustively on the documented methods and raises otherwise')
    rep.rule('C05-D2', 'fresh-name protocol: avoid sets of unique_label_name are seeded from complete edge-label registries (never only nonterminals()/terminals()), and the new label is added before the set is consulted again')
    rep.rule('C05-D3', 'carry-over: factorize_fgg binds factors/domains of the result to the argument\'s (identity or unfiltered copy) on every path; factorize_hrg builds the result from <arg>.start; original edges are re-added as the same Edge object')
    rep.rule('C05-D4', 'edge-placement guard: an original edge is added to a bag\'s rule iff the bag covers it and the parent bag does not (truth table over the three membership atoms)')
    rep.rule('C05-D6', 'every neighbour bag other than the parent is visited and linked: in visit(), for n in t[bag] the recursive call and the add_edge of the child nonterminal are executed iff n != parent, whatever any other condition in the loop says')
    rep.rule('C05-D5', 'decomposition set-up: the primal graph has every rhs node as a vertex and a clique for the attachment nodes of every edge and for the externals; the root bag is chosen iff it contains all externals; the nodes of a new rule are exactly the nodes of its bag (so no new rule is wider than the bag, which is a subset of the original rule\'s nodes); child externals are bag & parent')
    rep.not_decided += ['inlining reproduces each rule up to isomorphism', 'equality of sum-products', 'running-intersection property of the runtime tree decomposition', 'no new rule is wider than the original']
    m = prog.module(FZ)
    res = Resolver(prog)

    # D1
    n = 0
    for f in m.functions.values():
        if not f.is_lambda and 'method' in f.param_names():
            n += check_forwarding(rep, 'C05-D1 method-forwarded', prog, res, f, 'method')
    rep.floor('C05-D1', n, 3)
    td = prog.func(FZ, 'tree_decomposition')
    documented: Dict[str, Set[str]] = {}
    binc = argparse_choices(prog, 'bin.factorize', 'method')
    if binc: documented['bin/factorize.py -m choices'] = binc
    readme = readme_methods(prog)
    if readme: documented['README factorize methods'] = readme
    if not documented:
        documented['property statement'] = {'min_fill', 'quickbb', 'acb'}
    check_dispatch(rep, 'C05-D1 dispatch', td, 'method', documented)
    # the default of every `method` parameter is one of the dispatcher's options
    for f in m.functions.values():
        if not f.is_lambda and 'method' in f.param_names():
            d = f.param_default('method')
            if d is not None:
                ok = isinstance(d, ast.Constant) and d.value in set().union(*documented.values())
                rep.ob('C05-D1 dispatch', f.fq(), f"default method={norm(d)}", f.loc(), ok, 'default is a documented method' if ok else 'default is not a documented method')

    # D2
    funcs = [f for f in m.functions.values() if not f.is_lambda] + [prog.func('fggs.utils', 'singleton_hrg')]
    nc = check_fresh_names(rep, prog, 'C05-D2 fresh-name', funcs)
    from ..rules.freshname import check_generators_once
    check_generators_once(rep, prog, 'C05-D2 fresh-name one-shot', [prog.func('fggs.utils', 'unique_label_name')])
    from ..rules.freshname import check_returns_verified
    rep.floor('C05-D2 fresh-name verified returns', check_returns_verified(rep, 'C05-D2 fresh-name verified', prog.func('fggs.utils', 'unique_label_name')), 1)
    rep.floor('C05-D2', nc, 2)
    avoid_parameter(rep, prog)

    # D3
    carry_over(rep, prog)
    # D4
    edge_placement(rep, prog)
    # D5
    decomposition_setup(rep, prog)
    # D6
    child_recursion(rep, prog)


def readme_methods(prog: Program) -> Set[str]:
    import os, re
    p = os.path.join(prog.repo, 'README.md')
    if not os.path.exists(p):
        return set()
    txt = open(p, encoding='utf-8').read()
    return set(re.findall(r"method=['\"](min_fill|quickbb|acb)['\"]", txt))


def _returned_name(f: FuncInfo) -> Optional[str]:
    names = {norm(n.value) for n in own_nodes(f.node) if isinstance(n, ast.Return) and isinstance(n.value, ast.Name)}
    return next(iter(names)) if len(names) == 1 else None


def _is_copy_of(e: ast.AST, src: str) -> bool:
    t = norm(e)
    if t == src:
        return True
    if isinstance(e, ast.Call):
        nm = callee_last(e)
        if nm in ('dict', 'deepcopy', 'copy') and len(e.args) == 1 and norm(e.args[0]) == src:
            return True
        if nm == 'copy' and isinstance(e.func, ast.Attribute) and norm(e.func.value) == src and not e.args:
            return True
    return False


def carry_over(rep: Report, prog: Program) -> None:
    rule = 'C05-D3 carry-over'
    f = prog.func(FZ, 'factorize_fgg')
    cfg = cfg_of(f)
    p0 = f.positional_params()[0]
    r = _returned_name(f)
    if r is None:
        raise AnalysisError('C05-D3: factorize_fgg does not return a single named result; idiom not recognised')
    for attr in ('factors', 'domains'):
        stores = [n for n in own_nodes(f.node) if isinstance(n, ast.Assign) and any(
            isinstance(t, ast.Attribute) and t.attr == attr and norm(t.value) == r for t in n.targets)]
        if not stores:
            rep.ob(rule, f.fq(), f"{r}.{attr} = {p0}.{attr}", f.loc(), False, f"the result's `{attr}` is never bound to the argument's")
            continue
        for st in stores:
            ok = _is_copy_of(st.value, f"{p0}.{attr}")
            rep.ob(rule, f.fq(), norm(st), f.loc(st), ok,
                   'identity or unfiltered copy of the argument\'s table' if ok else f"right-hand side `{norm(st.value)}` is not {p0}.{attr} or an unfiltered copy of it")
        nodes = {cfg.node_of(s) for s in stores}
        ok, wit = cfg.all_paths_pass(cfg.entry, lambda n: n in nodes)
        rep.ob(rule, f.fq(), f"{r}.{attr} bound on every path to return", f.loc(), ok, '' if ok else 'a path returns without binding it')
    # result built from factorize_hrg(<arg>)
    calls = calls_named(f, 'factorize_hrg')
    ok = bool(calls) and all(c.args and norm(c.args[0]) == p0 for c in calls)
    rep.ob(rule, f.fq(), 'result is built from factorize_hrg(<argument>)', f.loc(), ok, '' if ok else 'factorize_hrg is not applied to the argument grammar')

    h = prog.func(FZ, 'factorize_hrg')
    hp = h.positional_params()[0]
    ctor = [c for c in calls_named(h, 'HRG', 'FGG')]
    ok = bool(ctor) and all(len(c.args) >= 1 and norm(c.args[0]) == f"{hp}.start" for c in ctor)
    rep.ob(rule, h.fq(), f"result grammar constructed with {hp}.start", h.loc(ctor[0]) if ctor else h.loc(), ok,
           '' if ok else f"constructor argument is {[norm(c.args[0]) if c.args else None for c in ctor]}")
    # every rule of the argument is factorized and every produced rule is added
    loops = [n for n in own_nodes(h.node) if isinstance(n, ast.For) and isinstance(n.iter, ast.Call) and callee_last(n.iter) == 'all_rules'
             and norm(n.iter.func.value) == hp]
    rep.ob(rule, h.fq(), f"iterates over {hp}.all_rules()", h.loc(), bool(loops), '' if loops else 'no loop over all rules of the argument')
    for lp in loops:
        # the list of new rules may be given a name first (`rnews = factorize_rule(r, ...); for rnew in rnews:`)
        inner = []
        for n in ast.walk(lp):
            if isinstance(n, ast.For) and n is not lp:
                it_ = inline_temps(lp, n.iter)
                if isinstance(it_, ast.Call) and callee_last(it_) == 'factorize_rule':
                    n = copy.copy(n); n.iter = it_
                    inner.append(n)
        ok = False
        for il in inner:
            tv = norm(il.target)
            unconditional = [s for s in il.body if isinstance(s, ast.Expr) and isinstance(s.value, ast.Call) and callee_last(s.value) == 'add_rule'
                             and s.value.args and norm(s.value.args[0]) == tv]
            passes_rule = il.iter.args and norm(il.iter.args[0]) == norm(lp.target)
            ok = ok or (bool(unconditional) and bool(passes_rule))
        rep.ob(rule, h.fq(), 'every rule returned by factorize_rule(r, ...) is added unconditionally', h.loc(lp), ok, '')

    # original edges re-added as the same object
    v = prog.func(FZ, 'factorize_rule.visit')
    n_sites = 0
    for lp in [n for n in own_nodes(v.node) if isinstance(n, ast.For) and isinstance(n.iter, ast.Call) and callee_last(n.iter) == 'edges']:
        for c in [x for x in ast.walk(lp) if isinstance(x, ast.Call) and callee_last(x) == 'add_edge']:
            n_sites += 1
            ok = len(c.args) == 1 and norm(c.args[0]) == norm(lp.target)
            rep.ob(rule, v.fq(), norm(c), v.loc(c), ok,
                   'the original Edge object is added unchanged' if ok else 'the edge added is not the loop variable itself (re-attached / rebuilt edge)')
    rep.floor('C05-D3 original-edge sites', n_sites, 1)
    # every bag node is added and ext is set from bag & parent / rule ext
    bagloops = [n for n in own_nodes(v.node) if isinstance(n, ast.For) and isinstance(n.iter, ast.Name) and n.iter.id in v.param_names()]
    ok = any(any(isinstance(x, ast.Call) and callee_last(x) == 'add_node' and x.args and norm(x.args[0]) == norm(lp.target) for x in ast.walk(lp))
             and not any(isinstance(x, (ast.If, ast.Continue, ast.Break)) for x in ast.walk(lp)) for lp in bagloops)
    rep.ob(rule, v.fq(), 'every node of the bag is added to the new rhs', v.loc(), ok, '' if ok else 'no unconditional `for v in bag: rhs.add_node(v)`')


def edge_placement(rep: Report, prog: Program) -> None:
    rule = 'C05-D4 edge-placement'
    v = prog.func(FZ, 'factorize_rule.visit')
    cfg = cfg_of(v)
    params = v.positional_params()
    if len(params) != 2:
        raise AnalysisError('C05-D4: factorize_rule.visit no longer has (bag, parent) parameters')
    bag, parent = params
    found = 0
    for lp in [n for n in own_nodes(v.node) if isinstance(n, ast.For) and isinstance(n.iter, ast.Call) and callee_last(n.iter) == 'edges']:
        adds = [x for x in ast.walk(lp) if isinstance(x, ast.Call) and callee_last(x) == 'add_edge']
        if not adds:
            continue
        found += 1
        e = norm(lp.target)
        hdr = cfg.node_of(lp)
        add_nodes = {cfg.node_of(enclosing_stmt(v, a)) for a in adds}
        # atoms
        atoms: Dict[str, ast.AST] = {}
        for n in cfg.loop_body.get(hdr, set()):
            if cfg.nodes[n].kind == 'test':
                atoms.update(collect_atoms(cfg.nodes[n].expr))
        body_entry = [b for b, l in cfg.succ[hdr] if l == 'iter'][0]

        def req(v):
            A, P, B = v.get('bag_covers'), v.get('parent_is_none'), v.get('parent_covers')
            if A is None:
                return None
            if P is True:
                return A
            if B is None:
                return None if A else False
            return A and not B
        bad, unknown = iff_table(cfg, body_entry, hdr, atoms, lambda t, a: classify_atom(a, e, bag, parent), req, lambda reach: bool(reach & add_nodes))
        have = {classify_atom(a, e, bag, parent) for a in atoms.values()} - {None}
        missing = {'bag_covers', 'parent_is_none', 'parent_covers'} - have
        ok = not bad and not missing
        rep.ob(rule, v.fq(), f"for {e} in {norm(lp.iter)}: add_edge({e}) iff bag covers {e} and (no parent or parent does not cover {e})",
               v.loc(lp), ok,
               (f"guard never tests {sorted(missing)}; " if missing else '') + ('; '.join(bad[:4]) if bad else 'truth table agrees')
               + (f" (conditions the rule cannot interpret, quantified universally: {unknown})" if unknown else ''))
    rep.floor('C05-D4', found, 1)


def classify_atom(a: ast.AST, e: str, bag: str, parent: str) -> Optional[str]:
    t = norm(a)
    if isinstance(a, ast.Compare) and len(a.ops) == 1 and isinstance(a.ops[0], (ast.Is, ast.IsNot, ast.Eq, ast.NotEq)) \
            and norm(a.left) == parent and isinstance(a.comparators[0], ast.Constant) and a.comparators[0].value is None:
        return 'parent_is_none'
    if isinstance(a, ast.Call) and isinstance(a.func, ast.Attribute) and a.func.attr == 'issuperset' and len(a.args) == 1 and norm(a.args[0]) in (f"{e}.nodes", f"set({e}.nodes)"):
        if norm(a.func.value) == bag: return 'bag_covers'
        if norm(a.func.value) == parent: return 'parent_covers'
    if isinstance(a, ast.Compare) and len(a.ops) == 1 and isinstance(a.ops[0], ast.LtE) and norm(a.left) in (f"set({e}.nodes)", f"frozenset({e}.nodes)"):
        if norm(a.comparators[0]) == bag: return 'bag_covers'
        if norm(a.comparators[0]) == parent: return 'parent_covers'
    if isinstance(a, ast.Call) and isinstance(a.func, ast.Attribute) and a.func.attr == 'issubset' and norm(a.func.value) in (f"set({e}.nodes)", f"frozenset({e}.nodes)") and len(a.args) == 1:
        if norm(a.args[0]) == bag: return 'bag_covers'
        if norm(a.args[0]) == parent: return 'parent_covers'
    return None


def decomposition_setup(rep: Report, prog: Program) -> None:
    rule = 'C05-D5 decomposition-setup'
    f = prog.func(FZ, 'factorize_rule')
    cfg = cfg_of(f)
    # vertices: every node of the rhs
    rhs_alias = {'rule.rhs'}
    for n in own_nodes(f.node):
        if isinstance(n, ast.Assign) and len(n.targets) == 1 and isinstance(n.targets[0], ast.Name) and norm(n.value) == f"{f.positional_params()[0]}.rhs":
            rhs_alias.add(n.targets[0].id)
    rhs_alias.add(f"{f.positional_params()[0]}.rhs")
    vloops = [l for l in own_nodes(f.node) if isinstance(l, ast.For) and isinstance(l.iter, ast.Call) and callee_last(l.iter) == 'nodes' and norm(l.iter.func.value) in rhs_alias]
    ok = any(any(isinstance(x, ast.Assign) and isinstance(x.targets[0], ast.Subscript) and norm(x.targets[0].slice) == norm(l.target) for x in l.body) for l in vloops)
    # or at once: g = {v: set() for v in rhs.nodes()} (no filter)
    for n in own_nodes(f.node):
        if isinstance(n, ast.DictComp) and len(n.generators) == 1 and not n.generators[0].ifs and norm(n.key) == norm(n.generators[0].target):
            it = n.generators[0].iter
            if isinstance(it, ast.Call) and callee_last(it) == 'nodes' and norm(it.func.value) in rhs_alias:
                ok = True
    rep.ob(rule, f.fq(), 'every rhs node is a vertex of the primal graph', f.loc(), ok, '' if ok else 'isolated nodes would be missing from the decomposition')
    # cliques: attachment nodes of every edge, and the externals
    cl = [l for l in own_nodes(f.node) if isinstance(l, ast.For) and (isinstance(l.iter, ast.BinOp) and isinstance(l.iter.op, ast.Add)
                                                                        or isinstance(l.iter, ast.Call) and callee_last(l.iter) == 'chain')]
    okc = False
    for l in cl:
        txt = norm(inline_temps(f.node, l.iter))          # `rule_edges = rule.rhs.edges()` named first
        # [e.nodes for e in rhs.edges()] + [rhs.ext]   or   chain((e.nodes for e in rhs.edges()), (rhs.ext,))
        ext_elem = any(f"[{a}.ext]" in txt or f"({a}.ext,)" in txt for a in rhs_alias)
        if '.nodes for' in txt and '.edges()' in txt and ext_elem and ' if ' not in txt:
            okc = True
    rep.ob(rule, f.fq(), 'cliques for [e.nodes for e in rhs.edges()] + [rhs.ext]', f.loc(), okc,
           'the externals form a clique, so some bag contains them all' if okc else 'the externals (or some edges) are not made a clique: no bag need contain all externals')
    # root selection: chosen iff ext subset of bag; otherwise assert False
    rl = [l for l in own_nodes(f.node) if isinstance(l, ast.For) and l.orelse]
    okr = False
    for l in rl:
        hdr = cfg.node_of(l)
        b = norm(l.target)
        be = [x for x, lab in cfg.succ[hdr] if lab == 'iter'][0]
        atoms = {}
        for n in cfg.loop_body[hdr]:
            if cfg.nodes[n].kind == 'test': atoms.update(collect_atoms(cfg.nodes[n].expr))
        sub = [t for t, a in atoms.items() if isinstance(a, ast.Call) and callee_last(a) in ('issubset', 'issuperset') and b in t]
        if len(sub) != 1 or len(atoms) != 1:
            continue
        brk = {n for n in cfg.loop_body[hdr] if cfg.nodes[n].kind == 'break'}
        r_t = walk(cfg, be, Env(atoms={sub[0]: True}), loop_header_stop=hdr, unknown='both')
        r_f = walk(cfg, be, Env(atoms={sub[0]: False}), loop_header_stop=hdr, unknown='both')
        else_raises = any(isinstance(x, ast.Assert) or isinstance(x, ast.Raise) for s2 in l.orelse for x in ast.walk(s2))
        okr = bool(brk & r_t) and not (brk & r_f) and else_raises
    rep.ob(rule, f.fq(), 'root bag = a bag containing all externals (loop breaks iff ext is covered; otherwise fails loudly)', f.loc(), okr, '')
    v = prog.func(FZ, 'factorize_rule.visit')
    bag, parent = v.positional_params()[:2]
    adds = [x for x in own_nodes(v.node) if isinstance(x, ast.Call) and callee_last(x) in ('add_node', 'new_node')]
    from ..util import parents as _parents
    pm = _parents(v)
    okn = bool(adds)
    for a in adds:
        p = pm.get(id(a))
        while p is not None and not isinstance(p, ast.For): p = pm.get(id(p))
        if not (isinstance(p, ast.For) and norm(p.iter) == bag and a.args and norm(a.args[0]) == norm(p.target)):
            okn = False
    rep.ob(rule, v.fq(), f"nodes of a new rule are exactly the nodes of `{bag}`", v.loc(), okn, '' if okn else 'a node from outside the bag is added to the new right-hand side')
    ext_defs = [n for n in own_nodes(v.node) if isinstance(n, ast.Assign) and norm(n.targets[0]) == 'ext'] or \
               [n for n in own_nodes(v.node) if isinstance(n, ast.Assign) and isinstance(n.targets[0], ast.Name) and ('&' in norm(n.value) or norm(n.value).endswith('.rhs.ext'))]
    oke = bool(ext_defs) and all(norm(n.value) in (f"list({bag} & {parent})", f"list({parent} & {bag})", f"tuple({bag} & {parent})", f"sorted({bag} & {parent})") or norm(n.value).endswith('.rhs.ext') for n in ext_defs)
    rep.ob(rule, v.fq(), f"externals of a child rule = {bag} & {parent}; of the root rule = the rule's externals", v.loc(), oke, f"{[norm(n) for n in ext_defs]}")


def child_recursion(rep: Report, prog: Program) -> None:
    rule = 'C05-D6 child-recursion'
    v = prog.func(FZ, 'factorize_rule.visit')
    cfg = cfg_of(v)
    bag, parent = v.positional_params()[:2]
    loops = [l for l in own_nodes(v.node) if isinstance(l, ast.For) and isinstance(l.iter, ast.Subscript) and norm(l.iter.slice) == bag]
    rep.floor('C05-D6', len(loops), 1)
    for l in loops:
        n = norm(l.target)
        hdr = cfg.node_of(l)
        be = [b for b, lab in cfg.succ[hdr] if lab == 'iter'][0]
        rec = {m for m in cfg.loop_body[hdr] if cfg.nodes[m].kind == 'stmt' and any(isinstance(x, ast.Call) and isinstance(x.func, ast.Name) and x.func.id == v.name and x.args and norm(x.args[0]) == n for x in ast.walk(cfg.nodes[m].stmt))}
        link = {m for m in cfg.loop_body[hdr] if cfg.nodes[m].kind == 'stmt' and any(isinstance(x, ast.Call) and callee_last(x) == 'add_edge' for x in ast.walk(cfg.nodes[m].stmt))}
        atoms: Dict[str, ast.AST] = {}
        for m in cfg.loop_body[hdr]:
            if cfg.nodes[m].kind == 'test': atoms.update(collect_atoms(cfg.nodes[m].expr))

        def role(t, a):
            if isinstance(a, ast.Compare) and len(a.ops) == 1 and isinstance(a.ops[0], (ast.Eq, ast.NotEq, ast.Is, ast.IsNot)) and {norm(a.left), norm(a.comparators[0])} == {n, parent}:
                return 'is_parent'
            return None
        for what, nodes in (('recursive visit', rec), ('edge to the child rule', link)):
            bad, unknown = iff_table(cfg, be, hdr, atoms, role, lambda val: (not val['is_parent']) if 'is_parent' in val else None, lambda reach: bool(reach & nodes))
            rep.ob(rule, v.fq(), f"for {n} in {norm(l.iter)}: {what} iff {n} != {parent}", v.loc(l), not bad and bool(nodes),
                   '; '.join(bad[:3]) if bad else 'every neighbour bag except the parent is processed'
                   + (f" (universally quantified conditions: {unknown})" if unknown else ''))


def avoid_parameter(rep: Report, prog: Program) -> None:
    """factorize_rule(rule, method, labels): the caller's avoid set is used when one is given (it is replaced by a fresh set only
    when it is None), and the label whose name is the base of the fresh names is itself in the avoid set before the first
    name is drawn (unique_label_name returns the base name unchanged when it is free)."""
    rule = 'C05-D2 fresh-name avoid-parameter'
    f = prog.func(FZ, 'factorize_rule')
    cfg = cfg_of(f)
    calls = [c for g in [f] + [c for c in f.children if not c.is_lambda] for c in own_nodes(g.node) if isinstance(c, ast.Call) and callee_last(c) == 'unique_label_name' and len(c.args) >= 2]
    params = set(f.param_names())
    avoid = {c.args[1].id for c in calls if isinstance(c.args[1], ast.Name) and c.args[1].id in params}
    for A in sorted(avoid):
        # (i) rebinding of the parameter only under `A is None`
        rebinds = [n for n, nd in cfg.nodes.items() if nd.kind == 'stmt' and isinstance(nd.stmt, ast.Assign) and any(isinstance(t, ast.Name) and t.id == A for t in nd.stmt.targets)]
        bad = []
        for n in rebinds:
            r = walk(cfg, cfg.entry, Env(atoms={f"{A} is None": False}), unknown='both')
            if n in r:
                bad.append(cfg.describe(n))
        rep.ob(rule, f.fq(), f"`{A}` is replaced by a fresh set only when the caller passed None", f.loc(), not bad,
               f"{len(rebinds)} rebinding(s), all under `{A} is None`" if not bad else
               f"{bad[0]} runs although the caller supplied `{A}`: the names already handed out for other rules are forgotten and fresh nonterminals of different rules collide")
        # (ii) the base label is in the avoid set
        for c in calls:
            base = c.args[0]
            if not (isinstance(base, ast.Attribute) and base.attr == 'name'):
                continue
            X = norm(base.value)
            adds = [n for n, nd in cfg.nodes.items() if nd.kind == 'stmt' and any(isinstance(x, ast.Call) and isinstance(x.func, ast.Attribute) and x.func.attr in ('add', 'update', 'append')
                    and norm(x.func.value) == A and x.args and (norm(x.args[0]) == X or X in [norm(e) for e in getattr(x.args[0], 'elts', [])]) for x in ast.walk(nd.stmt))]
            # the call sits in f itself or in a nested function defined after the adds: require the add on every path from the entry to the first use of a nested def / the call
            first_use = [n for n, nd in cfg.nodes.items() if nd.stmt is not None and nd.kind in ('stmt', 'return') and any(isinstance(x, ast.Call) and (x is c or (isinstance(x.func, ast.Name) and x.func.id in {ch.name for ch in f.children})) for x in ast.walk(nd.stmt))]
            ok = bool(adds) and bool(first_use) and all(cfg.all_paths_pass(cfg.entry, lambda k: k in adds, targets={u})[0] for u in first_use)
            rep.ob(rule, f.fq(), f"`{X}` is in `{A}` before {norm(c)[:60]} draws a name", f.loc(c), ok,
                   'added on every path' if ok else f"`{X}` may be missing from `{A}`: unique_label_name then returns `{norm(base)}` itself and the new nonterminal takes the name of the rule's own left-hand side")
    rep.floor('C05-D2 avoid parameters', len(avoid), 1)
