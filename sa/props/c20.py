"""C20 -- domains and factors: key-kind agreement on the name-keyed tables; every binding store is dominated by the
checks the property names."""
from __future__ import annotations
import ast
from typing import Dict, List, Optional, Set, Tuple
from ..model import Program, AnalysisError, own_nodes, norm, names_in, FuncInfo
from ..cfg import cfg_of
from ..guards import Env, walk, collect_atoms, norm as cnorm
from ..report import Report
from ..util import callee_last, parents, enclosing_stmt, inline_temps

FG = 'fggs.fggs'
TABLE_KIND = {'domains': 'name', 'factors': 'name', '_node_labels': 'name', '_edge_labels': 'name',
              '_nodes': 'id', '_edges': 'id', '_rules': 'label'}
LABEL_ATTRS = {'label', 'lhs', 'start'}
OBJECT_ITERS = {'nodes', 'edges', 'ext'}
LABEL_ITERS = {'nonterminals', 'terminals', 'edge_labels', 'node_labels', 'type'}
COMPAT = {'name': {'name', 'str'}, 'id': {'id', 'str'}, 'label': {'label'}}


def key_kind(prog: Program, f: Optional[FuncInfo], e: ast.AST, depth: int = 0) -> str:
    if isinstance(e, ast.Attribute):
        if e.attr == 'name': return 'name'
        if e.attr == 'id': return 'id'
        if e.attr in LABEL_ATTRS: return 'label'
        return 'unknown'
    if isinstance(e, ast.Constant) and isinstance(e.value, str): return 'str'
    if isinstance(e, ast.JoinedStr): return 'str'
    if isinstance(e, ast.BinOp) and isinstance(e.op, ast.Add):
        a, b = key_kind(prog, f, e.left, depth), key_kind(prog, f, e.right, depth)
        if 'str' in (a, b) or 'name' in (a, b): return 'str'
    if isinstance(e, ast.Name) and f is not None and depth < 3:
        g: Optional[FuncInfo] = f
        while g is not None:
            if e.id in g.param_names():
                ann = g.param_annotation(e.id)
                if ann is None: return 'unknown'
                t = norm(ann)
                if t in ('str',): return 'str'
                if 'EdgeLabel' in t or 'NodeLabel' in t: return 'label' if 'str' not in t else 'unknown'
                if t in ('Node', 'Edge'): return 'object'
                return 'unknown'
            kinds: Set[str] = set()
            for n in own_nodes(g.node, into_lambdas=True):
                src = None
                if isinstance(n, ast.Assign) and any(isinstance(t, ast.Name) and t.id == e.id for t in n.targets):
                    kinds.add(key_kind(prog, g, n.value, depth + 1))
                elif isinstance(n, (ast.For, ast.comprehension)):
                    tg = n.target
                    if isinstance(tg, ast.Name) and tg.id == e.id:
                        kinds.add(iter_kind(n.iter, 0))
                    elif isinstance(tg, ast.Tuple):
                        for i, el in enumerate(tg.elts):
                            if isinstance(el, ast.Name) and el.id == e.id:
                                kinds.add(iter_kind(n.iter, i))
            kinds.discard(None)
            if kinds:
                return kinds.pop() if len(kinds) == 1 else 'unknown'
            g = g.parent
    return 'unknown'


def iter_kind(it: ast.AST, pos: int) -> str:
    """Kind of the pos-th component of the elements `it` yields."""
    if isinstance(it, ast.Call) and isinstance(it.func, ast.Attribute):
        a = it.func.attr
        recv = it.func.value
        if a in ('items', 'keys') and isinstance(recv, ast.Attribute) and recv.attr in TABLE_KIND:
            return {'name': 'name', 'id': 'id', 'label': 'label'}[TABLE_KIND[recv.attr]] if pos == 0 else 'unknown'
        if a in OBJECT_ITERS: return 'object'
        if a in LABEL_ITERS: return 'label'
    if isinstance(it, ast.Attribute):
        if it.attr in TABLE_KIND: return TABLE_KIND[it.attr] if pos == 0 else 'unknown'
        if it.attr in OBJECT_ITERS: return 'object'
        if it.attr in LABEL_ITERS or it.attr == 'node_labels': return 'label'
    if isinstance(it, ast.Call) and callee_last(it) == 'zip' and pos < len(it.args):
        return iter_kind(it.args[pos], 0)
    return 'unknown'


def run(prog: Program, rep: Report, tier: str) -> None:
    rep.rule('C20-D1', 'key-kind agreement: every subscript / in / get / setdefault / pop on domains, factors, _node_labels, _edge_labels (name-keyed), _nodes, _edges (id-keyed), _rules (label-keyed) uses a key of that kind, wherever its kind can be inferred from .name/.id projections, annotations and iteration sources')
    rep.rule('C20-D2', 'guarded binding: the store into self.factors is unreachable when the label is a nonterminal, is already bound, has another arity, or some domain is unmapped/different (each check evaluated by guard truth table, per element for the zip loop); likewise self.domains when the node label is bound, and FiniteFactor._weights when the shape differs')
    rep.rule('C20-D3', 'equality by content / consistent indexing: __eq__ of FiniteDomain, RangeDomain, ConstantFactor and FiniteFactor compares the attributes the property names (values / size / domains and weight(s)) on both operands; FiniteDomain indexes numberize and denumberize from the same enumeration of its values; FiniteFactor.apply indexes the weights with d.numberize(v) for (d, v) in zip(self.domains, values)')
    rep.not_decided += ['numberize/denumberize are mutually inverse for all value lists', 'apply() returns the weight at the numberized position']
    key_kinds(rep, prog)
    guarded_stores(rep, prog)
    content_equality(rep, prog)
    # derived state (caches computed by a constructor) follows its sources -- sa/rules/derived.py
    from ..rules.derived import check_derived_state, positive_control as _derived_control
    rep.rule('C20-D4', 'derived state: an attribute the constructor computes from other attributes of the object is recomputed by every method that rebinds one of those attributes (kept alive by a synthetic positive example)')
    if not _derived_control():
        rep.error('C20-D4: the synthetic positive example is no longer matched by the rule')
    rep.analysed['derived_attributes'] = check_derived_state(rep, 'C20-D4 derived-state', prog, [c for mod in ('fggs.domains', 'fggs.factors') for c in prog.module(mod).classes.values()])
    rep.floor('C20-D4 derived attributes', rep.analysed['derived_attributes'], 1)


def key_kinds(rep: Report, prog: Program) -> None:
    rule = 'C20-D1 key-kind'
    n_known = n_unknown = 0
    for m in prog.modules.values():
        for f in list(m.functions.values()) + [None]:
            root = f.node if f is not None else m.tree
            nodes = own_nodes(root, into_lambdas=False) if f is not None else [n for n in ast.walk(m.tree) if not any(True for _ in ())]
            if f is None:
                # module-level statements only (bin scripts): walk statements outside function bodies
                nodes = []
                stack = list(m.tree.body)
                while stack:
                    x = stack.pop()
                    if isinstance(x, (ast.FunctionDef, ast.AsyncFunctionDef, ast.ClassDef, ast.Lambda)):
                        continue
                    nodes.append(x); stack.extend(ast.iter_child_nodes(x))
            for n in nodes:
                tab = key = None
                if isinstance(n, ast.Subscript) and isinstance(n.value, ast.Attribute) and n.value.attr in TABLE_KIND:
                    tab, key = n.value, n.slice
                elif isinstance(n, ast.Compare) and len(n.ops) == 1 and isinstance(n.ops[0], (ast.In, ast.NotIn)):
                    r = n.comparators[0]
                    if isinstance(r, ast.Call) and isinstance(r.func, ast.Attribute) and r.func.attr == 'keys':
                        r = r.func.value
                    if isinstance(r, ast.Attribute) and r.attr in TABLE_KIND:
                        tab, key = r, n.left
                elif isinstance(n, ast.Call) and isinstance(n.func, ast.Attribute) and n.func.attr in ('get', 'setdefault', 'pop') \
                        and isinstance(n.func.value, ast.Attribute) and n.func.value.attr in TABLE_KIND and n.args:
                    tab, key = n.func.value, n.args[0]
                if tab is None:
                    continue
                # `domains`/`factors` also name Factor.domains (a tuple): only dict-like uses on graph/grammar objects count
                if tab.attr in ('domains',) and isinstance(n, ast.Subscript) and isinstance(key, (ast.Slice,)):
                    continue
                if isinstance(key, ast.Constant) and isinstance(key.value, int):
                    continue
                want = TABLE_KIND[tab.attr]
                kind = key_kind(prog, f, key)
                where = f.fq() if f is not None else m.name
                loc = f"{m.relpath}:{n.lineno}"
                if kind == 'unknown':
                    n_unknown += 1
                    continue
                n_known += 1
                ok = kind in COMPAT[want]
                rep.ob(rule, where, norm(n)[:100], loc, ok,
                       f"table `{tab.attr}` is keyed by {want}; key `{norm(key)}` is a {kind}" + ('' if ok else
                       ' -- the lookup can never hit, so the test/subscript silently does the wrong thing'))
    rep.analysed['key_kind_sites_decided'] = n_known
    rep.analysed['key_kind_sites_undetermined'] = n_unknown
    rep.floor('C20-D1', n_known, 25)


def _store_nodes(f: FuncInfo, attr: str, subscript: bool) -> List[int]:
    cfg = cfg_of(f)
    selfn = f.self_name()
    out = []
    for n, nd in cfg.nodes.items():
        if nd.kind != 'stmt' or not isinstance(nd.stmt, ast.Assign):
            continue
        for t in nd.stmt.targets:
            tgt = t.value if (subscript and isinstance(t, ast.Subscript)) else t
            if (not subscript or isinstance(t, ast.Subscript)) and isinstance(tgt, ast.Attribute) and tgt.attr == attr \
                    and isinstance(tgt.value, ast.Name) and tgt.value.id == selfn:
                out.append(n)
    return out


def _check_role(rep: Report, rule: str, f: FuncInfo, store: int, role: str, matcher, what: str) -> None:
    """matcher(atom_ast, text) -> violating truth value (bool) or None if the atom is not of this role."""
    cfg = cfg_of(f)
    hits = []
    for n, nd in cfg.nodes.items():
        if nd.kind != 'test':
            continue
        for t, a in collect_atoms(nd.expr).items():
            a_in = inline_temps(f.node, a)       # an operand may have been given a local name first
            v = matcher(a_in, cnorm(a_in))
            if v is not None:
                hits.append((n, t, v))
    construct = f"{cfg.describe(store).split(': ', 1)[-1]} requires: {what}"
    if not hits:
        rep.ob(rule, f.fq(), construct, f.loc(cfg.nodes[store].stmt), False, f"no test for this condition exists before the store (role: {role})")
        return
    oks = []
    for n, t, v in hits:
        env = Env(atoms={t: v})
        loops = cfg.nodes[n].loops
        if loops:
            hdr = loops[-1]
            entry = [b for b, l in cfg.succ[hdr] if l in ('iter', 'true')][0]
            r = walk(cfg, entry, env, loop_header_stop=hdr, unknown='both')
            escapes = hdr in r or cfg.exit in r or store in r
            oks.append((not escapes, f"`{t}`={v} inside the per-element loop: " + ('every path of the iteration raises' if not escapes else 'the iteration can finish without raising')))
        else:
            r = walk(cfg, n, env, unknown='both')
            dominates = n in cfg.dominators().get(store, set())
            oks.append((store not in r and dominates, f"`{t}`={v}: store " + ('unreachable' if store not in r else 'still reachable')
                        + ('' if dominates else '; but the test does not dominate the store (a path bypasses it)')))
    ok = any(o for o, _ in oks)
    rep.ob(rule, f.fq(), construct, f.loc(cfg.nodes[store].stmt), ok, '; '.join(d for _, d in oks))


def guarded_stores(rep: Report, prog: Program) -> None:
    rule = 'C20-D2 guarded-binding'
    im = prog.cls(FG, 'InterpretationMixin')
    # who binds: item stores into <x>.factors / <x>.domains occur only in add_factor / add_domain, whose guards are decided below;
    # every other way in (new_finite_factor, the JSON reader, copies) goes through them or replaces the whole table
    n_w = 0
    for g in prog.all_functions():
        if g.is_lambda:
            continue
        for x in own_nodes(g.node):
            if isinstance(x, ast.Subscript) and isinstance(x.ctx, (ast.Store, ast.Del)) and isinstance(x.value, ast.Attribute) and x.value.attr in ('factors', 'domains'):
                n_w += 1
                owner = {'factors': 'add_factor', 'domains': 'add_domain'}[x.value.attr]
                okw = g.name == owner
                rep.ob(rule + ' single writer', g.fq(), norm(x) + ' = ...', g.loc(x), okw,
                       f"the guarded store of {owner}" if okw else
                       f"binds into `{x.value.attr}` without going through {owner}: the checks that make a binding well-formed (terminal label, not bound yet, arity, domains) are skipped")
    rep.floor('C20-D2 single writer', n_w, 2)
    # ---- add_factor
    f = im.methods.get('add_factor')
    if f is None:
        raise AnalysisError('C20-D2: InterpretationMixin.add_factor not found')
    pos = f.positional_params()
    selfn, el, fac = pos[0], pos[1], pos[2]
    stores = _store_nodes(f, 'factors', True)
    rep.floor('C20-D2 factor stores', len(stores), 1)
    for st in stores:
        def m_nonterm(a, t):
            if t == f"{el}.is_nonterminal": return True
            if t == f"{el}.is_terminal": return False
            return None

        def m_bound(a, t):
            if isinstance(a, ast.Compare) and isinstance(a.ops[0], (ast.In, ast.NotIn)) and cnorm(a.comparators[0]) == f"{selfn}.factors" \
                    and norm(a.left) == f"{el}.name":
                return True
            return None

        def m_arity(a, t):
            if isinstance(a, ast.Compare) and isinstance(a.ops[0], (ast.Eq, ast.NotEq)):
                s = {norm(a.left), norm(a.comparators[0])}
                if s in ({f"{fac}.arity", f"{el}.arity"}, {f"len({fac}.domains)", f"len({el}.node_labels)"}, {f"len({fac}.domains)", f"{el}.arity"}):
                    return False
            return None

        def m_dom_mapped(a, t):
            if isinstance(a, ast.Compare) and isinstance(a.ops[0], (ast.In, ast.NotIn)) and cnorm(a.comparators[0]) == f"{selfn}.domains" \
                    and norm(a.left).endswith('.name'):
                return False
            return None

        def m_dom_equal(a, t):
            if isinstance(a, ast.Compare) and isinstance(a.ops[0], (ast.Eq, ast.NotEq)):
                s = [norm(a.left), norm(a.comparators[0])]
                if any(x.startswith(f"{selfn}.domains[") for x in s):
                    return False
            return None
        _check_role(rep, rule, f, st, 'terminal-only', m_nonterm, 'the label is a terminal')
        _check_role(rep, rule, f, st, 'not-already-bound', m_bound, 'the label has no factor yet')
        _check_role(rep, rule, f, st, 'arity', m_arity, 'factor arity == label arity')
        _check_role(rep, rule, f, st, 'domain-mapped', m_dom_mapped, "every node label of the label's type has a domain")
        _check_role(rep, rule, f, st, 'domain-equal', m_dom_equal, "every factor domain equals the node label's domain")
    # the per-element loop ranges over all positions of both sequences
    loops = [n for n in own_nodes(f.node) if isinstance(n, ast.For)]
    zl = [l for l in loops if isinstance(l.iter, ast.Call) and callee_last(l.iter) == 'zip']
    ok = any({norm(a) for a in l.iter.args} in ({f"{el}.node_labels", f"{fac}.domains"}, {f"{el}.type", f"{fac}.domains"}) for l in zl)
    rep.ob(rule, f.fq(), 'per-position loop pairs the label\'s node labels with the factor\'s domains', f.loc(), ok,
           '' if ok else f"no `for .. in zip({el}.node_labels, {fac}.domains)` loop")
    # ---- add_domain
    g = im.methods.get('add_domain')
    if g is None:
        raise AnalysisError('C20-D2: InterpretationMixin.add_domain not found')
    gp = g.positional_params()
    for st in _store_nodes(g, 'domains', True):
        def m_dbound(a, t):
            if isinstance(a, ast.Compare) and isinstance(a.ops[0], (ast.In, ast.NotIn)) and cnorm(a.comparators[0]) == f"{gp[0]}.domains" \
                    and norm(a.left) == f"{gp[1]}.name":
                return True
            return None
        _check_role(rep, rule, g, st, 'not-already-bound', m_dbound, 'the node label has no domain yet')
    # ---- FiniteFactor.weights setter
    ff = prog.cls('fggs.factors', 'FiniteFactor')
    w = ff.setters.get('weights')
    if w is None:
        raise AnalysisError('C20-D2: FiniteFactor.weights setter not found')
    wp = w.positional_params()
    ws = _store_nodes(w, '_weights', False)
    rep.floor('C20-D2 weights stores', len(ws), 1)
    for st in ws:
        def m_shape(a, t):
            if isinstance(a, ast.Compare) and isinstance(a.ops[0], (ast.Eq, ast.NotEq)) and any('.shape' in norm(x) or '.size()' in norm(x) for x in (a.left, a.comparators[0])):
                return False
            return None
        _check_role(rep, rule, w, st, 'shape', m_shape, 'weights.shape == tuple of the domain sizes')
    # the expected size is built from the size() of every domain of the factor
    ok = False
    for n in own_nodes(w.node):
        if isinstance(n, (ast.ListComp, ast.GeneratorExp)) and len(n.generators) == 1 and norm(n.generators[0].iter) == f"{wp[0]}.domains" \
                and not n.generators[0].ifs and isinstance(n.elt, ast.Call) and callee_last(n.elt) == 'size':
            ok = True
    rep.ob(rule, w.fq(), 'expected shape = [d.size() for d in self.domains]', w.loc(), ok, '' if ok else 'the expected shape is not the unfiltered list of domain sizes')
    # FiniteFactor.__init__ goes through the setter
    init = ff.methods.get('__init__')
    if init is not None:
        sn = init.self_name()
        direct = [n for n in own_nodes(init.node) if isinstance(n, ast.Attribute) and isinstance(n.ctx, ast.Store) and n.attr == '_weights']
        via = [n for n in own_nodes(init.node) if isinstance(n, ast.Attribute) and isinstance(n.ctx, ast.Store) and n.attr == 'weights' and norm(n.value) == sn]
        rep.ob(rule, init.fq(), 'constructor binds weights through the validating setter', init.loc(), bool(via) and not direct,
               '' if via and not direct else 'the constructor writes _weights directly, bypassing the shape check')


def content_equality(rep: Report, prog: Program) -> None:
    rule = 'C20-D3 content-equality'
    want = {('fggs.domains', 'FiniteDomain'): [{'values'}], ('fggs.domains', 'RangeDomain'): [{'_size', 'size'}],
            ('fggs.factors', 'ConstantFactor'): [{'domains'}, {'weight'}], ('fggs.factors', 'FiniteFactor'): [{'domains'}, {'weights', '_weights'}]}
    for (mod, cname), groups in want.items():
        ci = prog.cls(mod, cname)
        f = prog.find_method(ci, '__eq__')          # possibly a template in a shared base class
        identity_only = f is not None and not any(isinstance(n, ast.Compare) and isinstance(n.ops[0], (ast.Eq, ast.NotEq)) for n in own_nodes(f.node))
        if f is None or identity_only:
            rep.ob(rule, ci.fq(), f"{cname}.__eq__ by content", f"{ci.module.relpath}:{ci.node.lineno}", False, f"{cname} inherits identity comparison")
            continue
        selfn, other = f.positional_params()[:2]

        def reads_of(g, who, depth=0):
            out = {n.attr for n in own_nodes(g.node) if isinstance(n, ast.Attribute) and isinstance(n.value, ast.Name) and n.value.id == who}
            for n in own_nodes(g.node):
                if isinstance(n, ast.Call) and isinstance(n.func, ast.Attribute) and isinstance(n.func.value, ast.Name) and n.func.value.id == who:
                    out.add(n.func.attr)
                    h = prog.find_method(ci, n.func.attr)          # a hook the concrete class overrides (`self._eq_key()`)
                    if h is not None and depth < 2 and h.self_name():
                        out |= reads_of(h, h.self_name(), depth + 1)
            return out
        for who in (selfn, other):
            reads = reads_of(f, who)
            miss = [sorted(g)[0] for g in groups if not (g & reads)]
            rep.ob(rule, f.fq(), f"{cname}.__eq__ reads {[sorted(g)[0] for g in groups]} of `{who}`", f.loc(), not miss, f"read: {sorted(reads)}" + (f"; not compared: {miss}" if miss else ''))
        # equality is about the tensor a factor denotes: weights are compared through the tensor interface, not through the
        # storage layout (physical / paxes / vaxes / default differ between equal tensors and agree between different ones)
        raw = [n for n in ast.walk(f.node) if isinstance(n, ast.Attribute) and n.attr in ('physical', 'paxes', 'vaxes') and isinstance(n.ctx, ast.Load)]
        if cname.endswith('Factor'):
            rep.ob(rule, f.fq(), f"{cname}.__eq__ compares weights as tensors, not their storage", f.loc(), not raw,
                   'no access to the storage layout' if not raw else f"reads `{norm(raw[0])}`: two factors with the same dense weights but different sparsity patterns compare unequal, and a tensor compares equal to its transpose")
        same_type = any(isinstance(n, ast.Compare) and 'type(' in norm(n) for n in own_nodes(f.node)) or any(isinstance(n, ast.Call) and callee_last(n) == 'isinstance' for n in own_nodes(f.node))
        rep.ob(rule, f.fq(), f"{cname}.__eq__ requires the same class", f.loc(), same_type, '')
    # __eq__ / __ne__ as truth tables over their identity, class and component conditions
    from ..rules.eqtable import check_eq, check_ne
    n_eq = 0
    for mod in ('fggs.domains', 'fggs.factors'):
        for c in prog.module(mod).classes.values():
            if '__eq__' in c.methods: n_eq += check_eq(rep, 'C20-D3 equality truth table', c.methods['__eq__'])
            if '__ne__' in c.methods: n_eq += check_ne(rep, 'C20-D3 equality truth table', c.methods['__ne__'])
    rep.floor('C20-D3 equality methods', n_eq, 8)
    # a subclass constructor runs the base constructor that binds the shared attributes (Factor.domains), on every path
    n_sup = 0
    for mod in ('fggs.domains', 'fggs.factors'):
        for c in prog.module(mod).classes.values():
            ini = c.methods.get('__init__')
            if ini is None:
                continue
            base_init = None
            for b in prog.mro(c)[1:]:
                if '__init__' in b.methods:
                    base_init = b.methods['__init__']; break
            if base_init is None:
                continue
            bsn = base_init.self_name()
            binds = sorted({n.attr for n in own_nodes(base_init.node) if isinstance(n, ast.Attribute) and isinstance(n.ctx, ast.Store) and isinstance(n.value, ast.Name) and n.value.id == bsn})
            if not binds:
                continue
            n_sup += 1
            icfg = cfg_of(ini)
            sn = ini.self_name()
            def runs_base(k, icfg=icfg, sn=sn, binds=binds):
                st = icfg.nodes[k].stmt
                if icfg.nodes[k].kind != 'stmt' or st is None:
                    return False
                for x in ast.walk(st):
                    if isinstance(x, ast.Call) and isinstance(x.func, ast.Attribute) and x.func.attr == '__init__' and isinstance(x.func.value, ast.Call) and callee_last(x.func.value) == 'super':
                        return True
                # or binds every one of those attributes itself
                return False
            own = {n.attr for n in own_nodes(ini.node) if isinstance(n, ast.Attribute) and isinstance(n.ctx, ast.Store) and isinstance(n.value, ast.Name) and n.value.id == sn}
            ok, _ = icfg.all_paths_pass(icfg.entry, runs_base)
            ok = ok or set(binds) <= own
            rep.ob(rule, ini.fq(), f"{c.name}.__init__ runs {base_init.cls.name}.__init__ (binds {binds})", ini.loc(), ok,
                   'on every path' if ok else f"a path constructs the object without {binds}: arity, shape and equality of the object are undefined")
    rep.floor('C20-D3 base constructors', n_sup, 2)
    # the sequences __eq__ compares have one container type, made by the constructor itself: `tuple(doms)`, `list(values)`.
    # A caller's own list stored as it is compares unequal to the same domains given as a tuple, and changes when the caller's list does.
    n_seq = 0
    for mod, cname, attr in (('fggs.factors', 'Factor', 'domains'), ('fggs.domains', 'FiniteDomain', 'values')):
        ci = prog.cls(mod, cname)
        for m in list(ci.methods.values()) + list(ci.setters.values()):
            selfn = m.self_name()
            if selfn is None:
                continue
            for a_ in own_nodes(m.node):
                if isinstance(a_, (ast.Assign, ast.AnnAssign)) and a_.value is not None:
                    for t in (a_.targets if isinstance(a_, ast.Assign) else [a_.target]):
                        if isinstance(t, ast.Attribute) and isinstance(t.value, ast.Name) and t.value.id == selfn and t.attr == attr:
                            n_seq += 1
                            from ..util import inline_temps as _it
                            v = _it(m.node, a_.value)
                            fresh = isinstance(v, (ast.Tuple, ast.List, ast.ListComp)) or isinstance(v, ast.Call) and isinstance(v.func, ast.Name) and v.func.id in ('tuple', 'list', 'sorted')
                            rep.ob(rule, m.fq(), f"{cname}.{attr} = {norm(v)[:50]}: a container of the class's own making", m.loc(a_), fresh,
                                   'built by the constructor: one container type, not shared with the caller' if fresh else
                                   f"`{norm(v)[:60]}` can be the caller's own object: {cname}s built from a list and from a tuple of the same {attr} compare unequal (list != tuple), and a later change of the caller's list changes the {cname.lower()}")
    rep.floor('C20-D3 stored sequences', n_seq, 2)
    fd = prog.cls('fggs.domains', 'FiniteDomain')
    init = fd.methods['__init__']
    p0 = init.positional_params()[1]
    idx = [n for n in own_nodes(init.node) if isinstance(n, ast.DictComp)]
    ok = False
    # names for the stored list: self.values itself and a local bound in the same statement (`self.values = vals = list(values)`)
    selfn0 = init.positional_params()[0]
    stored = {f"{selfn0}.values"}
    for a_ in own_nodes(init.node):
        if isinstance(a_, ast.Assign) and any(norm(t) == f"{selfn0}.values" for t in a_.targets):
            stored |= {t.id for t in a_.targets if isinstance(t, ast.Name)}
            if isinstance(a_.value, ast.Name):          # `vals = list(values); self.values = vals`
                stored.add(a_.value.id)
    stored_once = {x for x in stored if '.' in x or sum(1 for y in own_nodes(init.node) if isinstance(y, ast.Name) and y.id == x and isinstance(y.ctx, ast.Store)) == 1}
    for d in idx:
        g = d.generators[0]
        uses_p0 = sum(1 for x in own_nodes(init.node, into_lambdas=True) if isinstance(x, ast.Name) and x.id == p0 and isinstance(x.ctx, ast.Load))
        src_ok = norm(g.iter.args[0]) in stored_once or (norm(g.iter.args[0]) == p0 and uses_p0 == 1) if isinstance(g.iter, ast.Call) and g.iter.args else False
        if isinstance(g.iter, ast.Call) and callee_last(g.iter) == 'enumerate' and src_ok and not g.ifs \
                and isinstance(g.target, ast.Tuple) and norm(d.key) == norm(g.target.elts[1]) and norm(d.value) == norm(g.target.elts[0]):
            ok = True
    # the same map built as dict(zip(S, range(len(S)))) over the stored list
    sv = f"{init.positional_params()[0]}.values"
    for c in [x for x in own_nodes(init.node) if isinstance(x, ast.Call) and callee_last(x) == 'dict' and len(x.args) == 1 and isinstance(x.args[0], ast.Call) and callee_last(x.args[0]) == 'zip']:
        za = [norm(a) for a in c.args[0].args]
        if any(za in ([x, f"range(len({x}))"], [x, f"range(0, len({x}))"], [x, 'count()'], [x, 'itertools.count()']) for x in stored_once):
            ok = True
    rep.ob(rule, init.fq(), 'value index = {v: i for (i, v) in enumerate(<the stored list>)}: the same sequence as self.values, not a second pass over the argument', init.loc(), ok,
           '' if ok else 'the index is not built from the stored value list (an iterator argument is empty on its second pass: contains() and numberize() then disagree)')
    nb, dn = fd.methods.get('numberize'), fd.methods.get('denumberize')
    okn = nb is not None and any(isinstance(n, ast.Return) and isinstance(n.value, ast.Subscript) and norm(n.value.value).endswith('._value_index') for n in own_nodes(nb.node))
    okd = dn is not None and any(isinstance(n, ast.Return) and isinstance(n.value, ast.Subscript) and norm(n.value.value).endswith('.values') for n in own_nodes(dn.node))
    rep.ob(rule, fd.fq(), 'numberize looks up the value index, denumberize the value list', f"{fd.module.relpath}:{fd.node.lineno}", okn and okd, '')
    # RangeDomain: contains(v) iff 0 <= v < size (evaluated for v in -1..3 with size 2); numberize/denumberize are the identity
    rd = prog.cls('fggs.domains', 'RangeDomain')
    rc = rd.methods.get('contains')
    if rc is not None:
        from ..guards import Env as _Env
        sn, vp = rc.positional_params()[:2]
        size_terms = {f"{sn}._size", f"{sn}.size()"}
        rets = [r.value for r in own_nodes(rc.node) if isinstance(r, ast.Return) and r.value is not None]
        bad = []
        for v in (-2, -1, 0, 1, 2, 3):
            env = _Env(ints={vp: v, **{t: 2 for t in size_terms}})
            got = {env.eval(r) for r in rets}
            if got != {0 <= v < 2}:
                bad.append(f"contains({v}) with size 2 gives {sorted(map(str, got))}")
        rep.ob(rule, rc.fq(), 'RangeDomain.contains(v) iff 0 <= v < size', rc.loc(), len(rets) == 1 and not bad, '; '.join(bad) if bad else 'values -2..3 against size 2 agree')
    # queries of domains and factors keep no hidden state: apply / numberize / denumberize / contains / size / shape read the
    # object and bind nothing on it (a cache would outlive `fac.weights = ...`)
    n_q = 0
    for mod in ('fggs.domains', 'fggs.factors'):
        for c in prog.module(mod).classes.values():
            for qn in ('apply', 'numberize', 'denumberize', 'contains', 'size', 'arity', 'to_json', '__eq__', '__ne__', '__hash__'):
                q = c.methods.get(qn)
                if q is None or q.self_name() is None:
                    continue
                n_q += 1
                sn = q.self_name()
                stores = [x for x in ast.walk(q.node) if isinstance(x, ast.Attribute) and isinstance(x.ctx, (ast.Store, ast.Del)) and isinstance(x.value, ast.Name) and x.value.id == sn]
                stores += [x for x in ast.walk(q.node) if isinstance(x, ast.Call) and callee_last(x) in ('setattr', '__setattr__') and x.args and norm(x.args[0]) == sn]
                rep.ob(rule, q.fq(), f"{c.name}.{qn} binds nothing on the object", q.loc(), not stores,
                       'a pure query' if not stores else f"stores `{norm(stores[0])}`: state derived from the weights / values that no setter invalidates")
    rep.floor('C20-D3 pure queries', n_q, 12)
    ff = prog.cls('fggs.factors', 'FiniteFactor').methods.get('apply')
    if ff is not None:
        selfn, vals = ff.positional_params()[:2]
        ok = False
        for n in own_nodes(ff.node):
            if isinstance(n, (ast.GeneratorExp, ast.ListComp)) and len(n.generators) == 1:
                g = n.generators[0]
                if isinstance(g.iter, ast.Call) and callee_last(g.iter) == 'zip' and [norm(a) for a in g.iter.args] == [f"{selfn}.domains", vals] and not g.ifs \
                        and isinstance(n.elt, ast.Call) and callee_last(n.elt) == 'numberize' and isinstance(g.target, ast.Tuple) \
                        and norm(n.elt.func.value) == norm(g.target.elts[0]) and norm(n.elt.args[0]) == norm(g.target.elts[1]):
                    ok = True
        rep.ob(rule, ff.fq(), 'apply indexes the weights with d.numberize(v) for (d, v) in zip(self.domains, values)', ff.loc(), ok, '')
