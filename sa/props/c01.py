"""C01 -- non-recursive sum-product: the domain-size multiplier of edgeless internal nodes is applied exactly once to
every rule product, with the right guard; externals without edges are removed/restored consistently; the semiring zero
survives the multiplier and the product on both operand representations."""
from __future__ import annotations
import ast, itertools
from typing import Any, Dict, List, Optional, Set
from ..model import Program, AnalysisError, own_nodes, norm, names_in, FuncInfo
from ..cfg import cfg_of
from ..guards import Env, walk, collect_atoms, valuations, describe_env
from ..report import Report
from ..util import callee_last, enclosing_stmt, parents, depends_on, helper_scopes, single_assignments, inline_temps
from ..absint.domain import AV, const
from ..absint.interp import Interp, Unsupported, SelfObj, PTResult, Opaque, as_av
from ..absint import semiring_laws

SP = 'fggs.sum_product'
MULT = 'multiply_in_disconnected_internals'


def run(prog: Program, rep: Report, tier: str) -> None:
    from ..absint import domain as _dom
    if tier == 'thorough':
        _dom.refine([-2.0, -0.5, 0.5, 2.0])
        rep.notes.append('thorough tier: abstract partition refined with cut points -2, -0.5, 0.5, 2 (16 numeric classes)')
    try:
        _run(prog, rep, tier)
    finally:
        _dom.refine([])


def _run(prog: Program, rep: Report, tier: str) -> None:
    rep.rule('C01-D1', 'multiplier exactly once: on every path of sum_product_edges that returns a tensor, the returned value passes through exactly one application of multiply_in_disconnected_internals, called with the full node set, the set of nodes attached to some edge, and the (renamed) externals; every caller passes <rule>.rhs.nodes() as the node set; no value that already carries the multiplier is multiplied again (the j_precompute path is reported under C11)')
    rep.rule('C01-D2', 'multiplier guard: the domain size of node n is multiplied in iff n is neither attached to an edge nor external (truth table); the size comes from the node label\'s domain; the product is applied with the semiring\'s mul and from_int')
    rep.rule('C01-D3', 'edgeless externals: they are removed from the einsum output iff not connected, and restored by view/expand with size 1 exactly where removed')
    rep.rule('C01-D5', 'inputs complete: in sum_products the scan that collects the already-computed values a component needs visits every right-hand-side edge of every rule of the component (never left early), and records the value of an edge label exactly when the label is not in the component')
    rep.rule('C01-D4', 'zero survives: for every semiring, mul(x, from_int(n)) keeps zero entries zero on both operand representations (abstract interpretation through PatternedTensor.add/mul and nan_to_num_, physical and default paths); a missing factor / nonterminal value means zero (None) and is propagated')
    rep.not_decided += ['equality with the sum over all derivations and assignments for every grammar', 'correctness of einsum itself (C07)', 'SCC ordering (C19)']
    multiplier_once(rep, prog)
    multiplier_guard(rep, prog)
    externals(rep, prog)
    inputs_complete(rep, prog)
    zero_survives(rep, prog)
    none_is_zero(rep, prog)


def _mult_calls(f: FuncInfo) -> List[ast.Call]:
    return [x for x in own_nodes(f.node) if isinstance(x, ast.Call) and callee_last(x) == MULT]


def multiplier_once(rep: Report, prog: Program) -> None:
    rule = 'C01-D1 multiplier-once'
    f = prog.func(SP, 'sum_product_edges')
    cfg = cfg_of(f)
    calls = _mult_calls(f)
    nodes = {cfg.node_of(enclosing_stmt(f, c)): c for c in calls}
    rets = [n for n, nd in cfg.nodes.items() if nd.kind == 'return' and not (isinstance(nd.expr, ast.Constant) and nd.expr.value is None) and nd.expr is not None]
    rep.floor('C01-D1 tensor returns', len(rets), 1)
    for r in rets:
        rv = cfg.nodes[r].expr
        # count multiplier applications on paths entry -> r : every path must pass >= 1, and no path may pass 2
        ok_ge1, wit = cfg.all_paths_pass(cfg.entry, lambda n: n in nodes, targets={r})
        twice = False
        for n in nodes:
            succs = [b for b, l in cfg.succ[n] if l != 'exc']
            reach = cfg.reachable(succs, stop=lambda z: z == r)
            if any(m in reach for m in nodes):
                twice = True
        # the returned name is the target of the multiplier call
        tgt_ok = any(isinstance(enclosing_stmt(f, c), ast.Assign) and norm(enclosing_stmt(f, c).targets[0]) == norm(rv) for c in calls)
        # and nothing rebinds it between the multiplier and the return
        rebound = False
        for n in nodes:
            succs = [b for b, l in cfg.succ[n] if l != 'exc']
            for m in cfg.reachable(succs, stop=lambda z: z == r):
                st = cfg.nodes[m].stmt
                if m != r and cfg.nodes[m].kind == 'stmt' and isinstance(st, ast.Assign) and any(norm(t) == norm(rv) for t in st.targets):
                    reshapes_only = norm(rv) in names_in(st.value) and not any(isinstance(x, ast.Call) and callee_last(x) in (MULT, 'mul', 'einsum', 'add', 'mul_', 'from_int') for x in ast.walk(st.value))
                    if not reshapes_only:
                        rebound = True
        ok = ok_ge1 and not twice and tgt_ok and not rebound
        rep.ob(rule, f.fq(), f"return {norm(rv)}: exactly one {MULT}(...) on every path", f.loc(cfg.nodes[r].stmt), ok,
               'every returning path applies the multiplier once and returns its result' if ok else
               ('a path returns a rule product without the multiplier: edgeless internal nodes would not contribute their domain size' if not ok_ge1 else
                'the multiplier can be applied twice on one path' if twice else 'the value returned is not the result of the multiplier call'))
    fp = f.positional_params()
    for c in calls:
        a = [norm(x) for x in c.args]
        conn = a[2] if len(a) > 2 else None
        # the externals argument: the (renamed-apart) external list = first result of rename_duplicate_nodes, or the parameter itself
        ext_names = {fp[3]} if len(fp) > 3 else set()
        for n in own_nodes(f.node):
            if isinstance(n, ast.Assign) and isinstance(n.value, ast.Call) and callee_last(n.value) == 'rename_duplicate_nodes' and isinstance(n.targets[0], ast.Tuple):
                ext_names.add(norm(n.targets[0].elts[0]))
        ok = len(a) >= 4 and a[1] == fp[1] and a[3] in ext_names
        rep.ob(rule, f.fq(), norm(c)[:90], f.loc(c), ok, f"node set argument `{a[1] if len(a) > 1 else None}` (parameter `{fp[1]}` expected), externals `{a[3] if len(a) > 3 else None}`")
        # connected = union of edge.nodes over *all* edges, collected before any early return in the loop body
        if conn:
            loops = [l for l in own_nodes(f.node) if isinstance(l, ast.For) and norm(l.iter) == fp[2]]
            okc = False
            for l in loops:
                # on every path through one iteration -- also the ones that leave the function early -- the update comes first
                hdr_l = cfg.node_of(l)
                be_l = [b for b, lab in cfg.succ[hdr_l] if lab == 'iter'][0]
                is_upd = lambda k, l=l: cfg.nodes[k].kind == 'stmt' and isinstance(cfg.nodes[k].stmt, ast.Expr) and isinstance(cfg.nodes[k].stmt.value, ast.Call) \
                    and callee_last(cfg.nodes[k].stmt.value) == 'update' and norm(cfg.nodes[k].stmt.value.func.value) == conn \
                    and cfg.nodes[k].stmt.value.args and norm(cfg.nodes[k].stmt.value.args[0]) == f"{norm(l.target)}.nodes"
                after_l = {b for b, lab in cfg.succ[hdr_l] if lab == 'exhaust'}
                if cfg.all_paths_pass(be_l, is_upd, targets={hdr_l, cfg.exit} | after_l)[0]:
                    okc = True
            rep.ob(rule, f.fq(), f"{conn} collects the nodes of every edge", f.loc(c), okc, '' if okc else f"`{conn}` is not updated with edge.nodes for every edge before anything else in the loop")
    # callers pass the complete node set of the rule
    n_callers = 0
    for g in prog.module(SP).functions.values():
        if g.is_lambda or g.name == 'sum_product_edges': continue
        for c in [x for x in own_nodes(g.node) if isinstance(x, ast.Call) and callee_last(x) == 'sum_product_edges']:
            n_callers += 1
            a1 = norm(inline_temps(g.node, c.args[1])) if len(c.args) > 1 else ''       # `rhs = rule.rhs` may have been named first
            ok = a1.endswith('.rhs.nodes()')
            rep.ob(rule, g.fq(), norm(c)[:80], g.loc(c), ok, f"node-set argument `{a1}`" + ('' if ok else ' is not the complete node set <rule>.rhs.nodes(): an edgeless node outside it is never counted'))
    rep.floor('C01-D1 callers', n_callers, 7)


def multiplier_guard(rep: Report, prog: Program) -> None:
    rule = 'C01-D2 multiplier-guard'
    f = prog.func(SP, MULT)
    cfg = cfg_of(f)
    pos = f.positional_params()
    out_p, nodes_p, conn_p, ext_p = pos[0], pos[1], pos[2], pos[3]
    loops = [l for l in own_nodes(f.node) if isinstance(l, ast.For) and norm(l.iter) == nodes_p]
    rep.floor('C01-D2 loop', len(loops), 1)
    for l in loops:
        v = norm(l.target)
        hdr = cfg.node_of(l)
        be = [b for b, lab in cfg.succ[hdr] if lab == 'iter'][0]
        ups = {n for n in cfg.loop_body[hdr] if cfg.nodes[n].kind == 'stmt' and isinstance(cfg.nodes[n].stmt, ast.AugAssign) and isinstance(cfg.nodes[n].stmt.op, ast.Mult)}
        atoms: Dict[str, ast.AST] = {}
        for n in cfg.loop_body[hdr]:
            if cfg.nodes[n].kind == 'test':
                atoms.update(collect_atoms(cfg.nodes[n].expr))
        want_atoms = {f"{v} in {conn_p}", f"{v} in {ext_p}"}
        if set(atoms) != want_atoms:
            if set(atoms) < want_atoms:
                missing = sorted(want_atoms - set(atoms))
                rep.ob(rule, f.fq(), f"multiplier *= size of {v} iff {v} not in {conn_p} and {v} not in {ext_p}", f.loc(l), False,
                       f"the guard never tests {missing}: " + ('external nodes without edges would be multiplied in although they stay as tensor axes' if any(ext_p in m for m in missing) else 'nodes attached to edges would be multiplied in although einsum already sums over them'))
                continue
            raise AnalysisError(f"C01-D2: {f.loc(l)} guard atoms {sorted(atoms)} are not the two membership tests; idiom not recognised")
        bad = []
        for env in valuations(sorted(atoms)):
            r = walk(cfg, be, env, loop_header_stop=hdr, unknown='both')
            ex = bool(ups & r)
            want = not env.atoms[f"{v} in {conn_p}"] and not env.atoms[f"{v} in {ext_p}"]
            if ex != want: bad.append(f"[{describe_env(env)}] multiplied={ex}, required={want}")
        rep.ob(rule, f.fq(), f"multiplier *= size of {v} iff {v} not in {conn_p} and {v} not in {ext_p}", f.loc(l), not bad and bool(ups), '; '.join(bad) if bad else 'truth table agrees on 4 valuations')
        for n in ups:
            st = cfg.nodes[n].stmt
            ok = norm(st.value).replace(' ', '') in (f"fgg.domains[{v}.label.name].size()", f"{pos[5] if len(pos) > 5 else 'fgg'}.domains[{v}.label.name].size()")
            rep.ob(rule, f.fq(), norm(st), f.loc(st), ok, 'factor is the size of the node label\'s domain' if ok else 'the factor multiplied in is not the size of the node\'s domain')
    # application: semiring.mul(out, from_int(multiplier)); identity shortcut only for multiplier == 1
    rets = [n for n in own_nodes(f.node) if isinstance(n, ast.Return)]
    mulret = [r for r in rets if isinstance(r.value, ast.Call) and callee_last(r.value) == 'mul']
    ok = bool(mulret) and all(norm(r.value.args[0]) == out_p and any(isinstance(x, ast.Call) and callee_last(x) == 'from_int' for x in ast.walk(r.value.args[1])) for r in mulret)
    rep.ob(rule, f.fq(), f"return semiring.mul({out_p}, from_int(multiplier))", f.loc(), ok, '' if ok else 'the product is not formed with the semiring\'s mul and from_int')
    plain = [r for r in rets if isinstance(r.value, ast.Name) and r.value.id == out_p]
    for r in plain:
        n = cfg.node_of(r)
        # reachable only when multiplier == 1
        mult_name = None
        for x in own_nodes(f.node):
            if isinstance(x, ast.AugAssign) and isinstance(x.op, ast.Mult): mult_name = norm(x.target)
        bad = [v for v in (0, 2, 3) if n in walk(cfg, cfg.entry, Env(ints={mult_name: v}), unknown='both')] if mult_name else ['?']
        # the walk kills the valuation at `multiplier *= ...`; evaluate from the test after the loop instead
        tests = [t for t, td in cfg.nodes.items() if td.kind == 'test' and mult_name and mult_name in names_in(td.expr) and not td.loops]
        if tests:
            first = min(tests, key=lambda t: cfg.nodes[t].lineno)
            bad = [v for v in (0, 2, 3) if n in walk(cfg, first, Env(ints={mult_name: v}), unknown='both')]
        rep.ob(rule, f.fq(), f"return {out_p} unchanged only when the multiplier is 1", f.loc(r), not bad, f"unchanged return reachable for multiplier in {bad}" if bad else 'identity shortcut is exact')


def externals(rep: Report, prog: Program) -> None:
    rule = 'C01-D3 edgeless-externals'
    for mod, fn in ((SP, 'sum_product_edges'), ('fggs.viterbi', 'sum_product_edges')):
        f = prog.func(mod, fn)
        comps = [n for n in own_nodes(f.node) if isinstance(n, ast.Assign) and isinstance(n.value, ast.ListComp) and len(n.value.generators) == 1
                 and norm(n.value.elt) == norm(n.value.generators[0].target) and n.value.generators[0].ifs
                 and any(isinstance(c, ast.Compare) and isinstance(c.ops[0], (ast.In, ast.NotIn)) and norm(c.left) == norm(n.value.generators[0].target) for c in ast.walk(n.value.generators[0].ifs[0]))]
        if not comps:
            rep.ob(rule, f.fq(), 'outputs = [node for node in ext if node in connected]', f.loc(), False, 'externals without edges are not removed from the einsum outputs')
            continue
        for a in comps:
            g = a.value.generators[0]
            cond = g.ifs[0] if len(g.ifs) == 1 else ast.BoolOp(op=ast.And(), values=list(g.ifs))
            atoms = collect_atoms(cond)
            if len(atoms) != 1:
                raise AnalysisError(f"C01-D3: {f.loc(a)} output filter `{norm(cond)}` is not a single membership test")
            t = next(iter(atoms))
            conn = norm(atoms[t].comparators[0])
            keep = [e.atoms[t] for e in valuations([t]) if e.eval(cond) is True]
            rep.ob(rule, f.fq(), norm(a)[:90], f.loc(a), keep == [True], f"an external node is kept as einsum output iff ({t}) is {keep}")
            # restoration: vshape = [s if n in connected else 1 ...] then view(*vshape).expand(*eshape)
            # the restoring code may sit in f or in a helper f calls (parameters renamed to the caller's arguments)
            scopes = helper_scopes(prog, f)
            ife = [x for g, ren in scopes for x in own_nodes(g.node) if isinstance(x, ast.IfExp) and isinstance(x.test, ast.Compare) and isinstance(x.test.ops[0], (ast.In, ast.NotIn))
                   and ren.get(norm(x.test.comparators[0]), norm(x.test.comparators[0])) == conn]
            okr = False
            for x in ife:
                pos_is_size = not (isinstance(x.body, ast.Constant)) and isinstance(x.orelse, ast.Constant) and x.orelse.value == 1
                neg_is_size = isinstance(x.body, ast.Constant) and x.body.value == 1
                if isinstance(x.test.ops[0], ast.In) and pos_is_size: okr = True
                if isinstance(x.test.ops[0], ast.NotIn) and neg_is_size: okr = True
            # the comprehension pairs every node with its own size: for (n, s) in zip(<nodes>, <shape of the same nodes>)
            for g, ren in scopes:
                for comp in [x for x in own_nodes(g.node) if isinstance(x, (ast.ListComp, ast.GeneratorExp)) and any(y in ife for y in ast.walk(x.elt))]:
                    gen = comp.generators[0]
                    okz = False
                    why = f"`{norm(gen.iter)[:60]}` is not zip(<nodes>, <their shape>)"
                    if isinstance(gen.iter, ast.Call) and callee_last(gen.iter) == 'zip' and len(gen.iter.args) == 2 and isinstance(gen.target, ast.Tuple) and len(gen.target.elts) == 2:
                        A, B = gen.iter.args
                        nvar, svar = norm(gen.target.elts[0]), norm(gen.target.elts[1])
                        sdef = single_assignments(g.node).get(norm(B)) if isinstance(B, ast.Name) else B
                        shape_of = norm(sdef.args[0]) if isinstance(sdef, ast.Call) and callee_last(sdef) == 'shape' and sdef.args else None
                        tests = [y for y in ast.walk(comp.elt) if isinstance(y, ast.IfExp)]
                        uses_n = all(norm(y.test.left) == nvar for y in tests if isinstance(y.test, ast.Compare))
                        uses_s = all(svar in names_in(y.body) | names_in(y.orelse) for y in tests)
                        okz = shape_of == norm(A) and uses_n and uses_s
                        why = 'each node is tested for connectedness and replaced by its own size' if okz else \
                            f"zip({norm(A)}, {norm(B)}) with target ({nvar}, {svar}): the membership test must be on the node and the size must be the size of the same node (shape computed from `{shape_of}`)"
                    rep.ob(rule, g.fq(), f"restore: {norm(comp)[:90]}", g.loc(comp), okz, why)
            views = [x for g, ren in scopes for x in own_nodes(g.node) if isinstance(x, ast.Call) and callee_last(x) == 'expand' and isinstance(x.func.value, ast.Call) and callee_last(x.func.value) == 'view']
            rep.ob(rule, f.fq(), 'restore: view(size if connected else 1).expand(full shape)', f.loc(a), okr and bool(views),
                   'removed externals come back as broadcast axes of their domain size' if okr and views else 'the removed externals are not restored consistently with the removal test')
            guards = [n for n in own_nodes(f.node) if isinstance(n, ast.If) and isinstance(n.test, ast.Compare) and 'ndim' in norm(n.test) and 'len(' in norm(n.test)]
            rep.ob(rule, f.fq(), 'restoration guarded by out.ndim < len(ext)', f.loc(a), bool(guards), '')


def _pt(phys: str, dflt: str) -> SelfObj:
    return SelfObj(AV([phys], 'tensor'), AV([dflt], 'scalar'))


class PTInterp(Interp):
    """Interp extended with an abstract summary of PatternedTensor.commutative: every element of the result is
    op(a, b) with a an element or the default of t, b an element or the default of u (sound given C06-D2)."""
    def self_method(self, so, name, e, env, kws):
        if name == 'commutative':
            u = self.eval(e.args[0], env)
            lam = e.args[3]
            from ..absint.wrappers import COMM_PRIM
            prim = COMM_PRIM.get(callee_last(lam.body) if isinstance(lam, ast.Lambda) and isinstance(lam.body, ast.Call) else '', None)
            if prim is None or not isinstance(u, SelfObj):
                raise Unsupported(e, 'commutative with an unrecognised operation')
            from ..absint.domain import apply
            a = so.physical.join(so.default.with_mode('tensor'))
            b = u.physical.join(u.default.with_mode('tensor'))
            phys = apply(prim, AV(a.cls, 'tensor'), AV(b.cls, 'tensor'), mode='tensor')
            dflt = as_av(self.eval(e.args[2], env), e).with_mode('scalar')
            return SelfObj(phys, dflt)
        # run callee bodies with the same extended interpreter
        ci = self.prog.cls('fggs.indices', 'PatternedTensor')
        m = self.prog.find_method(ci, name)
        if m is None:
            raise Unsupported(e, f"PatternedTensor.{name} not found")
        sub = PTInterp(self.prog, m, {})
        pos = m.positional_params()
        new_env: Dict[str, Any] = {pos[0]: so}
        args = [self.eval(a, env) for a in e.args]
        for p, a in zip(pos[1:], args): new_env[p] = a
        for k, v in kws.items(): new_env[k] = self.eval(v, env)
        for p in m.param_names():
            if p not in new_env:
                d = m.param_default(p)
                new_env[p] = sub.eval(d, {}) if d is not None else AV(['NONE'], 'scalar')
        for p in pos[1:]:
            sub.isinstance_answers[p] = isinstance(new_env.get(p), (SelfObj, PTResult))
        ret, _ = sub.run(new_env)
        if isinstance(ret, PTResult):
            return SelfObj(as_av(ret.physical, e), as_av(ret.default, e))
        return ret

    def call(self, e, env):
        # method call on a SelfObj bound to a plain name (x.add(y) in a semiring body)
        return super().call(e, env)


def zero_survives(rep: Report, prog: Program) -> None:
    rule = 'C01-D4 zero-survives'
    n = 0
    for S in semiring_laws.semirings(prog):
        where = f"fggs.semirings:{S.name}.mul"
        f = S.method('mul')
        try:
            zero = next(iter(S.elem(0).cls))
            ks = sorted(set().union(*[S.elem(k).cls for k in (2, 3)]))
        except Unsupported as u:
            rep.error(f"{rule}: {where}: {u}"); continue
        bad = []
        try:
            for k in ks:
                for c in S.carrier:
                    # x: a stored entry of class c and an unbacked (default) entry equal to the semiring zero; y = PatternedTensor.from_int(k)
                    x = _pt(c, zero)
                    y = _pt(k, zero)
                    it = PTInterp(prog, f)
                    pos = f.positional_params()
                    env = {pos[-2]: x, pos[-1]: y}
                    if not f.is_static: env[pos[0]] = Opaque('semiring')
                    ret, _ = it.run(env)
                    if isinstance(ret, PTResult):
                        ret = SelfObj(as_av(ret.physical, f.node), as_av(ret.default, f.node))
                    if not isinstance(ret, SelfObj):
                        raise Unsupported(f.node, f"mul returned {ret!r}")
                    n += 1
                    want = S.call('mul', S.cls(c), S.cls(k))
                    if ret.default.cls != {zero}:
                        bad.append(f"x.default=zero, multiplier class {k}: result default {ret.default}, expected {{{zero}}}")
                    if c == zero and ret.physical.cls != {zero}:
                        bad.append(f"stored zero entry times multiplier class {k}: physical element becomes {ret.physical}, expected {{{zero}}}")
                    if ret.default.may_raise:
                        bad.append(f"default path raises: {ret.default.why}")
        except Unsupported as u:
            rep.error(f"{rule}: {where}: {u}"); continue
        rep.ob(rule, where, f"{S.name}.mul(PatternedTensor x, from_int(n)) keeps zero entries (stored and default) zero", f.loc(), not bad,
               '; '.join(sorted(set(bad))[:3]) if bad else f"{len(ks) * len(S.carrier)} class combinations through PatternedTensor.add/mul and nan_to_num_")
    rep.floor('C01-D4 evaluations', n, 30)
    # from_int of the patterned representation uses the semiring's from_int for value and zero for default
    pt = prog.cls('fggs.indices', 'PatternedTensor')
    fi = pt.methods.get('from_int')
    if fi is not None:
        c = [x for x in own_nodes(fi.node) if isinstance(x, ast.Call) and callee_last(x) == 'PatternedTensor']
        ok = bool(c) and 'from_int(x)' in norm(c[0].args[0]).replace(' ', '') and any(k.arg == 'default' and 'from_int(0)' in norm(k.value) for k in c[0].keywords)
        rep.ob(rule, fi.fq(), 'PatternedTensor.from_int(x, semiring) = (semiring.from_int(x), default semiring.from_int(0))', fi.loc(), ok, '')


def none_is_zero(rep: Report, prog: Program) -> None:
    """A missing weight makes the whole product zero: sum_product_edges returns None as soon as get_weight finds nothing, and
    every caller tests the result against None before using it."""
    rule = 'C01-D4 none-is-zero'
    f = prog.func(SP, 'sum_product_edges')
    cfg = cfg_of(f)
    gw = [x for x in own_nodes(f.node) if isinstance(x, ast.Call) and callee_last(x) == 'get_weight']
    for c in gw:
        st = enclosing_stmt(f, c)
        if not isinstance(st, ast.Assign): continue
        w = norm(st.targets[0])
        n0 = cfg.node_of(st)
        # with `w is None` true: the function returns None before reaching einsum
        ein = [n for n, nd in cfg.nodes.items() if nd.stmt is not None and nd.kind == 'stmt' and any(isinstance(x, ast.Call) and callee_last(x) == 'einsum' for x in ast.walk(nd.stmt))]
        r = walk(cfg, n0, Env(atoms={f"{w} is None": True}), unknown='both', loop_header_stop=cfg.nodes[n0].loops[-1] if cfg.nodes[n0].loops else None)
        none_ret = any(cfg.nodes[m].kind == 'return' and (cfg.nodes[m].expr is None or (isinstance(cfg.nodes[m].expr, ast.Constant) and cfg.nodes[m].expr.value is None)) for m in r)
        appended = any(cfg.nodes[m].kind == 'stmt' and any(isinstance(x, ast.Call) and callee_last(x) == 'append' and x.args and norm(x.args[0]) == w for x in ast.walk(cfg.nodes[m].stmt)) for m in r)
        rep.ob(rule, f.fq(), f"{w} = get_weight(...): missing weight returns None", f.loc(st), none_ret and not appended,
               'a zero factor makes the product zero (None)' if none_ret and not appended else 'a missing weight does not short-circuit to the zero result')
    n_sites = 0
    for g in prog.module(SP).functions.values():
        if g.is_lambda: continue
        gcfg = cfg_of(g)
        for c in [x for x in own_nodes(g.node) if isinstance(x, ast.Call) and callee_last(x) == 'sum_product_edges']:
            st = enclosing_stmt(g, c)
            tgt = None
            if isinstance(st, ast.Assign) and isinstance(st.targets[0], ast.Name) and st.value is c:
                tgt = st.targets[0].id
            if tgt is None:
                continue      # flows into a list / comprehension (J_precompute, J_log): covered by their own None tests
            n_sites += 1
            n0 = gcfg.node_of(st)
            uses = [m for m, md in gcfg.nodes.items() if md.kind == 'stmt' and md.stmt is not None and m != n0 and any(isinstance(x, ast.Call) and callee_last(x) == 'add_single' and any(tgt in names_in(a) for a in x.args) for x in ast.walk(md.stmt))]
            r = walk(gcfg, n0, Env(atoms={f"{tgt} is None": True}), unknown='both', loop_header_stop=gcfg.nodes[n0].loops[-1] if gcfg.nodes[n0].loops else None)
            bad = [m for m in uses if m in r]
            rep.ob(rule, g.fq(), f"{tgt} = sum_product_edges(...) tested against None before add_single", g.loc(st), not bad, '' if not bad else 'the zero result (None) can reach add_single')
    rep.floor('C01-D4 None tests', n_sites, 5)
    # a nonterminal without (productive) rules: forward hands back None, the wrapper turns it into the semiring zero of the right shape
    ap = prog.func(SP, 'SumProduct.apply_to_patterned_tensors')
    ok = False
    for x in own_nodes(ap.node):
        if isinstance(x, ast.IfExp) and 'is None' in norm(x.test) or isinstance(x, ast.IfExp) and 'None is' in norm(x.test):
            b = norm(x.body)
            if '.zeros(' in b and '.shape(' in b and "['semiring']" in b.replace('"', "'"):
                ok = True
    rep.ob(rule, ap.fq(), 'missing value (None) becomes semiring.zeros(fgg.shape(nt))', ap.loc(), ok, '' if ok else 'a nonterminal without value is not mapped to the semiring zero of its shape')


def inputs_complete(rep: Report, prog: Program) -> None:
    from ..guards import iff_table
    rule = 'C01-D5 inputs-complete'
    f = prog.func(SP, 'sum_products')
    cfg = cfg_of(f)
    # the table handed to the per-component solver: X in `... apply_to_patterned_tensors(fgg, opts, X.keys(), labels, *X.values())`
    tabs = set()
    for c in [x for x in own_nodes(f.node) if isinstance(x, ast.Call) and callee_last(x) in ('apply_to_patterned_tensors', 'apply')]:
        for a in c.args:
            if isinstance(a, ast.Call) and callee_last(a) == 'keys' and isinstance(a.func.value, ast.Name):
                tabs.add(a.func.value.id)
            # or the table itself (iterated for its keys) next to *table.values()
            if isinstance(a, ast.Starred) and isinstance(a.value, ast.Call) and callee_last(a.value) == 'values' and isinstance(a.value.func.value, ast.Name):
                tabs.add(a.value.func.value.id)
    n = 0
    for T in sorted(tabs):
        stores = [k for k, nd in cfg.nodes.items() if nd.kind == 'stmt' and isinstance(nd.stmt, ast.Assign) and any(isinstance(t, ast.Subscript) and norm(t.value) == T for t in nd.stmt.targets)]
        for k in stores:
            loops = cfg.nodes[k].loops
            if len(loops) < 2:
                continue
            n += 1
            inner = loops[-1]
            lp = cfg.nodes[inner].stmt
            comp_loop = loops[0]
            # never left early: no break / return in the scanning loops below the per-component loop
            scan = [cfg.nodes[h].stmt for h in loops[1:]]
            early = [x for l in scan for x in ast.walk(l) if isinstance(x, (ast.Break, ast.Return))]
            rep.ob(rule, f.fq(), f"the scan filling `{T}` ({' / '.join('for ' + norm(l.target) + ' in ' + norm(l.iter)[:30] for l in scan)}) is never left early", f.loc(lp), not early,
                   'every rule and every edge of the component is visited' if not early else
                   f"`{type(early[0]).__name__.lower()}` at line {early[0].lineno} ends the scan before all edges were seen: a label that occurs only later is missing from `{T}`, its rule silently evaluates to zero")
            # recorded iff the label is outside the component
            e = norm(lp.target)
            comp = norm(cfg.nodes[comp_loop].stmt.target)
            be = [b for b, lab in cfg.succ[inner] if lab == 'iter'][0]
            atoms = {}
            for m in cfg.loop_body[inner]:
                if cfg.nodes[m].kind == 'test':
                    atoms.update(collect_atoms(cfg.nodes[m].expr))

            def role(t, a, e=e, comp=comp):
                if isinstance(a, ast.Compare) and isinstance(a.ops[0], (ast.In, ast.NotIn)) and norm(a.left) == f"{e}.label" and norm(a.comparators[0]) == comp:
                    return 'inside'
                return None
            bad, unknown = iff_table(cfg, be, inner, atoms, role, lambda val: (not val['inside']) if 'inside' in val else None, lambda reach: k in reach)
            rep.ob(rule, f.fq(), f"{norm(cfg.nodes[k].stmt)[:60]} iff {e}.label is not in {comp}", f.loc(cfg.nodes[k].stmt), not bad,
                   '; '.join(bad[:2]) if bad else 'every edge whose label was computed in an earlier component contributes its value')
    rep.floor('C01-D5', n, 1)
