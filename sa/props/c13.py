"""C13 -- MultiTensor.allclose (the stopping test) treats an absent block as zero: for keys in both operands, only in
self, and only in other, the block's tensor is compared on every path, in both tolerance branches."""
from __future__ import annotations
import ast
from typing import Dict, List, Optional, Set
from ..model import Program, AnalysisError, own_nodes, norm, names_in, FuncInfo
from ..cfg import cfg_of
from ..guards import Env, walk, collect_atoms
from ..report import Report
from ..util import callee_last, expand_local_calls, inline_temps

MU = 'fggs.multi'
CMP_BOTH = {'equal', 'allclose', 'sub', 'isclose'}
CMP_DEFAULT = {'equal_default', 'allclose_default', 'abs', 'abs_'}


def run(prog: Program, rep: Report, tier: str) -> None:
    rep.rule('C13-D1', 'key-region coverage: in the function that decides convergence (MultiTensor.shouldStop, through its class-level alias) and in MultiTensor.allclose, for each tolerance branch, a block present in both operands is compared with the other operand\'s block, a block present in only one operand is compared with its default (zero), and a failed comparison returns False')
    rep.rule('C13-D2', 'the default compared against is the semiring zero: the one-sided comparison is the *_default method of the block (compares physical with the block\'s own default) -- decided together with C07-D2 which fixes that default to from_int(0)')
    rep.rule('C13-D3', 'reference operand: torch.allclose(a, b) measures the relative tolerance against b; in PatternedTensor.allclose every isclose/allclose call compares a value of self (receiver) with a value of other (argument), never the other way round, and forwards rtol/atol/equal_nan')
    rep.not_decided += ['the pattern-overlap decision procedure of PatternedTensor.equal/allclose (combinatorial over runtime axis trees)', 'symmetry/reflexivity of equal']
    mt = prog.cls(MU, 'MultiTensor')
    targets: List[FuncInfo] = []
    ac = mt.methods.get('allclose')
    if ac is None:
        raise AnalysisError('C13: MultiTensor.allclose not found')
    targets.append(ac)
    alias = mt.aliases.get('shouldStop')
    ss = mt.methods.get('shouldStop')
    if isinstance(alias, ast.Name) and alias.id in mt.methods:
        # the class body assigns shouldStop = <method> after the def: the alias wins
        rep.ob('C13-D1 stop-test-resolution', mt.fq(), f"shouldStop = {alias.id}", f"{mt.module.relpath}:{alias.lineno}", True,
               f"the stopping test resolves to MultiTensor.{alias.id}")
        if mt.methods[alias.id] not in targets:
            targets.append(mt.methods[alias.id])
    elif ss is not None:
        rep.ob('C13-D1 stop-test-resolution', mt.fq(), 'shouldStop is its own method', ss.loc(), True, 'the stopping test is MultiTensor.shouldStop (debug variant)')
        targets.append(ss)
    else:
        raise AnalysisError('C13: cannot resolve MultiTensor.shouldStop')
    n = 0
    for f in targets:
        n += region_coverage(rep, f)
    rep.floor('C13-D1 loops', n, 2)
    reference_operand(rep, prog)
    nan_defaults_unequal(rep, prog)
    default_comparisons(rep, prog)


def region_coverage(rep: Report, f: FuncInfo) -> int:
    cfg = cfg_of(f)
    pos = f.positional_params()
    selfn, other = pos[0], pos[1]
    loops = [n for n in own_nodes(f.node) if isinstance(n, ast.For) and isinstance(n.iter, ast.Call) and callee_last(n.iter) == 'items'
             and norm(n.iter.func.value) in (selfn, other)]
    # group by tolerance branch: the enclosing `if` (if any)
    count = 0
    by_branch: Dict[str, Dict[str, bool]] = {}
    for lp in loops:
        hdr = cfg.node_of(lp)
        owner = norm(lp.iter.func.value)
        opp = other if owner == selfn else selfn
        if not (isinstance(lp.target, ast.Tuple) and len(lp.target.elts) == 2):
            raise AnalysisError(f"C13: {f.loc(lp)} loop target is not (key, tensor)")
        k, t = [norm(x) for x in lp.target.elts]
        be = [b for b, l in cfg.succ[hdr] if l == 'iter'][0]
        atom = f"{k} in {opp}"
        branch = branch_of(cfg, hdr)
        regs = by_branch.setdefault(branch, {})
        count += 1

        def evaluated_parts(e: ast.AST, env_) -> List[ast.AST]:
            """Operands of a short-circuit test that are evaluated at all under the valuation (`k not in self and not close(t)` does not
            evaluate the comparison for a key that is in self)."""
            if env_ is None or not isinstance(e, ast.BoolOp):
                return [e]
            out = []
            for v in e.values:
                out += evaluated_parts(v, env_)
                val = env_.eval(v)
                if (isinstance(e.op, ast.And) and val is False) or (isinstance(e.op, ast.Or) and val is True):
                    break
            return out

        def compares(n: int, kinds: Set[str], need_other: bool, env_=None) -> bool:
            nd = cfg.nodes[n]
            es = evaluated_parts(nd.expr, env_) if nd.kind in ('test',) else [nd.stmt] if nd.kind in ('stmt', 'return') else []
            def has(e: ast.AST) -> bool:
                for x in ast.walk(e):
                    if isinstance(x, ast.Call) and isinstance(x.func, ast.Attribute) and x.func.attr in kinds and norm(x.func.value).split('.')[0].split('(')[0] == t:
                        if not need_other or any(norm(a) == f"{opp}[{k}]" for a in x.args):
                            return True
                return False
            for e in es:
                # the comparison may be reached through a local helper (a closure picked by the tolerance test): every definition counts
                if all(has(alt) for alt in expand_local_calls(f.node, e)):
                    return True
            return False
        for present in (True, False):
            env = Env(atoms={atom: present})
            region = ('both' if present else f"only in {owner}")
            # every path of the iteration must pass a comparison of the right kind, unless the region is the other loop's job
            if present and owner == other:
                # keys in both are handled by the loop over self; this loop must skip them or compare them again -- but never
                # compare such a block with zero
                r_both = walk(cfg, be, env, loop_header_stop=hdr, unknown='both')
                wrong = [n2 for n2 in r_both if n2 in cfg.loop_body[hdr] and compares(n2, CMP_DEFAULT, False, env) and not compares(n2, CMP_BOTH, True, env)]
                rep.ob('C13-D1 key-region', f.fq(), f"[{branch}] key both (loop over {owner}): block `{t}` is not compared with zero", f.loc(lp), not wrong,
                       'a block that the other operand has too is skipped (or compared with it)' if not wrong else
                       f"a block present in both operands is compared with its default ({cfg.describe(wrong[0])}): a non-zero block makes the test fail although the operands agree")
                continue
            kinds = CMP_BOTH if present else CMP_DEFAULT
            okp, wit = _all_paths(cfg, be, hdr, env, lambda n: compares(n, kinds, present))
            regs[region if present else ('S-O' if owner == selfn else 'O-S')] = okp
            rep.ob('C13-D1 key-region', f.fq(), f"[{branch}] key {region}: block `{t}` compared " + ('with the other block' if present else 'with its default (absent = zero)'),
                   f.loc(lp), okp,
                   'every path of the iteration passes the comparison' if okp else 'an iteration for such a key can finish without comparing the block: ' + ' -> '.join(cfg.describe(x) for x in (wit or [])[:5]))
        # the verdict follows the comparison: `return False` is reached exactly on the paths where a comparison failed
        cmp_atoms: Dict[str, ast.AST] = {}
        for n2 in cfg.loop_body[hdr]:
            if cfg.nodes[n2].kind == 'test':
                for t2, a2 in collect_atoms(cfg.nodes[n2].expr).items():
                    alts = expand_local_calls(f.node, inline_temps(lp, a2))     # a verdict that was given a name first
                    if all(any(isinstance(x, ast.Call) and isinstance(x.func, ast.Attribute) and x.func.attr in (CMP_BOTH | CMP_DEFAULT) for x in ast.walk(alt)) for alt in alts):
                        cmp_atoms[t2] = a2
        ret_false = {n2 for n2 in cfg.loop_body[hdr] if cfg.nodes[n2].kind == 'return' and isinstance(cfg.nodes[n2].expr, ast.Constant) and cfg.nodes[n2].expr.value is False}
        if ret_false:
            r_ok = walk(cfg, be, Env(atoms={t2: True for t2 in cmp_atoms}), loop_header_stop=hdr, unknown='both')
            spurious = ret_false & r_ok
            rep.ob('C13-D1 key-region', f.fq(), f"[{branch}] loop over {owner}: blocks that compare equal do not end the test with False", f.loc(lp), not spurious,
                   'with every comparison succeeding the iteration goes on to the next block' if not spurious else
                   f"`return False` is reached although every comparison of the iteration succeeded ({cfg.describe(sorted(spurious)[0])}): the stopping test can never succeed")
        # a failed comparison leaves with False (for boolean-returning variants)
        fails = [n for n in cfg.loop_body[hdr] if cfg.nodes[n].kind == 'return']
        if fails:
            ok = all(isinstance(cfg.nodes[n].expr, ast.Constant) and cfg.nodes[n].expr.value is False for n in fails)
            rep.ob('C13-D1 key-region', f.fq(), f"[{branch}] loop over {owner}: a failed comparison returns False", f.loc(lp), ok, '')
    # every key-region loop lies on every path to the final `return True` (no early exit may skip a region)
    dom = cfg.dominators()
    final_true = [n for n, nd in cfg.nodes.items() if nd.kind == 'return' and isinstance(nd.expr, ast.Constant) and nd.expr.value is True]
    for lp in loops:
        hdr = cfg.node_of(lp)
        br = branch_of(cfg, hdr)
        # paths from the function entry that are compatible with the loop's branch: walk from the branch test towards return True avoiding the header
        starts = [cfg.entry]
        tests = [d for d in dom.get(hdr, set()) if cfg.nodes[d].kind == 'test' and isinstance(cfg.nodes[d].stmt, ast.If)]
        if tests:
            d0 = min(tests, key=lambda x: cfg.nodes[x].lineno)
            lab = 'true' if br.endswith('then') else 'false'
            starts = [b for b, l in cfg.succ[d0] if l == lab]
        skipping = []
        for s0 in starts:
            r = cfg.reachable([s0], stop=lambda n: n == hdr)
            skipping += [n for n in r if cfg.nodes[n].kind == 'return' and isinstance(cfg.nodes[n].expr, ast.Constant) and cfg.nodes[n].expr.value is True]
        rep.ob('C13-D1 key-region', f.fq(), f"[{br}] loop over {norm(lp.iter)} cannot be skipped on the way to `return True`", f.loc(lp), not skipping,
               'every accepting path runs the loop' if not skipping else 'an accepting `return True` is reachable without entering the loop: ' + ', '.join(cfg.describe(n) for n in skipping[:2]))
    for branch, regs in by_branch.items():
        need = {'both', 'S-O', 'O-S'}
        missing = need - set(regs)
        rep.ob('C13-D1 key-region', f.fq(), f"[{branch}] all three key regions are examined", f.loc(), not missing,
               f"regions with a loop: {sorted(regs)}" + (f"; no loop examines: {sorted(missing)}" if missing else ''))
    # the tolerance is honoured: approximate comparisons receive atol derived from the `tol` parameter and rtol == 0
    if 'tol' in f.param_names():
        for c in [x for x in ast.walk(f.node) if isinstance(x, ast.Call) and isinstance(x.func, ast.Attribute) and x.func.attr in ('allclose', 'allclose_default')]:
            kw = {k.arg: k.value for k in c.keywords}
            ok = 'atol' in kw and 'tol' in names_in(kw['atol']) and isinstance(kw.get('rtol'), ast.Constant) and kw['rtol'].value == 0
            rep.ob('C13-D1 tolerance', f.fq(), norm(c)[:80], f.loc(c), ok,
                   'absolute tolerance is the caller\'s tol, no relative slack' if ok else 'the comparison does not use atol=tol, rtol=0: the stopping criterion is not the L-infinity distance the caller asked for')
    return count


def default_comparisons(rep: Report, prog: Program) -> None:
    """equal_default / allclose_default decide whether the stored elements equal the value of the unstored ones: the comparison
    has self.physical on one side and (a tensor of) self.default on the other -- not truthiness, not a literal."""
    rule = 'C13-D2 default-comparison'
    pt = prog.cls('fggs.indices', 'PatternedTensor')
    n = 0
    for name in ('equal_default', 'allclose_default'):
        m = pt.methods.get(name)
        if m is None:
            rep.ob(rule, pt.fq(), f"PatternedTensor.{name} exists", f"{pt.module.relpath}:{pt.node.lineno}", False, 'MultiTensor.allclose calls it for blocks present on one side only'); continue
        n += 1
        sn = m.self_name()
        ok = False
        for r in [x.value for x in own_nodes(m.node) if isinstance(x, ast.Return) and x.value is not None]:
            r2 = inline_temps(m.node, r)
            for c in [x for x in ast.walk(r2) if isinstance(x, ast.Call) and isinstance(x.func, ast.Attribute) and x.func.attr in ('eq', 'equal', 'allclose', 'isclose', 'ne')]:
                recv, args = norm(c.func.value), [norm(a) for a in c.args]
                sides = [recv] + args
                if any(s_.startswith(f"{sn}.physical") for s_ in sides) and any(f"{sn}.default" in s_ for s_ in sides):
                    ok = True
            for c in [x for x in ast.walk(r2) if isinstance(x, ast.Compare) and len(x.ops) == 1 and isinstance(x.ops[0], (ast.Eq, ast.NotEq))]:
                sides = [norm(c.left), norm(c.comparators[0])]
                if any(s_.startswith(f"{sn}.physical") for s_ in sides) and any(f"{sn}.default" in s_ for s_ in sides):
                    ok = True
        rep.ob(rule, m.fq(), f"PatternedTensor.{name} compares self.physical with self.default", m.loc(), ok,
               'stored elements are compared with the value the unstored elements have' if ok else
               'the result does not compare the stored elements with self.default: wrong for every default other than the one it assumes (the semiring zero is -inf in the Log and Viterbi semirings)')
    rep.floor('C13-D2', n, 2)


def nan_defaults_unequal(rep: Report, prog: Program) -> None:
    """torch.equal is False as soon as an element is NaN.  In PatternedTensor.equal every test that involves the two defaults must
    come out False when both defaults are NaN (`==` already does); a disjunct `isnan(a) and isnan(b)` makes it True."""
    rule = 'C13-D2 nan-defaults'
    f = prog.func('fggs.indices', 'PatternedTensor.equal')
    selfn, other = f.positional_params()[:2]
    n = 0
    exprs = [x.value for x in own_nodes(f.node) if isinstance(x, ast.Return) and x.value is not None] + [x.test for x in own_nodes(f.node) if isinstance(x, (ast.If, ast.IfExp))]
    for e in exprs:
        for sub in ast.walk(e):
            if not isinstance(sub, ast.BoolOp) or not isinstance(sub.op, ast.Or):
                continue
            atoms = collect_atoms(sub)
            nan_atoms = [t for t, a in atoms.items() if isinstance(a, ast.Call) and callee_last(a) == 'isnan' and 'default' in t]
            eq_atoms = [t for t, a in atoms.items() if isinstance(a, ast.Compare) and len(a.ops) == 1 and isinstance(a.ops[0], (ast.Eq, ast.NotEq))
                        and 'default' in norm(a.left) and 'default' in norm(a.comparators[0])]
            if not nan_atoms or not eq_atoms:
                continue
            n += 1
            env = Env(atoms={**{t: True for t in nan_atoms}, **{t: False for t in eq_atoms}})
            val = env.eval(sub)
            rep.ob(rule, f.fq(), norm(sub)[:90], f.loc(sub), val is not True,
                   'False (or undecided) when both defaults are NaN' if val is not True else
                   'True when both defaults are NaN: equal() then reports two tensors equal whose dense forms contain NaN, for which torch.equal is False')
    rep.ob(rule, f.fq(), 'defaults compared with == (NaN is unequal to itself, as in torch.equal)', f.loc(), True, f"{n} disjunction(s) over the defaults examined")
    # the defaults decide only in the final expression, after the overlap of the two patterns has been added to the count of
    # positions accounted for: an earlier `return False` whose test mentions a default judges coverage per operand, although a
    # position that is a default on one side may be stored on the other
    from ..util import parents as _parents
    for fn_name in ('equal', 'allclose'):
        g = prog.func('fggs.indices', f"PatternedTensor.{fn_name}")
        pm = _parents(g)
        n_early = 0
        for r in [x for x in own_nodes(g.node) if isinstance(x, ast.Return) and isinstance(x.value, ast.Constant) and x.value.value is False]:
            p_ = pm.get(id(r))
            while p_ is not None and not isinstance(p_, ast.If):
                p_ = pm.get(id(p_))
            if p_ is None:
                continue
            n_early += 1
            uses_default = any(isinstance(x, ast.Attribute) and x.attr == 'default' for x in ast.walk(p_.test))
            rep.ob('C13-D2 early-false', g.fq(), f"if {norm(p_.test)[:70]}: return False", g.loc(r), not uses_default,
                   'decided by sizes or by a comparison of stored elements' if not uses_default else
                   'an early False decided from the defaults: whether differing defaults matter depends on whether some position is stored on neither side, which is known only after the overlap has been counted')
        rep.analysed[f"early_false_{fn_name}"] = n_early


def branch_of(cfg, n: int) -> str:
    """Text of the top-level test under which node n sits ('' if none)."""
    dom = cfg.dominators()
    tests = [d for d in dom.get(n, set()) if cfg.nodes[d].kind == 'test' and isinstance(cfg.nodes[d].stmt, ast.If)]
    if not tests:
        return 'always'
    d = min(tests, key=lambda x: cfg.nodes[x].lineno)
    tb = [b for b, l in cfg.succ[d] if l == 'true']
    side = 'then' if tb and n in cfg.reachable(tb, stop=lambda x: False) and not _reach_via_false(cfg, d, n) else 'else'
    return f"{norm(cfg.nodes[d].expr)} / {side}"


def _reach_via_false(cfg, d: int, n: int) -> bool:
    fb = [b for b, l in cfg.succ[d] if l == 'false']
    return bool(fb) and n in cfg.reachable(fb)


def _all_paths(cfg, start: int, hdr: int, env: Env, pred):
    """Under env, does every path from start to the loop header / function exit pass a node satisfying pred?"""
    r = walk(cfg, start, env, stop=pred, loop_header_stop=hdr, unknown='both')
    # nodes satisfying pred are included but not expanded; escaping means reaching hdr/exit
    esc = (hdr in r) or (cfg.exit in r and not _exit_only_via_return_false(cfg, r))
    return (not esc), sorted(r)


def _exit_only_via_return_false(cfg, r) -> bool:
    """Reaching exit through `return False` (a failed earlier comparison) is not an escape."""
    preds = [p for p, l in cfg.pred[cfg.exit] if p in r]
    return all(cfg.nodes[p].kind == 'return' and isinstance(cfg.nodes[p].expr, ast.Constant) and cfg.nodes[p].expr.value is False for p in preds)


def reference_operand(rep: Report, prog: Program) -> None:
    rule = 'C13-D3 reference-operand'
    f = prog.func('fggs.indices', 'PatternedTensor.allclose')
    selfn, other = f.positional_params()[:2]
    defs = {}
    for a in own_nodes(f.node):
        if isinstance(a, ast.Assign):
            for t in a.targets:
                for x in ([t] if isinstance(t, ast.Name) else list(t.elts) if isinstance(t, ast.Tuple) else []):
                    if isinstance(x, ast.Name) and x.id not in (selfn,):
                        defs.setdefault(x.id, []).append(a.value)

    def side(e: ast.AST, depth: int = 0):
        """Which operand's data an expression carries: the tensor an expression is derived from is the receiver of its method
        chain / the first argument of the function that produced it."""
        if depth > 6: return set()
        if isinstance(e, ast.Name):
            if e.id == selfn: return {'self'}
            if e.id == other and e.id not in defs: return {'other'}
            out = set()
            if e.id == other: out.add('other')
            for v in defs.get(e.id, []):
                if isinstance(v, ast.Call) and callee_last(v) == 'freshen':      # other = other.freshen()
                    out |= side(v.func.value, depth + 1) if not (isinstance(v.func.value, ast.Name) and v.func.value.id == e.id) else {'other'} if e.id == other else set()
                else:
                    out |= side(v, depth + 1)
            return out
        if isinstance(e, (ast.Attribute, ast.Subscript)):
            return side(e.value, depth + 1)
        if isinstance(e, ast.Call):
            if isinstance(e.func, ast.Attribute) and not (isinstance(e.func.value, ast.Name) and e.func.value.id in ('torch',)):
                if e.func.attr in ('new_tensor',) and e.args:
                    return side(e.args[0], depth + 1)
                return side(e.func.value, depth + 1)
            return side(e.args[0], depth + 1) if e.args else set()
        return set()
    n = 0
    for c in [x for x in own_nodes(f.node) if isinstance(x, ast.Call) and isinstance(x.func, ast.Attribute) and x.func.attr in ('isclose', 'allclose') and x.args]:
        rs, as_ = side(c.func.value), side(c.args[0])
        n += 1
        ok = rs == {'self'} and as_ == {'other'}
        kw = {k.arg for k in c.keywords}
        fw = {'rtol', 'atol'} <= kw
        # equal_nan is the caller's choice: where the parameter exists, what is passed on is the parameter (a constant True makes
        # two NaN defaults compare close although the dense tensors, which contain NaN, do not)
        if 'equal_nan' in f.param_names():
            en = next((k.value for k in c.keywords if k.arg == 'equal_nan'), None)
            en_ok = en is None or (isinstance(en, ast.Name) and en.id == 'equal_nan')
            rep.ob(rule + ' equal_nan', f.fq(), norm(c)[:100], f.loc(c), en_ok,
                   'equal_nan left to the caller' if en_ok else f"equal_nan={norm(en)} regardless of what the caller asked for")
        rep.ob(rule, f.fq(), norm(c)[:100], f.loc(c), ok and fw,
               'receiver is a value of self, the reference argument a value of other; tolerances forwarded' if ok and fw else
               (f"receiver carries {sorted(rs)}, argument carries {sorted(as_)}: torch.allclose(self, other) scales rtol by |other|, so the receiver must be a value of self and the argument a value of other" if not ok else 'rtol/atol are not forwarded'))
    rep.floor('C13-D3', n, 4)
