"""C07 -- patterned einsum: the multiply callbacks are the semiring product; sparsity is relative to the semiring zero;
mv/mm are the documented contractions; all returns of the Viterbi variant agree on the pointer's trailing dimension."""
from __future__ import annotations
import ast
from typing import Dict, List, Optional, Set
from ..model import Program, AnalysisError, own_nodes, norm, names_in, FuncInfo
from ..cfg import cfg_of
from ..report import Report
from ..absint import semiring_laws
from ..util import callee_last, parents, enclosing_stmt, inline_temps

IDX = 'fggs.indices'
OUTPUT_SIDE = {'output_vaxes', 'output_paxes', 'output_paxes_set', 'output', 'outsize'}


def run(prog: Program, rep: Report, tier: str) -> None:
    from ..absint import domain as _dom
    if tier == 'thorough':
        _dom.refine([-2.0, -0.5, 0.5, 2.0])
        rep.notes.append('thorough tier: abstract partition refined with cut points -2, -0.5, 0.5, 2 (16 numeric classes)')
    try:
        _run(prog, rep, tier)
    finally:
        _dom.refine([])


def _run(prog: Program, rep: Report, tier: str) -> None:
    rep.rule('C07-D1', 'the in-place multiply callback handed to torch_semiring_einsum by each *.einsum is, on every pair of carrier classes, the same function as that semiring\'s mul (0 x inf = 0 convention); the additive callbacks belong to the family of add')
    rep.rule('C07-D2', 'sparsity relative to semiring zero: in einsum and log_viterbi_einsum_forward the operand list is rebound to [t.default_to(<from_int(0)>.item()) ...] before any axis is unified, and every value tensor they construct takes its default from from_int(0)')
    rep.rule('C07-D3', 'mv / mm forward the semiring and use index strings that denote matrix-vector / matrix-matrix contraction')
    rep.rule('C07-D4', 'pointer width: at every return of the Viterbi variant the size of the pointer\'s last axis is the number of summed-out indices (the index map after the output pops, or the list of per-index pointers built from it), never the number of output axes nor the number of physical argmax coordinates of the raw library pointer; the literal 0 only on the empty-operand return')
    rep.rule('C07-D5', 'stride-0 reduction only for sum-free equations: in reduce_equation the operands are shrunk (as_strided) only when every variable of the equation is an output variable; with a summed-out variable the equation is handed on unchanged (a broadcast summed-out index contributes n identical terms and must not be dropped)')
    rep.rule('C07-D7', 'Viterbi variant keeps 0 x inf = 0: products are formed by the semiring\'s clamped product, not by a kernel that adds log-weights with a plain + (known finding K3 on today\'s tree)')
    rep.rule('C07-D6', 'co-indexing covers every operand position: the loop that pairs an operand\'s virtual axes with its index list iterates zip(<t>.vaxes, <indices>) itself (no dict/set in between, which would drop a repeated index), is never left early (no break/return inside it or its enclosing operand loop), and on every path of an iteration either unifies the axis with the one already recorded for the index or records it')
    rep.not_decided += ['correctness of axis unification, projection strides, reduce_equation and argmax reconstruction (numerical / combinatorial)']
    rep.trusted += ['torch_semiring_einsum calls the callbacks as documented (extend.py)', 'transfer tables of sa/absint/domain.py']
    semiring_laws.check_einsum_callbacks(prog, rep, 'C07-D1 callbacks')
    n_ctor = 0
    for fn in ('einsum', 'log_viterbi_einsum_forward'):
        f = prog.func(IDX, fn)
        n_ctor += zero_relative(rep, prog, f)
    rep.floor('C07-D2 value constructors', n_ctor, 6)
    default_to_reexpression(rep, prog)
    shorthands(rep, prog)
    co_indexing(rep, prog)
    viterbi_product_convention(rep, prog)
    pointer_width(rep, prog)
    reduce_only_sum_free(rep, prog)


def _is_zero_call(f: FuncInfo, v: ast.AST, depth: int = 0) -> bool:
    if not isinstance(v, ast.Call):
        return False
    if callee_last(v) == 'from_int' and v.args and isinstance(v.args[0], ast.Constant) and v.args[0].value == 0:
        return True
    # a helper of the same module all of whose returns are <semiring>.from_int(0) (or names bound to it)
    if isinstance(v.func, ast.Name) and depth < 2:
        g = f.module.functions.get(v.func.id)
        if g is not None and not g.is_lambda:
            zn = _zero_names(g, depth + 1)
            rets = [r.value for r in own_nodes(g.node) if isinstance(r, ast.Return) and r.value is not None]
            return bool(rets) and all(_is_zero_call(g, r, depth + 1) or (isinstance(r, ast.Name) and r.id in zn) for r in rets)
    return False


def _zero_names(f: FuncInfo, depth: int = 0) -> Set[str]:
    """Locals bound to <semiring>.from_int(0), directly or through a helper function returning it."""
    out = set()
    for n in own_nodes(f.node):
        if isinstance(n, ast.Assign):
            vals = [n.value]
            tg = n.targets[-1]
            if isinstance(n.value, ast.Assign):
                pass
            if _is_zero_call(f, n.value, depth):
                for t in n.targets:
                    if isinstance(t, ast.Name): out.add(t.id)
                    if isinstance(t, ast.Subscript):
                        pass
            # chained `zero = cache[key] = semiring.from_int(0)`
    # names given to value-preserving views of the zero (`zero_item = zero.item()`): every binding of the name must be one
    changed = True
    while changed:
        changed = False
        binds: Dict[str, List[ast.AST]] = {}
        for n in own_nodes(f.node):
            if isinstance(n, ast.Assign) and len(n.targets) == 1 and isinstance(n.targets[0], ast.Name):
                binds.setdefault(n.targets[0].id, []).append(n.value)
            elif isinstance(n, ast.Name) and isinstance(n.ctx, ast.Store):
                binds.setdefault(n.id, [])
        stores: Dict[str, int] = {}
        for n in own_nodes(f.node):
            if isinstance(n, ast.Name) and isinstance(n.ctx, ast.Store):
                stores[n.id] = stores.get(n.id, 0) + 1

        def view_of_zero(v: ast.AST) -> bool:
            if isinstance(v, ast.Name):
                return v.id in out
            if isinstance(v, ast.Call) and isinstance(v.func, ast.Attribute) and v.func.attr in ('item', 'clone', 'detach', 'to') and not (v.func.attr != 'to' and v.args):
                return view_of_zero(v.func.value)
            return False
        for name, vals in binds.items():
            if name not in out and vals and len(vals) == stores.get(name, 0) and all(view_of_zero(v) for v in vals):
                out.add(name); changed = True
    return out


def zero_relative(rep: Report, prog: Program, f: FuncInfo) -> int:
    rule = 'C07-D2 zero-relative'
    cfg = cfg_of(f)
    zeros = _zero_names(f)
    if not zeros:
        rep.ob(rule, f.fq(), 'zero = semiring.from_int(0)', f.loc(), False, 'the function never obtains the semiring zero')
        return 0
    tparam = f.positional_params()[0]
    # (a) rebinding through default_to before unification
    rebinds = []
    # the operand list under another name (`ts = tensors`, e.g. the parameter of a helper that was pasted back): the rebinding may
    # go through the copy, provided the original name is not read again afterwards
    aliases = {tparam} | {n.targets[0].id for n in own_nodes(f.node) if isinstance(n, ast.Assign) and len(n.targets) == 1 and isinstance(n.targets[0], ast.Name)
                          and isinstance(n.value, ast.Name) and n.value.id == tparam}
    for n in own_nodes(f.node):
        if isinstance(n, ast.Assign) and len(n.targets) == 1 and isinstance(n.targets[0], ast.Name) and n.targets[0].id in aliases \
                and isinstance(n.value, (ast.ListComp, ast.GeneratorExp)) and len(n.value.generators) == 1:
            g = n.value.generators[0]
            elt = n.value.elt
            if norm(g.iter) == n.targets[0].id and not g.ifs and isinstance(elt, ast.Call) and callee_last(elt) == 'default_to' \
                    and norm(elt.func.value) == norm(g.target) and elt.args and (names_in(elt.args[0]) & zeros):
                rebinds.append(n)
    unify_nodes = [n for n, nd in cfg.nodes.items() if nd.stmt is not None and any(isinstance(x, ast.Call) and callee_last(x) == 'unify' for x in ast.walk(nd.expr if nd.kind == 'test' and nd.expr is not None else nd.stmt) if nd.kind in ('test', 'stmt'))]
    ok = bool(rebinds) and bool(unify_nodes)
    if ok:
        rb = cfg.node_of(rebinds[0])
        dom = cfg.dominators()
        ok = all(rb in dom.get(u, set()) for u in unify_nodes)
        rebound = rebinds[0].targets[0].id
        if ok and rebound != tparam:
            stale = aliases - {rebound}
            later = set(cfg.reachable([rb])) - {rb}
            ok = not any(isinstance(x, ast.Name) and isinstance(x.ctx, ast.Load) and x.id in stale
                         for m in later for e in [cfg.nodes[m].expr if cfg.nodes[m].kind == 'test' else cfg.nodes[m].stmt] if e is not None
                         for x in (ast.walk(e) if cfg.nodes[m].kind in ('test', 'stmt', 'return', 'for', 'raise', 'assert') else []))
    rep.ob(rule, f.fq(), f"{tparam} = [t.default_to(zero.item()) for t in {tparam}] dominates every unify()", f.loc(rebinds[0]) if rebinds else f.loc(), ok,
           'every operand is re-expressed with the semiring zero as its default before patterns are intersected' if ok else
           'operands reach axis unification with their own defaults: a default different from the semiring zero would be treated as zero')
    # the zero_result / normal result constructors
    n = 0
    for g in [f] + [c for c in f.children if not c.is_lambda]:
        for c in [x for x in own_nodes(g.node) if isinstance(x, ast.Call) and callee_last(x) == 'PatternedTensor' and isinstance(x.func, ast.Name)]:
            kw = {k.arg: k.value for k in c.keywords}
            d = kw.get('default') or (c.args[3] if len(c.args) > 3 else None)
            phys = c.args[0] if c.args else kw.get('physical')
            ptxt = norm(phys) if phys is not None else ''
            is_pointer = 'long' in ptxt or 'ptr' in ptxt
            if is_pointer:
                continue
            n += 1
            ok = d is not None and bool(names_in(d) & zeros)
            rep.ob(rule, g.fq(), norm(c)[:100], g.loc(c), ok,
                   'default of the result is the semiring zero' if ok else f"default is `{norm(d) if d is not None else '<omitted: 0>'}`, not derived from semiring.from_int(0): wrong in the Log/Viterbi/Bool semirings")
    return n


def default_to_reexpression(rep: Report, prog: Program) -> None:
    """einsum's operands are re-expressed relative to the semiring zero by default_to.  A result that keeps the stored pattern
    (physical tensor, paxes, vaxes of self) denotes the old default outside the pattern, so it may only be `self` itself, under a
    test that the defaults agree; with a different default the tensor has to be densified first (to_dense() has its own fast path
    for patterns that are total).  A shortcut that relabels the default of a patterned tensor turns every element outside the
    pattern into the new default."""
    rule = 'C07-D2 default_to'
    pt = prog.cls(IDX, 'PatternedTensor')
    f = pt.methods.get('default_to')
    if f is None:
        rep.error(f"{rule}: PatternedTensor.default_to not found"); return
    import copy
    selfn = f.self_name()
    dparam = [p for p in f.positional_params() if p != selfn][0]
    # `return A if c else B` is the two returns
    rets = []
    for r in [n for n in own_nodes(f.node) if isinstance(n, ast.Return) and n.value is not None]:
        v = r.value
        rets += [(v.body, r), (v.orelse, r)] if isinstance(v, ast.IfExp) else [(v, r)]
    n = 0
    for v, r in rets:
        n += 1
        if isinstance(v, ast.Name) and v.id == selfn:
            rep.ob(rule, f.fq(), 'return self (defaults agree)', f.loc(r), True, 'the receiver itself; the guard is the comparison of the defaults')
            continue
        if isinstance(v, ast.Call) and callee_last(v) == 'PatternedTensor':
            phys = v.args[0] if v.args else next((k.value for k in v.keywords if k.arg == 'physical'), None)
            phys = inline_temps(f.node, phys) if phys is not None else None
            keeps = phys is not None and any(isinstance(x, ast.Attribute) and x.attr in ('physical',) and isinstance(x.value, ast.Name) and x.value.id == selfn for x in ast.walk(phys)) \
                and not any(isinstance(x, ast.Call) and callee_last(x) in ('to_dense', 'expansion', 'dim_to_dense') for x in ast.walk(phys))
            # a guard that establishes that the pattern is total (all virtual axes distinct physical axes: `len(set(vaxes)) == len(vaxes)`,
            # an `is_dense`-style predicate) makes relabelling correct; that case is left undecided rather than reported
            pm = parents(f)
            guards_txt = []
            p_ = pm.get(id(r))
            while p_ is not None:
                if isinstance(p_, ast.If):
                    guards_txt.append(norm(p_.test))
                p_ = pm.get(id(p_))
            total = any(('set(' in g and 'vaxes' in g) or 'dense' in g or 'permutation' in g for g in guards_txt)
            if keeps and total:
                rep.ob(rule, f.fq(), norm(v)[:90], f.loc(r), True, f"relabelling under a guard that speaks about the pattern being total ({guards_txt[0][:60]}): not decided here")
                continue
            rep.ob(rule, f.fq(), norm(v)[:90], f.loc(r), not keeps,
                   'the tensor is densified before it is given the new default' if not keeps else
                   'the stored pattern is kept and only the default replaced: every element outside the pattern (off the diagonal of a repeated axis, outside a sum or product block) silently becomes the new default')
            continue
        rep.ob(rule, f.fq(), norm(v)[:90], f.loc(r), True, 'result built by another operation (not decided here)')
    rep.floor(rule, n, 2)


def shorthands(rep: Report, prog: Program) -> None:
    rule = 'C07-D3 shorthands'
    pt = prog.cls(IDX, 'PatternedTensor')
    for name, shape in (('mv', (2, 1, 1)), ('mm', (2, 2, 2))):
        m = pt.methods.get(name)
        if m is None:
            rep.error(f"{rule}: PatternedTensor.{name} not found"); continue
        calls = [x for x in own_nodes(m.node) if isinstance(x, ast.Call) and callee_last(x) == 'einsum']
        if len(calls) != 1:
            rep.error(f"{rule}: {m.loc()} {name} does not consist of a single einsum call"); continue
        c = calls[0]
        pos = m.positional_params()
        try:
            ops = [norm(x) for x in c.args[0].elts]
            ins = [x.value for x in c.args[1].elts]
            out = c.args[2].value
            sem = norm(c.args[3])
        except Exception:
            rep.error(f"{rule}: {m.loc(c)} einsum arguments of {name} not literal"); continue
        a, b = ins
        if name == 'mv':
            ok = len(a) == 2 and len(b) == 1 and a[1] == b[0] and a[0] != a[1] and out == a[0]
        else:
            ok = len(a) == 2 and len(b) == 2 and a[1] == b[0] and len({a[0], a[1], b[1]}) == 3 and out == a[0] + b[1]
        rep.ob(rule, m.fq(), f"einsum(({', '.join(ops)}), {ins}, {out!r}, {sem})", m.loc(c), ok and ops == [pos[0], pos[1]] and sem == pos[2],
               'contracts the last index of self with the first of the argument; operands in order; semiring forwarded')


def pointer_width(rep: Report, prog: Program) -> None:
    rule = 'C07-D4 pointer-width'
    f = prog.func(IDX, 'log_viterbi_einsum_forward')
    from ..guards import Env, walk
    cfg = cfg_of(f)
    # roles: the index map is the dict whose entries are popped for the output indices; the pointer tensor is the second result of
    # the library's viterbi einsum; the per-index pointer list is built by append in a loop over the index map
    allowed = set()
    for n in own_nodes(f.node):
        if isinstance(n, ast.Call) and callee_last(n) == 'pop' and isinstance(n.func.value, ast.Name) and n.args and isinstance(n.args[0], ast.Name):
            allowed.add(n.func.value.id)
    index_maps = set(allowed)
    for n in own_nodes(f.node):
        if isinstance(n, ast.Assign) and isinstance(n.targets[0], ast.Tuple) and len(n.targets[0].elts) == 2 and isinstance(n.value, ast.Call) \
                and callee_last(n.value) == 'log_viterbi_einsum_forward' and isinstance(n.targets[0].elts[1], ast.Name):
            allowed.add(n.targets[0].elts[1].id)
        if isinstance(n, ast.For) and isinstance(n.iter, ast.Call) and callee_last(n.iter) in ('values', 'items', 'keys') and norm(n.iter.func.value) in index_maps:
            for x in ast.walk(n):
                if isinstance(x, ast.Call) and callee_last(x) == 'append' and isinstance(x.func.value, ast.Name):
                    allowed.add(x.func.value.id)
    if not index_maps:
        rep.error(f"{rule}: cannot identify the index map (a dict popped for the output indices) in log_viterbi_einsum_forward")
        return
    # the raw pointer tensor returned by the library has one coordinate per summed-out *physical* axis; the number of entries handed
    # to the caller is the number of summed-out *indices*: only the index map and the per-index list are admissible sources
    raw_ptr = set()
    for n in own_nodes(f.node):
        if isinstance(n, ast.Assign) and isinstance(n.targets[0], ast.Tuple) and len(n.targets[0].elts) == 2 and isinstance(n.value, ast.Call) \
                and callee_last(n.value) == 'log_viterbi_einsum_forward' and isinstance(n.targets[0].elts[1], ast.Name):
            raw_ptr.add(n.targets[0].elts[1].id)
    allowed -= raw_ptr
    sources = set(allowed)
    counters = set()
    for n in own_nodes(f.node):
        if isinstance(n, ast.Assign) and len(n.targets) == 1 and isinstance(n.targets[0], ast.Name):
            if names_in(n.value) & sources and isinstance(n.value, ast.Call) and callee_last(n.value) in ('size', 'len'):
                allowed.add(n.targets[0].id); counters.add(n.targets[0].id)
    sites = 0

    def is_ptr_ctor(c: ast.Call) -> bool:
        phys = c.args[0] if c.args else None
        t = norm(phys) if phys is not None else ''
        return callee_last(c) == 'PatternedTensor' and isinstance(c.func, ast.Name) and ('long' in t or 'ptr' in t)
    # (1) constructors outside the n-dispatch: zero_result and the empty-operand return
    for g in [f] + [c for c in f.children if not c.is_lambda]:
        for c in [x for x in own_nodes(g.node) if isinstance(x, ast.Call) and is_ptr_ctor(x)]:
            phys = c.args[0]
            trailing = None
            for x in ast.walk(phys):
                if isinstance(x, ast.Call) and callee_last(x) in ('expand', 'new_empty', 'new_zeros') and x.args:
                    a = x.args[-1] if len(x.args) == 1 else ast.Tuple(elts=list(x.args), ctx=ast.Load())
                    if isinstance(a, ast.BinOp) and isinstance(a.op, ast.Add) and isinstance(a.right, ast.Tuple) and a.right.elts:
                        trailing = a.right.elts[-1]
                    elif isinstance(a, ast.Tuple) and a.elts:
                        trailing = a.elts[-1]
            vax = c.args[2] if len(c.args) > 2 else None
            if vax is not None:
                continue          # handled by the dispatch evaluation below
            sites += 1
            if trailing is None:
                rep.error(f"{rule}: {g.loc(c)} cannot find the trailing dimension of the pointer in `{norm(phys)[:80]}`")
                continue
            names = names_in(trailing)
            if isinstance(trailing, ast.Constant):
                guard_ok = any(isinstance(p, ast.If) and 'len(' in norm(p.test) and '== 0' in norm(p.test) for p in _ancestors(g, c))
                ok = trailing.value == 0 and guard_ok
                rep.ob(rule, g.fq(), norm(c)[:90], g.loc(c), ok, f"literal trailing size {trailing.value!r}; under the empty-operand guard: {guard_ok}")
                continue
            outp = f.positional_params()[2] if len(f.positional_params()) > 2 else 'output'
            out_side = set(OUTPUT_SIDE) | {outp}
            for a2 in own_nodes(f.node):
                if isinstance(a2, ast.Assign) and len(a2.targets) == 1 and isinstance(a2.targets[0], ast.Name) and outp in names_in(a2.value):
                    out_side.add(a2.targets[0].id)
            ok = bool(names & allowed) and not (names & out_side)
            rep.ob(rule, g.fq(), norm(c)[:90], g.loc(c), ok,
                   f"trailing size `{norm(trailing)}` is derived from the summed-out indices" if ok else
                   f"trailing size `{norm(trailing)}` is derived from {sorted(names)}: the pointer must have one entry per summed-out index, not per output axis")
    # (2) the dispatch on the number n of summed-out indices: for n = 0..3 the constructor reached has a trailing axis of size n
    raw_counters = set()
    for n in own_nodes(f.node):
        if isinstance(n, ast.Assign) and len(n.targets) == 1 and isinstance(n.targets[0], ast.Name) and names_in(n.value) & raw_ptr \
                and isinstance(n.value, (ast.Call, ast.Subscript)) and ('size' in norm(n.value) or 'shape' in norm(n.value)):
            raw_counters.add(n.targets[0].id)
    raw_tests = [n for n, nd in cfg.nodes.items() if nd.kind == 'test' and names_in(nd.expr) & raw_counters]
    if raw_tests and not [n for n, nd in cfg.nodes.items() if nd.kind == 'test' and (names_in(nd.expr) & counters
                          or any(isinstance(x, ast.Call) and callee_last(x) == 'len' and len(x.args) == 1 and isinstance(x.args[0], ast.Name) and x.args[0].id in sources for x in ast.walk(nd.expr)))]:
        rc = sorted(raw_counters)[0]
        rep.ob(rule, f.fq(), 'pointer width taken from ptr.size(-1)', f.loc(cfg.nodes[raw_tests[0]].stmt), False,
               f"the number of pointer entries is `{rc}`, the number of physical argmax coordinates of the raw pointer, not the number of summed-out indices: "
               "they differ when a summed-out index is determined by output axes (pairing or diagonal operands)")
        return
    # the count may be named (`n = len(ptrs)`) or spelt out in the tests (`len(ptrs) == 0`)
    len_terms = {norm(x) for n, nd in cfg.nodes.items() if nd.kind == 'test' for x in ast.walk(nd.expr)
                 if isinstance(x, ast.Call) and callee_last(x) == 'len' and len(x.args) == 1 and isinstance(x.args[0], ast.Name) and x.args[0].id in sources}
    tests = [n for n, nd in cfg.nodes.items() if nd.kind == 'test' and (names_in(nd.expr) & counters or any(t in norm(nd.expr) for t in len_terms))]
    if not tests or (len(counters) < 1 and not len_terms):
        rep.error(f"{rule}: no dispatch on the number of summed-out indices found in log_viterbi_einsum_forward")
        return
    first = min(tests, key=lambda n: cfg.nodes[n].lineno)
    cname = (sorted(names_in(cfg.nodes[first].expr) & counters) or sorted(t for t in len_terms if t in norm(cfg.nodes[first].expr)))[0]
    for v in range(0, 4):
        env = Env(ints={cname: v})
        r = walk(cfg, first, env, unknown='both')
        reached = []
        for n in sorted(r):
            st = cfg.nodes[n].stmt
            if cfg.nodes[n].kind == 'stmt' and st is not None:
                for c in ast.walk(st):
                    if isinstance(c, ast.Call) and is_ptr_ctor(c) and len(c.args) > 2:
                        reached.append((n, c))
        if not reached:
            rep.ob(rule, f.fq(), f"{cname} == {v}: a pointer is constructed", f.loc(cfg.nodes[first].stmt), False, 'no pointer constructor is reached for this number of summed-out indices')
            continue
        for n, c in reached:
            sites += 1
            vax = c.args[2]
            size = None
            why = norm(vax)
            if isinstance(vax, ast.BinOp) and isinstance(vax.right, ast.Tuple) and vax.right.elts:
                ax = vax.right.elts[-1]
                if isinstance(ax, ast.Name) and ax.id == 'unitAxis':
                    size = 1
                elif isinstance(ax, ast.Name):
                    # the assignment to that axis variable reached under this valuation
                    for m in sorted(r):
                        a2 = cfg.nodes[m].stmt
                        if cfg.nodes[m].kind == 'stmt' and isinstance(a2, ast.Assign) and any(isinstance(t, ast.Name) and t.id == ax.id for t in a2.targets) \
                                and isinstance(a2.value, ast.Call) and callee_last(a2.value) == 'PhysicalAxis' and a2.value.args:
                            size = env.int_value(a2.value.args[0])
                            why = norm(a2)
            rep.ob(rule, f.fq(), f"{cname} == {v}: {norm(c)[:80]}", f.loc(c), size == v,
                   f"trailing axis has size {size} (from `{why}`), required {v}")
    rep.floor('C07-D4 pointer constructors', sites, 5)


def _ancestors(g: FuncInfo, node: ast.AST):
    pm = parents(g)
    p = pm.get(id(node))
    while p is not None:
        yield p
        p = pm.get(id(p))


def reduce_only_sum_free(rep: Report, prog: Program) -> None:
    rule = 'C07-D5 reduce-only-sum-free'
    from ..guards import Env, walk, collect_atoms
    f = prog.func('fggs.equation', 'reduce_equation')
    cfg = cfg_of(f)
    shrink = [n for n, nd in cfg.nodes.items() if nd.kind == 'stmt' and nd.stmt is not None and any(isinstance(x, ast.Call) and callee_last(x) == 'as_strided' for x in ast.walk(nd.stmt))]
    if not shrink:
        rep.ob(rule, f.fq(), 'no stride-0 shrinking at all', f.loc(), True, 'reduce_equation never shrinks operands', nontrivial=False)
        return
    atoms = {}
    for n, nd in cfg.nodes.items():
        if nd.kind == 'test': atoms.update(collect_atoms(nd.expr))
    sumfree = [t for t, a in atoms.items() if isinstance(a, ast.Compare) and isinstance(a.ops[0], (ast.Eq, ast.NotEq)) and 'output_variables' in t and 'num_variables' in t]
    if not sumfree:
        rep.ob(rule, f.fq(), 'shrinking guarded by len(output_variables) == num_variables', f.loc(cfg.nodes[shrink[0]].stmt), False,
               'operands are shrunk without testing that the equation has no summed-out variable: a summed-out index that is broadcast in every operand is dropped instead of contributing its n identical terms')
        return
    t = sumfree[0]
    r = walk(cfg, cfg.entry, Env(atoms={t: False}), unknown='both')
    bad = [n for n in shrink if n in r]
    rep.ob(rule, f.fq(), f"as_strided shrinking unreachable unless ({t})", f.loc(cfg.nodes[shrink[0]].stmt), not bad,
           'an equation with a summed-out variable is returned unchanged' if not bad else 'the shrinking is reachable for an equation with a summed-out variable')


def co_indexing(rep: Report, prog: Program) -> None:
    from ..cfg import cfg_of
    from ..guards import Env, walk, collect_atoms
    from ..util import helper_scopes, parents
    rule = 'C07-D6 co-indexing'
    seen = set()
    n = 0
    for fn in ('einsum', 'log_viterbi_einsum_forward'):
        top = prog.func(IDX, fn)
        for f, _ren in helper_scopes(prog, top):
            if f.fq() in seen or f.module.name != IDX:
                continue
            seen.add(f.fq())
            pm = parents(f)
            loops = [l for l in own_nodes(f.node) if isinstance(l, ast.For)
                     and any(isinstance(x, ast.Call) and callee_last(x) == 'unify' for s in l.body for x in ast.walk(s))
                     and not any(isinstance(x, ast.For) and any(isinstance(y, ast.Call) and callee_last(y) == 'unify' for y in ast.walk(x)) for s in l.body for x in ast.walk(s))]
            for l in loops:
                n += 1
                it = l.iter
                if isinstance(it, ast.Call) and callee_last(it) == 'enumerate' and it.args:
                    it = it.args[0]
                plain = isinstance(it, ast.Call) and isinstance(it.func, ast.Name) and it.func.id == 'zip' and len(it.args) == 2 and not it.keywords \
                    and any(norm(a).endswith('.vaxes') for a in it.args) and all(isinstance(a, (ast.Name, ast.Attribute, ast.Subscript)) for a in it.args)
                rep.ob(rule, f.fq(), f"for {norm(l.target)} in {norm(l.iter)[:70]}: every (axis, index) position is visited", f.loc(l), plain,
                       'the loop ranges over zip(<operand>.vaxes, <indices>) directly' if plain else
                       'the pairs do not come straight from zip(<operand>.vaxes, <indices>): a container in between (dict, set) keeps one axis per index, so an index that occurs twice in one operand is not unified with itself')
                # never left early
                outer = pm.get(id(l))
                while outer is not None and not isinstance(outer, (ast.For, ast.While, ast.FunctionDef)):
                    outer = pm.get(id(outer))
                scope = outer if isinstance(outer, (ast.For, ast.While)) else l
                early = [x for x in ast.walk(scope) if isinstance(x, (ast.Break, ast.Return))]
                rep.ob(rule, f.fq(), f"for {norm(l.target)} in {norm(l.iter)[:70]}: the loop is never left early", f.loc(l), not early,
                       'no break / return inside the co-indexing loops' if not early else
                       f"`{type(early[0]).__name__.lower()}` at line {early[0].lineno} skips the remaining positions: an index first seen there is never recorded (and a later lookup of an output index fails)")
                # unify-or-record on every path of an iteration
                cfg = cfg_of(f)
                hdr = cfg.node_of(l)
                be = [b for b, lab in cfg.succ[hdr] if lab == 'iter'][0]

                def acts(k: int) -> bool:
                    nd = cfg.nodes[k]
                    e = nd.expr if nd.kind == 'test' else nd.stmt if nd.kind == 'stmt' else None
                    if e is None:
                        return False
                    if any(isinstance(x, ast.Call) and callee_last(x) == 'unify' for x in ast.walk(e)):
                        return True
                    return isinstance(e, ast.Assign) and any(isinstance(t, ast.Subscript) for t in e.targets)
                ok, wit = cfg.all_paths_pass(be, acts, targets={hdr, cfg.exit})
                rep.ob(rule, f.fq(), f"for {norm(l.target)} in {norm(l.iter)[:70]}: each position is unified or recorded", f.loc(l), ok,
                       'every path of an iteration passes a unify(...) or a store into the index table' if ok else 'an iteration can finish without unifying or recording the axis')
    rep.floor('C07-D6', n, 1)


def viterbi_product_convention(rep: Report, prog: Program) -> None:
    """0 x inf = 0 in the Viterbi variant: the products must be formed by the semiring's clamped product (as in *.einsum, C07-D1).
    A direct call of the library's log-viterbi kernel adds the log-weights with a plain `+`: -inf + inf = nan."""
    rule = 'C07-D7 viterbi-product'
    f = prog.func(IDX, 'log_viterbi_einsum_forward')
    from ..util import helper_scopes
    n = 0
    for g, _ren in helper_scopes(prog, f):
        for c in [x for x in own_nodes(g.node) if isinstance(x, ast.Call) and callee_last(x) == 'log_viterbi_einsum_forward' and isinstance(x.func, ast.Attribute)
                  and norm(x.func.value).split('.')[0] == 'torch_semiring_einsum']:
            n += 1
            rep.ob(rule, f.fq(), 'products formed by the library\'s log-viterbi kernel (plain +)', g.loc(c), False,
                   'torch_semiring_einsum.log_viterbi_einsum_forward adds the operands\' log-weights without the semiring\'s nan_to_num: an operand entry -inf (zero) '
                   'meeting +inf in another operand gives nan instead of -inf, unlike einsum(..., ViterbiSemiring) on the same operands')
    rep.analysed['library_viterbi_kernel_calls'] = n
