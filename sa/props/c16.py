"""C16 -- graphs and grammars stay well formed: validate-before-mutate, verified registry hits, copy completeness /
independence, __eq__ field coverage, who-may-write the registries, Iterable parameters consumed once."""
from __future__ import annotations
import ast
from typing import Dict, List, Optional, Set, Tuple
from ..model import decorator_name, Program, AnalysisError, own_nodes, norm, names_in, FuncInfo, ClassInfo
from ..cfg import cfg_of, CFG
from ..guards import Env, walk, collect_atoms, valuations, norm as cnorm
from ..report import Report
from ..rules.classmodel import ClassModel, substitute, single_assigned_locals, CONTAINER_MUTATORS
from ..util import callee_last, parents, enclosing_stmt, bind_args, inline_temps

FG = 'fggs.fggs'
CONCRETE = ['Graph', 'HRG', 'FactorGraph', 'FGG']
REGISTRIES = {'_nodes', '_edges', '_ext', '_node_labels', '_edge_labels', '_rules', '_start'}
CTOR_LIKE = {'__init__', '__post_init__'}


def run(prog: Program, rep: Report, tier: str) -> None:
    rep.rule('C16-D1', 'validate-before-mutate: in every mutator of Graph/HRG/FactorGraph/FGG no may-raise event (raise statement, or call of a repo method whose raise condition is not excluded by the guards dominating the call) is reachable after a write to self state')
    rep.rule('C16-D2', 'registry-hit verified: where a parameter-supplied node is found by id in self._nodes and the method goes on, the stored node is compared with the incoming one (or the method raises)')
    rep.rule('C16-D3', 'copy completeness/independence: copy() reads every attribute set by the __init__ chain (dataclass: every field) from self, and never binds a mutable container/graph of self to the copy without copying it')
    rep.rule('C16-D7', 'edge typing: Edge.__init__ compares label.type with the tuple of its nodes\' labels, in order, and raises on a mismatch (Edge is immutable, so this is where the invariant is established)')
    rep.rule('C16-D4', '__eq__ field coverage: Graph.__eq__ compares nodes, edges and external nodes, HRG.__eq__ compares rules and start, on both operands')
    rep.rule('C16-D5', 'who-may-write: the underscore registries are written only inside fggs/fggs.py (positive control run on a synthetic writer)')
    rep.rule('C16-D6', 'Iterable consumed once: a parameter annotated Iterable[...] is iterated at most once on every non-raising path unless first rebound to a materialised tuple/list')
    rep.not_decided += ['`==` is an equivalence beyond field coverage', 'the inductive argument over call sequences is stated, not mechanised',
                        'exceptions raised by builtins (KeyError from a subscript) are outside the may-raise vocabulary']
    cm = ClassModel(prog)
    validate_before_mutate(rep, prog, cm)
    registry_hits(rep, prog, cm)
    copy_rules(rep, prog, cm)
    eq_rules(rep, prog, cm)
    # derived state (caches computed by a constructor) follows its sources -- sa/rules/derived.py
    from ..rules.derived import check_derived_state, positive_control as _derived_control
    rep.rule('C16-D8', 'derived state: an attribute the constructor computes from other attributes of the object is recomputed by every method that rebinds one of those attributes (kept alive by a synthetic positive example)')
    if not _derived_control():
        rep.error('C16-D8: the synthetic positive example is no longer matched by the rule')
    rep.analysed['derived_attributes'] = check_derived_state(rep, 'C16-D8 derived-state', prog, [c for mod in ('fggs.fggs',) for c in prog.module(mod).classes.values()])
    edge_typing(rep, prog)
    membership_accessors(rep, prog)
    who_may_write(rep, prog)
    iterable_once(rep, prog)


# ------------------------------------------------------------------------------------------ D1
def _self_calls(f: FuncInfo, st: ast.AST) -> List[Tuple[str, ast.Call]]:
    selfn = f.self_name()
    out = []
    for x in ast.walk(st):
        if isinstance(x, ast.Call) and isinstance(x.func, ast.Attribute) and isinstance(x.func.value, ast.Name) and x.func.value.id == selfn:
            out.append((x.func.attr, x))
    return out


def _setter_stores(f: FuncInfo, st: ast.AST) -> List[Tuple[str, ast.AST]]:
    selfn = f.self_name()
    out = []
    if isinstance(st, ast.Assign):
        for t in st.targets:
            if isinstance(t, ast.Attribute) and isinstance(t.value, ast.Name) and t.value.id == selfn:
                out.append((t.attr, st.value))
    return out


def _direct_write(f: FuncInfo, st: ast.AST) -> Optional[str]:
    selfn = f.self_name()
    pm = parents(f)
    for x in ast.walk(st):
        if isinstance(x, ast.Attribute) and isinstance(x.value, ast.Name) and x.value.id == selfn:
            par = pm.get(id(x))
            if isinstance(x.ctx, (ast.Store, ast.Del)):
                return x.attr
            if isinstance(par, ast.Subscript) and par.value is x and isinstance(par.ctx, (ast.Store, ast.Del)):
                return x.attr
            if isinstance(par, ast.Attribute) and par.value is x and par.attr in CONTAINER_MUTATORS \
                    and isinstance(pm.get(id(par)), ast.Call) and pm.get(id(par)).func is par:
                return x.attr
            # self._rules.setdefault(k, []).append(v): mutator call on the result of a self.attr method call
            if isinstance(par, ast.Attribute) and par.value is x and par.attr in ('setdefault', 'get'):
                c = pm.get(id(par))
                a2 = pm.get(id(c)) if isinstance(c, ast.Call) else None
                if isinstance(a2, ast.Attribute) and a2.attr in CONTAINER_MUTATORS:
                    return x.attr
    return None


def _stmt_exprs(cfg: CFG, n: int) -> List[ast.AST]:
    nd = cfg.nodes[n]
    if nd.stmt is None:
        return []
    if nd.kind in ('test', 'for', 'except'):
        return [nd.expr] if nd.expr is not None else []
    if nd.kind == 'with':
        return [i.context_expr for i in nd.stmt.items]
    return [nd.stmt]


def callee_raise_conditions(prog: Program, cm: ClassModel, ci: ClassInfo, g: FuncInfo, call_args: Dict[str, ast.AST],
                            depth: int = 0) -> List[Tuple[Optional[ast.AST], str]]:
    """Raise conditions of callee g in terms of the caller's expressions: [(cond or None, description)]."""
    out: List[Tuple[Optional[ast.AST], str]] = []
    loc = single_assigned_locals(g)
    selfn = g.self_name()

    def to_caller(e: ast.AST) -> ast.AST:
        e = substitute(e, {k: v for k, v in loc.items()})
        e = substitute(e, {k: v for k, v in loc.items()})      # two levels of local aliases
        m = dict(call_args)
        if selfn: m[selfn] = ast.Name(id='self', ctx=ast.Load())
        return substitute(e, m)
    d = cm.direct(g)
    for cond, st in d.raises:
        desc = f"{g.qualname}: {norm(st)[:70]}"
        out.append((to_caller(cond) if cond is not None else None, desc))
    if depth < 2:
        for name, call in d.self_calls:
            h = prog.find_method(ci, name)
            if h is None:
                continue
            inner_args = {k: to_caller(v) for k, v in bind_args(call, h, True).items()}
            pc = None
            from ..rules.classmodel import path_condition
            pc = path_condition(g, call)
            for cond, desc in callee_raise_conditions(prog, cm, ci, h, inner_args, depth + 1):
                if pc is None or cond is None:
                    out.append((None, desc))
                else:
                    out.append((ast.BoolOp(op=ast.And(), values=[to_caller(pc), cond]), desc))
    return out


def validate_before_mutate(rep: Report, prog: Program, cm: ClassModel) -> None:
    rule = 'C16-D1 validate-before-mutate'
    seen: Set[str] = set()
    n_mut = 0
    for cname in CONCRETE:
        ci = prog.cls(FG, cname)
        cands: Dict[str, FuncInfo] = {}
        for c in prog.mro(ci):
            for nm, f in list(c.methods.items()) + [(k + '.setter', v) for k, v in c.setters.items()]:
                cands.setdefault(nm, f)
        for nm, f in sorted(cands.items()):
            if f.name in CTOR_LIKE or f.is_static or f.fq() in seen:
                continue
            if prog.is_new_helper(f):
                continue        # a private helper cut out of a mutator: checked where it is inlined, it is not an API call of its own
            s = cm.summary(ci, f)
            if not s.writes:
                continue
            seen.add(f.fq())
            n_mut += 1
            check_mutator(rep, rule, prog, cm, ci, f)
    rep.floor('C16-D1 mutators', n_mut, 14)


def check_mutator(rep: Report, rule: str, prog: Program, cm: ClassModel, ci: ClassInfo, f: FuncInfo) -> None:
    cfg = cfg_of(f)
    W: Dict[int, str] = {}
    R: Dict[int, str] = {}
    for n, nd in cfg.nodes.items():
        if nd.stmt is None:
            continue
        if nd.kind == 'raise' and isinstance(nd.stmt, ast.Raise):
            R[n] = f"raise at line {nd.lineno}"
            continue
        for e in _stmt_exprs(cfg, n):
            if nd.kind == 'stmt':
                dw = _direct_write(f, e)
                if dw:
                    W[n] = f"writes self.{dw}"
            calls: List[Tuple[FuncInfo, Dict[str, ast.AST], str]] = []
            for name, call in _self_calls(f, e):
                g = prog.find_method(ci, name)
                if g is not None:
                    calls.append((g, bind_args(call, g, True), f"self.{name}(...)"))
            for attr, val in (_setter_stores(f, e) if nd.kind == 'stmt' else []):
                st = prog.find_setter(ci, attr)
                if st is not None:
                    pos = st.positional_params()
                    calls.append((st, {pos[1]: val} if len(pos) > 1 else {}, f"self.{attr} = ... (setter)"))
            # builtin lookups that raise on a missing key: self.<table>[k] (load / del), self.<table>.pop(k), self.<coll>.remove(x)
            for cond, desc in _builtin_raise_conditions(f, e):
                if not discharged(cfg, n, cond):
                    R.setdefault(n, f"{desc} when {cnorm(cond)[:90]}")
            for g, args, desc in calls:
                gs = cm.summary(ci, g)
                if gs.writes:
                    W.setdefault(n, f"{desc} writes self.{sorted(gs.writes)[0]}")
                for cond, rdesc in callee_raise_conditions(prog, cm, ci, g, args):
                    if not discharged(cfg, n, cond):
                        R.setdefault(n, f"{desc} may raise ({rdesc}" + (f" when {cnorm(cond)[:90]}" if cond is not None else '') + ")")
    bad: List[Tuple[int, int]] = []
    for w in W:
        succs = [b for b, l in cfg.succ[w] if l != 'exc']
        reach = cfg.reachable(succs)
        for r in R:
            if r in reach:
                bad.append((w, r))
    where = f.fq()
    if not bad:
        rep.ob(rule, where, f"{f.qualname}: no raise after a write", f.loc(), True,
               f"{len(W)} write site(s), {len(R)} may-raise site(s); none of the latter is reachable from the former")
        return
    # one obligation per raising site (keyed by its statement text)
    for r in sorted({r for _, r in bad}):
        ws = sorted({w for w, r2 in bad if r2 == r})
        rep.ob(rule, where, f"{cfg.describe(r).split(': ', 1)[-1]}", f.loc(cfg.nodes[r].stmt), False,
               f"{R[r]} after the object was already modified at " + '; '.join(f"{cfg.describe(w)} [{W[w]}]" for w in ws[:3])
               + ": a failing call leaves the object changed",
               trace={'writes': [cfg.describe(w) for w in ws], 'raise': cfg.describe(r)})


def _builtin_raise_conditions(f: FuncInfo, e: ast.AST) -> List[Tuple[ast.AST, str]]:
    selfn = f.self_name()
    out: List[Tuple[ast.AST, str]] = []

    def is_self_attr(x: ast.AST) -> bool:
        return isinstance(x, ast.Attribute) and isinstance(x.value, ast.Name) and x.value.id == selfn

    def missing(k: ast.AST, tab: ast.AST) -> ast.AST:
        return ast.Compare(left=k, ops=[ast.NotIn()], comparators=[tab])
    for x in ast.walk(e):
        if isinstance(x, ast.Subscript) and isinstance(x.ctx, (ast.Load, ast.Del)) and is_self_attr(x.value) and not isinstance(x.slice, ast.Slice):
            out.append((missing(x.slice, x.value), f"{norm(x)} raises KeyError"))
        if isinstance(x, ast.Call) and isinstance(x.func, ast.Attribute) and is_self_attr(x.func.value) and x.args:
            if x.func.attr == 'remove' or (x.func.attr == 'pop' and len(x.args) == 1 and not x.keywords):
                out.append((missing(x.args[0], x.func.value), f"{norm(x)} raises KeyError/ValueError"))
    return out


def discharged(cfg: CFG, call_node: int, cond: Optional[ast.AST]) -> bool:
    """Is the callee's raise condition excluded at this call site?  For every valuation of the condition's atoms that makes
    it true, the call node must be unreachable from the function entry."""
    if cond is None:
        return False
    if isinstance(cond, ast.Constant):
        return not cond.value
    atoms = collect_atoms(cond)
    if len(atoms) > 6:
        return False
    for env in valuations(list(atoms)):
        if env.eval(cond) is True:
            loops = cfg.nodes[call_node].loops
            start = cfg.entry
            if loops:
                hdr = loops[-1]
                its = [b for b, l in cfg.succ[hdr] if l in ('iter', 'true')]
                start = its[0] if its else cfg.entry
            r = walk(cfg, start, env, unknown='both', loop_header_stop=loops[-1] if loops else None)
            if call_node in r:
                return False
    return True


# ------------------------------------------------------------------------------------------ D2
def registry_hits(rep: Report, prog: Program, cm: ClassModel) -> None:
    rule = 'C16-D2 registry-hit-verified'
    g = prog.cls(FG, 'Graph')
    found = 0
    methods = list(g.methods.values()) + list(g.setters.values())
    for f in methods:
        if f.name in CTOR_LIKE or prog.is_new_helper(f):
            continue
        cfg = cfg_of(f)
        selfn = f.self_name()
        params = set(f.param_names()) - {selfn}
        for n, nd in cfg.nodes.items():
            if nd.kind != 'test':
                continue
            for t, a in collect_atoms(nd.expr).items():
                if isinstance(a, ast.Call) and isinstance(a.func, ast.Attribute) and isinstance(a.func.value, ast.Name) and a.func.value.id == selfn:
                    # a membership test spelt as a one-expression method of the class: self.has_node_id(x.id)
                    hm = prog.find_method(g, a.func.attr)
                    hb = [st for st in (hm.node.body if hm is not None else []) if not (isinstance(st, ast.Expr) and isinstance(st.value, ast.Constant))]
                    if hm is not None and len(hb) == 1 and isinstance(hb[0], ast.Return) and hb[0].value is not None:
                        a = substitute(hb[0].value, {**bind_args(a, hm, True), hm.self_name(): ast.Name(id=selfn, ctx=ast.Load())})
                if not (isinstance(a, ast.Compare) and isinstance(a.ops[0], (ast.In, ast.NotIn))):
                    continue
                key, reg = a.left, a.comparators[0]
                if cnorm(reg) != f"{selfn}._nodes" or not (isinstance(key, ast.Attribute) and key.attr == 'id'):
                    continue
                X = norm(key.value)
                # X must come from the caller: a parameter, or a loop variable over a parameter's attribute
                root = X.split('.')[0]
                origin = root in params
                loopvar_iter = None
                for lp in [x for x in own_nodes(f.node) if isinstance(x, ast.For) and isinstance(x.target, ast.Name) and x.target.id == root]:
                    if names_in(lp.iter) & params:
                        origin = True; loopvar_iter = norm(lp.iter)
                if not origin:
                    continue
                found += 1

                def verifies(m: int, X=X) -> bool:
                    for e in _stmt_exprs(cfg, m):
                        for c in ast.walk(e):
                            if isinstance(c, ast.Compare) and len(c.ops) == 1 and isinstance(c.ops[0], (ast.Eq, ast.NotEq, ast.Is, ast.IsNot)):
                                ops = {cnorm(c.left), cnorm(c.comparators[0])}
                                if ops == {f"{selfn}._nodes[{X}.id]", X}:
                                    return True
                    return False
                env = Env(atoms={t: True})
                loops = nd.loops
                hdr = loops[-1] if loops else None
                start = n
                r = walk(cfg, start, env, stop=verifies, loop_header_stop=hdr, unknown='both')
                goes_on = (hdr in r and hdr != n) or cfg.exit in r
                ok = not goes_on or verifies(n)
                detail = 'the hit branch raises or compares the stored node with the incoming one'
                if not ok and loopvar_iter is not None:
                    # accepted idiom: an earlier loop over the same iterable verifies every element before any write
                    for lp in [x for x in own_nodes(f.node) if isinstance(x, ast.For) and norm(x.iter) == loopvar_iter and x.lineno < nd.lineno]:
                        Y = norm(lp.target)
                        hn = cfg.node_of(lp)
                        body = cfg.loop_body.get(hn, set())
                        if (any(verifies(m, X=Y) for m in body) or _loop_level(lp, selfn) >= 1) and any(cfg.nodes[m].kind == 'raise' for m in body):
                            ok = True; detail = f"verified by the earlier loop over {loopvar_iter} at line {lp.lineno}"
                            lvl = _loop_level(lp, selfn)
                            rep.ob(rule + ' among-incoming', f.fq(), f"the verifying loop over {loopvar_iter} also compares the incoming nodes with each other", f.loc(lp), lvl == 2,
                                   'clashes between two new nodes of the same call are rejected too' if lvl == 2 else
                                   'each incoming node is compared only with the nodes already in the graph: two different new nodes sharing an id pass, and only the first becomes a member')
                if not ok and loopvar_iter is not None:
                    # accepted idiom: a dominating call self.<checker>(<same iterable>) whose body compares, for every element,
                    # the node registered under the element's id with the element and raises on a mismatch
                    dom = cfg.dominators()
                    for m in dom.get(n, set()):
                        for e in _stmt_exprs(cfg, m):
                            for name, call in _self_calls(f, e):
                                h = prog.find_method(g, name)
                                if h is None or not call.args or norm(call.args[0]) != loopvar_iter:
                                    continue
                                lvl = _verifying_checker(h)
                                if lvl:
                                    ok = True; detail = f"verified by the dominating call self.{name}({loopvar_iter})"
                                    rep.ob(rule + ' among-incoming', f.fq(), f"self.{name}({loopvar_iter}) also compares the incoming nodes with each other", f.loc(call), lvl == 2,
                                           'clashes between two new nodes of the same call are rejected too' if lvl == 2 else
                                           f"{h.qualname} compares each incoming node only with the nodes already in the graph: two different new nodes sharing an id pass, and only the first becomes a member")
                rep.ob(rule, f.fq(), f"{t} [hit branch]", f.loc(nd.stmt), ok,
                       detail if ok else f"when {X}.id is already registered the method continues without checking that self._nodes[{X}.id] is {X}: "
                       f"a different node with the same id is treated as present")
    rep.floor('C16-D2', found, 3)
    # several incoming labels checked against the name-keyed label table must be checked against each other as well
    n_lab = 0
    for cname in CONCRETE:
        ci = prog.cls(FG, cname)
        for f in list(ci.methods.values()) + list(ci.setters.values()):
            selfn = f.self_name()
            if selfn is None or f.name in CTOR_LIKE:
                continue
            for lp in [x for x in own_nodes(f.node) if isinstance(x, ast.For)]:
                lvl = _loop_level(lp, selfn, '_edge_labels', 'name')
                if lvl:
                    n_lab += 1
                    rep.ob(rule + ' among-incoming', f.fq(), f"for {norm(lp.target)} in {norm(lp.iter)[:60]}: labels compared with the table and with each other", f.loc(lp), lvl == 2,
                           'a name used for two different labels within the same call is rejected' if lvl == 2 else
                           'each incoming label is compared only with the labels already registered: two different labels with one name in the same call are both accepted')
    rep.floor('C16-D2 label loops', n_lab, 1)


def _loop_level(lp: ast.For, selfn: str, registry: str = '_nodes', key: str = 'id') -> int:
    """0: the loop does not verify its elements against self._nodes; 1: it raises when the node registered under the element's id
    differs from the element; 2: the compared expression additionally consults a local container fed by this loop (so two
    incoming nodes with the same id are compared with each other as well)."""
    if not isinstance(lp.target, ast.Name):
        return 0
    Y = lp.target.id
    has_raise = any(isinstance(x, ast.Raise) for x in ast.walk(lp))
    local_feed = set()
    for x in ast.walk(lp):
        if isinstance(x, ast.Subscript) and isinstance(x.ctx, ast.Store) and isinstance(x.value, ast.Name): local_feed.add(x.value.id)
        if isinstance(x, ast.Call) and isinstance(x.func, ast.Attribute) and x.func.attr in ('setdefault', 'add', 'append') and isinstance(x.func.value, ast.Name):
            local_feed.add(x.func.value.id)
    best = 0
    for st in lp.body:
        if not isinstance(st, ast.If):
            continue
        for c in [x for x in ast.walk(inline_temps(lp, st.test)) if isinstance(x, ast.Compare) and len(x.ops) == 1 and isinstance(x.ops[0], (ast.Eq, ast.NotEq))]:
            sides = [c.left, c.comparators[0]]
            for a, b in (sides, sides[::-1]):
                if norm(a) == Y and f"{selfn}.{registry}" in cnorm(b) and f"{Y}.{key}" in norm(b) and has_raise:
                    best = max(best, 2 if (names_in(b) & local_feed) else 1)
    return best


def _verifying_checker(h: FuncInfo) -> int:
    selfn = h.self_name()
    pos = [p for p in h.positional_params() if p != selfn]
    if not pos:
        return 0
    return max([_loop_level(lp, selfn) for lp in own_nodes(h.node) if isinstance(lp, ast.For) and norm(lp.iter) == pos[0]] or [0])


# ------------------------------------------------------------------------------------------ D3
def _returned(f: FuncInfo) -> Optional[ast.AST]:
    rets = [n.value for n in own_nodes(f.node) if isinstance(n, ast.Return) and n.value is not None]
    return rets[0] if len(rets) == 1 else None


def _fresh_container(e: ast.AST) -> bool:
    if isinstance(e, (ast.Dict, ast.List, ast.Set, ast.DictComp, ast.ListComp, ast.SetComp, ast.Tuple)):
        return True
    if isinstance(e, ast.Call):
        nm = callee_last(e)
        if nm in ('dict', 'list', 'set', 'tuple', 'deepcopy', 'copy', 'sorted', 'frozenset'):
            return True
    return False


_types_cache = {}


def _types(prog: Program):
    from ..types import Types
    t = getattr(prog, '_sa_types', None)
    if t is None:
        t = prog._sa_types = Types(prog)
    return t


def copy_rules(rep: Report, prog: Program, cm: ClassModel) -> None:
    rule = 'C16-D3 copy'
    n = 0
    for cname in ['Graph', 'HRGRule', 'HRG', 'FactorGraph', 'FGG']:
        ci = prog.cls(FG, cname)
        f = ci.methods.get('copy')
        if f is None:
            inherited = prog.find_method(ci, 'copy')
            rep.ob(rule, ci.fq(), f"{cname}.copy is defined for {cname}", f"{ci.module.relpath}:{ci.node.lineno}", inherited is None,
                   f"{cname} inherits copy() from {inherited.cls.name if inherited else None}: attributes added by {cname} would be dropped")
            continue
        n += 1
        attrs = cm.init_attrs(ci)
        s = cm.summary(ci, f)
        selfn = f.self_name()
        # reads through accessor calls (self.nodes() etc.) are in the transitive summary
        missing = sorted(a for a in attrs if a not in s.reads)
        rep.ob(rule + ' completeness', f.fq(), f"{cname}.copy reads every attribute of the __init__ chain from self", f.loc(), not missing,
               f"attributes: {sorted(attrs)}; read from self (directly or through accessors): {sorted(s.reads & set(attrs))}"
               + (f"; never read, hence not carried over to the copy: {missing}" if missing else ''))
        # independence: assignments  <new>.<attr> = <expr aliasing self.<attr>>  and constructor arguments
        ret = _returned(f)
        for a in own_nodes(f.node):
            tgt = val = None
            if isinstance(a, ast.Assign) and len(a.targets) == 1 and isinstance(a.targets[0], ast.Attribute):
                tgt, val = a.targets[0], a.value
            if tgt is None or not isinstance(tgt.value, ast.Name) or tgt.value.id == selfn:
                continue
            attr = tgt.attr
            init_val = attrs.get(attr)
            mutable = isinstance(init_val, (ast.Dict, ast.List, ast.Set)) or (isinstance(init_val, ast.Call) and callee_last(init_val) in ('dict', 'list', 'set'))
            alias = isinstance(val, ast.Attribute) and isinstance(val.value, ast.Name) and val.value.id == selfn
            if mutable:
                ok = not alias and (_fresh_container(val) or isinstance(val, ast.Name))
                rep.ob(rule + ' independence', f.fq(), norm(a), f.loc(a), ok,
                       'bound to a fresh container' if ok else f"the copy's `{attr}` is the very container of the original (aliasing): mutating one changes the other")
                # a table whose values are mutable objects (domains, factors with their weight tensors) must be copied deeply
                from ..types import Types
                tk, teimm, tknown = _types(prog).attr_kind(attr, cname)
                if ok and tknown and tk in ('dict', 'list') and not teimm and attr not in ('_rules',):
                    deep = (isinstance(val, ast.Call) and callee_last(val) == 'deepcopy') or \
                        (isinstance(val, (ast.DictComp, ast.ListComp)) and isinstance(val.value if isinstance(val, ast.DictComp) else val.elt, ast.Call)
                         and callee_last(val.value if isinstance(val, ast.DictComp) else val.elt) in ('deepcopy', 'clone')
                         or isinstance(val, (ast.DictComp, ast.ListComp)) and isinstance(val.value if isinstance(val, ast.DictComp) else val.elt, ast.Call)
                         and isinstance((val.value if isinstance(val, ast.DictComp) else val.elt).func, ast.Attribute) and (val.value if isinstance(val, ast.DictComp) else val.elt).func.attr == 'copy'
                         and not (val.value if isinstance(val, ast.DictComp) else val.elt).args and False)
                    rep.ob(rule + ' independence', f.fq(), f"{norm(a)[:80]} [values are mutable objects]", f.loc(a), deep,
                           'the values are copied deeply' if deep else f"`{attr}` maps names to mutable objects (with their weight tensors / value lists); a shallow copy of the values leaves them shared: an in-place update through the copy changes the original")
        # element-wise copies: a loop over self's nodes / edges / rules hands every element to the copy, on every path
        if isinstance(ret, ast.Name):
            ccfg = cfg_of(f)
            for lp in [x for x in own_nodes(f.node) if isinstance(x, ast.For) and selfn in names_in(x.iter)]:
                hdr = ccfg.node_of(lp)
                be = [b for b, lab in ccfg.succ[hdr] if lab == 'iter'][0]
                tv = names_in(lp.target)
                def hands_over(k, ccfg=ccfg, tv=tv):
                    st = ccfg.nodes[k].stmt
                    if ccfg.nodes[k].kind != 'stmt' or st is None:
                        return False
                    for x in ast.walk(st):
                        if isinstance(x, ast.Call) and isinstance(x.func, ast.Attribute) and ret.id in names_in(x.func.value) and any(names_in(a) & tv for a in x.args):
                            return True
                        if isinstance(x, ast.Subscript) and isinstance(x.ctx, ast.Store) and ret.id in names_in(x.value) and isinstance(st, ast.Assign) and (names_in(st.value) & tv or names_in(x.slice) & tv):
                            return True
                    return False
                okp, _ = ccfg.all_paths_pass(be, hands_over, targets={hdr, ccfg.exit})
                rep.ob(rule + ' completeness', f.fq(), f"for {norm(lp.target)} in {norm(lp.iter)}: every element reaches the copy", f.loc(lp), okp,
                       'each iteration adds its element to the copy' if okp else 'an iteration can finish without giving its element to the copy: the copy lacks nodes / edges / rules of the original')
        if ci.is_dataclass and isinstance(ret, ast.Call):
            fields = list(attrs)
            for fld, arg in zip(fields, ret.args):
                ann = attrs[fld]
                is_graph = ann is not None and norm(ann) in ('Graph', 'HRG', 'FGG', 'FactorGraph')
                if is_graph:
                    ok = isinstance(arg, ast.Call) and callee_last(arg) in ('copy', 'deepcopy')
                    rep.ob(rule + ' independence', f.fq(), f"{cname}(...) argument for field {fld}: {norm(arg)}", f.loc(ret), ok,
                           'the mutable graph is copied' if ok else 'the copy shares the mutable graph object with the original')
        # rule lists copied per rule
        if cname in ('HRG', 'FGG'):
            # either form: `c._rules[lhs] = [r.copy() for ...]` per key, or `c._rules = {lhs: [r.copy() for ...] for ...}` at once
            def _rules_target(t: ast.AST) -> bool:
                if isinstance(t, ast.Subscript):
                    t = t.value
                return isinstance(t, ast.Attribute) and t.attr == '_rules' and not (isinstance(t.value, ast.Name) and t.value.id == selfn)
            rules_store = [a for a in own_nodes(f.node) if isinstance(a, ast.Assign) and _rules_target(a.targets[0])
                           and not (isinstance(a.value, ast.Dict) and not a.value.keys) and not (isinstance(a.value, ast.Call) and callee_last(a.value) in ('dict', 'defaultdict') and not a.value.args)]
            # the stored list may have been given a name first (`copied = [r.copy() for r in ...]; c._rules[lhs] = copied`)
            ok = bool(rules_store) and all(any(isinstance(x, ast.Call) and callee_last(x) == 'copy' for x in ast.walk(inline_temps(f.node, a.value))) for a in rules_store)
            rep.ob(rule + ' independence', f.fq(), f"{cname}.copy copies every rule", f.loc(), ok,
                   'each rule list is rebuilt from r.copy()' if ok else 'rule objects are shared between the copy and the original')
    rep.floor('C16-D3', n, 5)


# ------------------------------------------------------------------------------------------ D4
def membership_accessors(rep: Report, prog: Program) -> None:
    """has_<x>(key) answers whether key is in the registry: `key in self.<table>` with positive polarity and the method's own
    parameter as the key (the mutators and the JSON reader decide on these answers whether to add or to reject)."""
    rule = 'C16-D2 membership-accessors'
    n = 0
    for cname in ('LabelingMixin', 'Graph', 'HRG', 'InterpretationMixin'):
        ci = prog.module(FG).classes.get(cname)
        if ci is None:
            continue
        for nm, f in sorted(ci.methods.items()):
            if not nm.startswith('has_'):
                continue
            n += 1
            pos = f.positional_params()
            rets = [r.value for r in own_nodes(f.node) if isinstance(r, ast.Return) and r.value is not None]
            ok = len(rets) == 1 and len(pos) == 2
            why = ''
            if ok:
                r = rets[0]
                ok = isinstance(r, ast.Compare) and len(r.ops) == 1 and isinstance(r.ops[0], ast.In) and norm(r.left) == pos[1] and cnorm(r.comparators[0]).startswith(f"{pos[0]}.")
                # equivalent spellings: self.T.get(k) is not None / self.T.__contains__(k) / bool(...)
                if not ok and isinstance(r, ast.Compare) and len(r.ops) == 1 and isinstance(r.ops[0], ast.IsNot) and isinstance(r.comparators[0], ast.Constant) and r.comparators[0].value is None \
                        and isinstance(r.left, ast.Call) and callee_last(r.left) == 'get' and len(r.left.args) == 1 and norm(r.left.args[0]) == pos[1] and norm(r.left.func.value).startswith(f"{pos[0]}."):
                    ok = True
                if not ok and isinstance(r, ast.Call) and callee_last(r) == '__contains__' and len(r.args) == 1 and norm(r.args[0]) == pos[1] and norm(r.func.value).startswith(f"{pos[0]}."):
                    ok = True
                why = f"returns `{norm(r)}`"
            rep.ob(rule, f.fq(), f"{cname}.{nm}(k) is `k in self.<registry>`", f.loc(), ok, 'positive membership test on the parameter' if ok else (why or 'not a single membership test') + ': callers that add-if-absent / reject-if-present act on the opposite answer')
    rep.floor('C16-D2 membership accessors', n, 4)


def edge_typing(rep: Report, prog: Program) -> None:
    """Every edge's nodes carry the labels its label demands: the only place this is enforced is Edge.__init__ (Edge is
    immutable afterwards), which must refuse a node tuple whose labels differ from label.type."""
    rule = 'C16-D7 edge-typing'
    ci = prog.cls(FG, 'Edge')
    f = ci.methods.get('__init__')
    if f is None:
        rep.ob(rule, ci.fq(), 'Edge.__init__ validates the node labels', f"{ci.module.relpath}:{ci.node.lineno}", False, 'Edge has no constructor of its own'); return
    cfg = cfg_of(f)
    pos = f.positional_params()
    lab, nodes = pos[1], pos[2]
    hits = []
    for n, nd in cfg.nodes.items():
        if nd.kind != 'test':
            continue
        for t, a in collect_atoms(nd.expr).items():
            a2 = inline_temps(f.node, a)
            if isinstance(a2, ast.Compare) and isinstance(a2.ops[0], (ast.Eq, ast.NotEq)):
                sides = [norm(a2.left), norm(a2.comparators[0])]
                if any(s_ in (f"{lab}.type", f"{lab}.node_labels") for s_ in sides) and any(nodes in names_in(x) and '.label' in norm(x) for x in (a2.left, a2.comparators[0])):
                    hits.append((n, t))
    ok = False
    detail = 'no comparison of label.type with the labels of the nodes'
    for n, t in hits:
        r = walk(cfg, n, Env(atoms={t: False}), unknown='both')
        dom = n in cfg.dominators().get(cfg.exit, set()) or all(n in cfg.dominators().get(p, set()) for p, _ in cfg.pred[cfg.exit])
        if cfg.exit not in r:
            ok = True; detail = f"when `{t}` is false the constructor raises"
        else:
            detail = f"when `{t}` is false the constructor still completes"
    rep.ob(rule, f.fq(), 'Edge.__init__ refuses nodes whose labels differ from label.type', f.loc(), ok, detail)
    # the comparison is position by position (a tuple / list of the node labels in order), not a set
    for n, t in hits:
        a2 = inline_temps(f.node, collect_atoms(cfg.nodes[n].expr)[t])
        unordered = any(isinstance(x, (ast.Set, ast.SetComp)) or isinstance(x, ast.Call) and callee_last(x) in ('set', 'frozenset', 'sorted', 'Counter') for x in ast.walk(a2))
        rep.ob(rule, f.fq(), f"`{t[:70]}` compares the labels in attachment order", f.loc(), not unordered, '' if not unordered else 'the labels are compared as a set / sorted: a permuted attachment passes')


def eq_rules(rep: Report, prog: Program, cm: ClassModel) -> None:
    rule = 'C16-D4 eq-coverage'
    need = {'Graph': [{'_nodes'}, {'_edges'}, {'_ext', 'ext'}], 'HRG': [{'_rules'}, {'_start', 'start'}]}
    for cname, groups in need.items():
        ci = prog.cls(FG, cname)
        f = ci.methods.get('__eq__')
        if f is None:
            rep.ob(rule, ci.fq(), f"{cname}.__eq__", f"{ci.module.relpath}:{ci.node.lineno}", False, f"{cname} defines no __eq__ (identity comparison)")
            continue
        pos = f.positional_params()
        selfn, other = pos[0], pos[1]
        for who in (selfn, other):
            reads = {n.attr for n in own_nodes(f.node) if isinstance(n, ast.Attribute) and isinstance(n.value, ast.Name) and n.value.id == who}
            miss = [sorted(g)[0] for g in groups if not (g & reads)]
            rep.ob(rule, f.fq(), f"{cname}.__eq__ compares {[sorted(g)[0] for g in groups]} of `{who}`", f.loc(), not miss,
                   f"attributes of `{who}` read: {sorted(reads)}" + (f"; not compared: {miss}" if miss else ''))
        # each group compared self-vs-other with ==
        for g in groups:
            ok = False
            for c in [x for x in own_nodes(f.node) if isinstance(x, ast.Compare) and len(x.ops) == 1 and isinstance(x.ops[0], ast.Eq)]:
                l, r = c.left, c.comparators[0]
                if isinstance(l, ast.Attribute) and isinstance(r, ast.Attribute) and l.attr in g and r.attr in g \
                        and {norm(l.value), norm(r.value)} == {selfn, other}:
                    ok = True
            rep.ob(rule, f.fq(), f"{cname}.__eq__: {sorted(g)[0]} compared between the operands", f.loc(), ok, '' if ok else 'no `self.X == other.X` comparison for this attribute')
        from ..rules.eqtable import check_eq, check_ne
        check_eq(rep, 'C16-D4 eq truth table', f)
        ne = ci.methods.get('__ne__')
        if ne is not None:
            check_ne(rep, 'C16-D4 eq truth table', ne)
            ok = any(isinstance(x, ast.UnaryOp) and isinstance(x.op, ast.Not) and isinstance(x.operand, ast.Call) and callee_last(x.operand) == '__eq__'
                     for x in own_nodes(ne.node)) or any(isinstance(x, ast.Compare) and isinstance(x.ops[0], ast.Eq) for x in own_nodes(ne.node))
            rep.ob(rule, ne.fq(), f"{cname}.__ne__ is the negation of __eq__", ne.loc(), ok, '')


    # the value classes (labels, nodes, edges, rules) are dataclasses: their generated __eq__ must see every declared field,
    # because every `existing != new` test of the mutators and the Graph/HRG comparisons above rest on it
    n_fields = 0
    for ci in prog.module(FG).classes.values():
        decs = [d for d in ci.node.decorator_list if decorator_name(d) == 'dataclass']
        if not decs:
            continue
        d = decs[0]
        kws = {k.arg: k.value for k in d.keywords} if isinstance(d, ast.Call) else {}
        eq_off = 'eq' in kws and isinstance(kws['eq'], ast.Constant) and kws['eq'].value is False
        own_eq = '__eq__' in ci.methods
        if eq_off and not own_eq:
            rep.ob(rule + ' value classes', ci.fq(), f"@dataclass(eq=False) {ci.name}", f"{ci.module.relpath}:{ci.node.lineno}", False, 'instances compare by identity: equal labels / nodes / edges built twice are different')
        for st in ci.node.body:
            if isinstance(st, ast.AnnAssign) and isinstance(st.target, ast.Name) and 'ClassVar' not in norm(st.annotation):
                n_fields += 1
                v = st.value
                off = isinstance(v, ast.Call) and callee_last(v) == 'field' and any(k.arg == 'compare' and isinstance(k.value, ast.Constant) and k.value.value is False for k in v.keywords)
                rep.ob(rule + ' value classes', ci.fq(), f"{ci.name}.{st.target.id} takes part in ==", f"{ci.module.relpath}:{st.lineno}", own_eq or not off,
                       'declared field of the dataclass, compared by the generated __eq__' if not off else
                       f"field(compare=False): two {ci.name} objects that differ only in `{st.target.id}` are equal, so every `existing != new` check lets the second one through")
    rep.floor('C16-D4 value-class fields', n_fields, 9)


# ------------------------------------------------------------------------------------------ D5
def registry_writes_in(tree: ast.AST) -> List[ast.AST]:
    pm: Dict[int, ast.AST] = {}
    for n in ast.walk(tree):
        for c in ast.iter_child_nodes(n):
            pm[id(c)] = n
    out = []
    for x in ast.walk(tree):
        if isinstance(x, ast.Attribute) and x.attr in REGISTRIES:
            par = pm.get(id(x))
            if isinstance(x.ctx, (ast.Store, ast.Del)):
                out.append(x)
            elif isinstance(par, ast.Subscript) and par.value is x and isinstance(par.ctx, (ast.Store, ast.Del)):
                out.append(x)
            elif isinstance(par, ast.Attribute) and par.value is x and par.attr in CONTAINER_MUTATORS and isinstance(pm.get(id(par)), ast.Call):
                out.append(x)
    return out


def who_may_write(rep: Report, prog: Program) -> None:
    rule = 'C16-D5 who-may-write'
    ctl = ast.parse("def leak(g, e):\n    g._edges[e.id] = e\n    g._nodes.pop('x')\n    g._ext = ()\n")
    n_ctl = len(registry_writes_in(ctl))
    rep.ob(rule, 'positive-control', 'synthetic foreign writer is recognised', '-', n_ctl == 3, f"{n_ctl}/3 synthetic registry writes matched", nontrivial=False)
    total = 0
    for m in prog.modules.values():
        ws = registry_writes_in(m.tree)
        total += len(ws)
        if m.name == FG:
            continue
        for w in ws:
            rep.ob(rule, m.name, norm(w), f"{m.relpath}:{w.lineno}", False,
                   f"registry `{w.attr}` is written outside fggs/fggs.py, bypassing the validating mutators")
    rep.ob(rule, FG, 'all registry writes are inside fggs/fggs.py', 'fggs/fggs.py', True, f"{total} registry write sites in the program, all in fggs/fggs.py")
    rep.floor('C16-D5 write sites seen', total, 15)


# ------------------------------------------------------------------------------------------ D6
CONSUMERS = {'tuple', 'list', 'set', 'frozenset', 'sorted', 'dict', 'enumerate', 'zip', 'sum', 'any', 'all', 'join', 'map', 'filter', 'max', 'min', 'reversed', 'iter'}


def iterable_once(rep: Report, prog: Program) -> None:
    rule = 'C16-D6 iterable-consumed-once'
    m = prog.module(FG)
    found = 0
    for f in m.functions.values():
        if f.is_lambda:
            continue
        for p in f.param_names():
            ann = f.param_annotation(p)
            if ann is None or not norm(ann).startswith('Iterable['):
                continue
            found += 1
            cfg = cfg_of(f)
            pm = parents(f)

            def consumes(e: ast.AST) -> int:
                c = 0
                for x in ast.walk(e):
                    if isinstance(x, ast.Name) and x.id == p and isinstance(x.ctx, ast.Load):
                        par = pm.get(id(x))
                        if isinstance(par, (ast.For, ast.comprehension)) and par.iter is x: c += 1
                        elif isinstance(par, ast.Call) and x in par.args and callee_last(par) in CONSUMERS: c += 1
                        elif isinstance(par, ast.Starred): c += 1
                return c

            def rebinds(n: int) -> bool:
                st = cfg.nodes[n].stmt
                return cfg.nodes[n].kind == 'stmt' and isinstance(st, ast.Assign) and any(isinstance(t, ast.Name) and t.id == p for t in st.targets)
            cons: Dict[int, int] = {}
            for n, nd in cfg.nodes.items():
                k = sum(consumes(e) for e in _stmt_exprs(cfg, n))
                if k:
                    cons[n] = k
            # isinstance(p, tuple)-guarded paths are materialised already: evaluate `isinstance(p, (tuple|list))` as False (the one-shot case)
            hook_atoms = {}
            for n, nd in cfg.nodes.items():
                if nd.kind == 'test':
                    for t, a in collect_atoms(nd.expr).items():
                        if isinstance(a, ast.Call) and callee_last(a) == 'isinstance' and a.args and norm(a.args[0]) == p:
                            hook_atoms[t] = False
            env = Env(atoms=hook_atoms)
            bad = None
            original = walk(cfg, cfg.entry, env, stop=rebinds, unknown='both')   # nodes where p may still be the caller's iterable
            for n, k in sorted(cons.items()):
                if n not in original:
                    continue
                if k >= 2 and not rebinds(n):
                    bad = (n, n); break
                if rebinds(n):
                    continue        # consumption that materialises: p now names the copy
                succs = [b for b, l in cfg.succ[n] if l != 'exc']
                for s0 in succs:
                    r = walk(cfg, s0, env, stop=lambda x: rebinds(x) or cfg.nodes[x].kind == 'raise', unknown='both')
                    for n2 in sorted(cons):
                        if n2 == n and cfg.nodes[n].kind == 'for':
                            continue    # the loop header obtains its iterator once
                        if n2 in r and cfg.nodes[n2].kind != 'raise' and not _only_to_raise(cfg, n2):
                            bad = (n, n2); break
                    if bad: break
                if bad: break
            rep.ob(rule, f.fq(), f"parameter {p}: {norm(ann)}", f.loc(), bad is None,
                   'iterated at most once per path (or materialised first)' if bad is None else
                   f"`{p}` is iterated at {cfg.describe(bad[0])} and again at {cfg.describe(bad[1])}: a one-shot iterable is exhausted by the first pass, "
                   f"so what is validated is not what is stored")
    rep.floor('C16-D6', found, 3)


def _only_to_raise(cfg: CFG, n: int) -> bool:
    """Node n lies on paths that all end in a raise (e.g. building an error message)."""
    r = cfg.reachable([n])
    return cfg.exit not in r
