"""C17 -- conjunction: conjoin_rules only under conjoinable(); fresh paired names; ValueError exactly for
terminal/terminal conflicts; the paired rule carries nodes, externals, paired nonterminal edges and all terminal edges."""
from __future__ import annotations
import ast
from typing import Dict, List, Optional, Set
from ..model import Program, AnalysisError, own_nodes, norm, names_in
from ..cfg import cfg_of
from ..guards import Env, walk, collect_atoms, valuations, describe_env
from ..report import Report
from ..rules.freshname import check_fresh_names
from ..util import get_arg, callee_last, enclosing_stmt, depends_on, inline_temps
from ..normalize import inlined_view

CJ = 'fggs.conjunction'


def run(prog: Program, rep: Report, tier: str) -> None:
    rep.rule('C17-D1', 'guard dominance: conjoin_rules(r1, r2, ...) is reachable only when conjoinable(r1, r2) holds for the same pair; conjoinable returns True only if the node sets, the nonterminal-edge (id, attachment) sets and the external lists all agree; every pair of rules is tried')
    rep.rule('C17-D2', 'fresh-name protocol for paired nonterminals (complete registries of both grammars, add-before-reuse); one paired nonterminal per pair of nonterminals')
    rep.rule('C17-D3', 'conflict reporting: in conjoin_hrgs a ValueError is raised for an edge-label collision iff both labels are terminal; a collision is recorded iff the name exists in the other grammar with a different label')
    rep.rule('C17-D4', 'paired rule shape: all nodes of rule1 and its externals; nonterminal edges paired by sorted id with the paired label, attachment and id of edge1; terminal edges of both rules all added')
    rep.not_decided += ['the bijection between derivation sets', 'pairing is correct only because conjoinable() holds (checked as D1)']
    f = prog.func(CJ, 'conjoin_hrgs')
    cfg = cfg_of(f)
    # D1
    calls = [n for n, nd in cfg.nodes.items() if nd.stmt is not None and nd.kind == 'stmt'
             and any(isinstance(x, ast.Call) and callee_last(x) == 'conjoin_rules' for x in ast.walk(nd.stmt))]
    rep.floor('C17-D1', len(calls), 1)
    for n in calls:
        c = [x for x in ast.walk(cfg.nodes[n].stmt) if isinstance(x, ast.Call) and callee_last(x) == 'conjoin_rules'][0]
        a1, a2 = norm(c.args[0]), norm(c.args[1])
        atom = f"conjoinable({a1}, {a2})"
        hdr = cfg.nodes[n].loops[-1] if cfg.nodes[n].loops else None
        start = [b for b, l in cfg.succ[hdr] if l == 'iter'][0] if hdr is not None else cfg.entry
        r = walk(cfg, start, Env(atoms={atom: False}), loop_header_stop=hdr, unknown='both')
        ok = n not in r
        rep.ob('C17-D1 guard-dominance', f.fq(), norm(c), f.loc(c), ok,
               f"unreachable when {atom} is false" if ok else f"reachable although {atom} is false (or the guard tests a different pair)")
        # the loops enumerate all pairs
        loops = [cfg.nodes[h].stmt for h in cfg.nodes[n].loops]
        its = [norm(inline_temps(f.node, l.iter)) for l in loops]      # `rules2 = hrg2.all_rules()` hoisted out of the outer loop
        p = f.positional_params()
        ok2 = sorted(its) == sorted([f"{p[0]}.all_rules()", f"{p[1]}.all_rules()"])
        rep.ob('C17-D1 guard-dominance', f.fq(), 'every pair of rules of the two grammars is tried', f.loc(c), ok2, f"enclosing loops iterate over {its}")
        # the result is added
        st = cfg.nodes[n].stmt
        ok3 = any(isinstance(x, ast.Call) and callee_last(x) == 'add_rule' for x in ast.walk(st))
        if not ok3 and isinstance(st, ast.Assign) and len(st.targets) == 1 and isinstance(st.targets[0], ast.Name):
            # the rule is named first: a later statement of the same iteration adds it, on every path
            X = st.targets[0].id
            adds = lambda k: cfg.nodes[k].kind == 'stmt' and any(isinstance(x, ast.Call) and callee_last(x) == 'add_rule' and x.args and norm(x.args[0]) == X for x in ast.walk(cfg.nodes[k].stmt))
            nxt = [b for b, l in cfg.succ[n] if l != 'exc']
            ok3 = bool(nxt) and cfg.all_paths_pass(nxt[0], adds, targets={hdr if hdr is not None else cfg.exit, cfg.exit})[0]
        rep.ob('C17-D1 guard-dominance', f.fq(), 'the conjoined rule is added to the result', f.loc(c), ok3, '')
    conjoinable_rule(rep, prog)
    # D2
    np = prog.func(CJ, 'nonterminal_pairs')
    k = check_fresh_names(rep, prog, 'C17-D2 fresh-name', [np])
    from ..rules.freshname import check_generators_once
    check_generators_once(rep, prog, 'C17-D2 fresh-name one-shot', [prog.func('fggs.utils', 'unique_label_name')])
    from ..rules.freshname import check_returns_verified
    check_returns_verified(rep, 'C17-D2 fresh-name verified', prog.func('fggs.utils', 'unique_label_name'))
    rep.floor('C17-D2', k, 1)
    loops = [n for n in own_nodes(np.node) if isinstance(n, ast.For)]
    its = sorted(norm(inline_temps(np.node, l.iter)) for l in loops)
    pp = np.positional_params()
    ok = its == sorted([f"{pp[0]}.nonterminals()", f"{pp[1]}.nonterminals()"])
    rep.ob('C17-D2 fresh-name', np.fq(), 'a paired nonterminal is created for every pair of nonterminals', np.loc(), ok, f"loops over {its}")
    # the paired label has the type of the first component
    for c in [x for x in own_nodes(np.node) if isinstance(x, ast.Call) and callee_last(x) == 'EdgeLabel']:
        kw = {k.arg: k.value for k in c.keywords}
        nl = kw.get('node_labels') or (c.args[1] if len(c.args) > 1 else None)
        nt = kw.get('is_nonterminal')
        ok = nl is not None and norm(nl).endswith('.type') and isinstance(nt, ast.Constant) and nt.value is True
        rep.ob('C17-D2 fresh-name', np.fq(), norm(c)[:100], np.loc(c), ok, 'paired label is a nonterminal with the type of its component' if ok else 'paired label has the wrong kind or type')
    # D3
    conflict_rules(rep, prog)
    # D4
    shape_rules(rep, prog)


def conjoinable_rule(rep: Report, prog: Program) -> None:
    f = inlined_view(prog, prog.func(CJ, 'conjoinable'))
    # `return <test>` is the same decision as `if <test>: return True / else: return False`: analyse the normalised body
    import copy
    from ..cfg import CFG

    class RetNorm(ast.NodeTransformer):
        def visit_FunctionDef(self, n): return n
        def visit_Lambda(self, n): return n
        def visit_Return(self, n):
            if n.value is None or isinstance(n.value, ast.Constant):
                return n
            new = ast.If(test=n.value, body=[ast.Return(value=ast.Constant(value=True))], orelse=[ast.Return(value=ast.Constant(value=False))])
            return ast.fix_missing_locations(ast.copy_location(new, n))
    body = [RetNorm().visit(copy.deepcopy(st)) for st in f.node.body]
    for st in body:
        for x in ast.walk(st):
            for fld in ('lineno', 'col_offset', 'end_lineno', 'end_col_offset'):
                if not hasattr(x, fld) and isinstance(x, (ast.stmt, ast.expr)):
                    setattr(x, fld, getattr(st, fld, 0))
    cfg = CFG(body)
    p1, p2 = f.positional_params()[:2]
    atoms: Dict[str, ast.AST] = {}
    for n, nd in cfg.nodes.items():
        if nd.kind == 'test':
            atoms.update(collect_atoms(nd.expr))
    rets_true = [n for n, nd in cfg.nodes.items() if nd.kind == 'return' and isinstance(nd.expr, ast.Constant) and nd.expr.value is True]
    rets_expr = [n for n, nd in cfg.nodes.items() if nd.kind == 'return' and not isinstance(nd.expr, ast.Constant)]
    if rets_expr or not rets_true:
        raise AnalysisError('C17-D1: conjoinable is not written as guarded `return False` / final `return True`; idiom not recognised')
    eq_atoms = [t for t, a in atoms.items() if isinstance(a, ast.Compare) and isinstance(a.ops[0], (ast.Eq, ast.NotEq))]
    bad = []
    for t in eq_atoms:
        r = walk(cfg, cfg.entry, Env(atoms={t: False}), unknown='both')
        if any(x in r for x in rets_true):
            bad.append(t)
    rep.ob('C17-D1 conjoinable', f.fq(), 'each comparison, when it fails, excludes `return True`', f.loc(), not bad and len(eq_atoms) >= 3,
           f"comparisons: {eq_atoms}" + (f"; failing without effect: {bad}" if bad else ''))
    # roles by data dependence
    d1, d2 = depends_on(f, {p1}), depends_on(f, {p2})
    roles = {'nodes': False, 'nonterminal edges': False, 'externals': False}
    src: Dict[str, str] = {}
    for n in own_nodes(f.node):
        if isinstance(n, ast.Assign) and len(n.targets) == 1 and isinstance(n.targets[0], ast.Name):
            src[n.targets[0].id] = norm(n.value)
    for t in eq_atoms:
        a = atoms[t]
        txt = ' '.join(src.get(x, x) for x in names_in(a)) + ' ' + norm(a)
        both = (p1 in txt and p2 in txt)
        if both and '.nodes()' in txt and 'edges()' not in txt: roles['nodes'] = True
        if both and 'edges()' in txt and 'is_nonterminal' in txt and '.id' in txt: roles['nonterminal edges'] = True
        if both and '.ext' in txt: roles['externals'] = True
    for k, v in roles.items():
        rep.ob('C17-D1 conjoinable', f.fq(), f"compares the {k} of both rules", f.loc(), v, '' if v else f"no comparison involves the {k} of both rules")
    # the converse: when the defining comparisons all hold, nothing else may reject the pair.  A count comparison of the
    # duplicate-free views `.nodes()` / `.edges()` of the two rules is implied by the node comparison and is allowed as a cheap
    # pre-check; any other test that can reach `return False` makes conjoinable() stricter than its definition.
    defining = {}
    for t in eq_atoms:
        a = atoms[t]
        txt = ' '.join(src.get(x, x) for x in names_in(a)) + ' ' + norm(a)
        if p1 in txt and p2 in txt and ('.nodes()' in txt or 'edges()' in txt or '.ext' in txt) and 'len(' not in norm(a):
            defining[t] = True
    implied = {}
    for t, a in atoms.items():
        if isinstance(a, ast.Compare) and len(a.ops) == 1 and isinstance(a.ops[0], (ast.Eq, ast.NotEq)):
            sides = [a.left, a.comparators[0]]
            if all(isinstance(x, ast.Call) and callee_last(x) == 'len' and len(x.args) == 1 and isinstance(x.args[0], ast.Call)
                   and callee_last(x.args[0]) in ('nodes', 'edges') and not x.args[0].args for x in sides) \
                    and callee_last(sides[0].args[0]) == callee_last(sides[1].args[0]) \
                    and {(p1 in norm(x)) for x in sides} == {True, False} | ({True} if p1 == p2 else set()):
                implied[t] = True
    rets_false = [n for n, nd in cfg.nodes.items() if nd.kind == 'return' and isinstance(nd.expr, ast.Constant) and nd.expr.value is False]
    r = walk(cfg, cfg.entry, Env(atoms={**defining, **implied}), unknown='both')
    extra = [n for n in rets_false if n in r]
    others = sorted(set(atoms) - set(defining) - set(implied))
    rep.ob('C17-D1 conjoinable', f.fq(), 'rules with equal nodes, nonterminal skeleton and externals are conjoinable (no further condition rejects them)', f.loc(), not extra,
           'with the defining comparisons true every path returns True' if not extra else
           f"`return False` is still reachable when the defining comparisons all hold, through: {others}: pairs the definition accepts are dropped from the conjunction")
    # externals are a sequence (the i-th external of the pair is the i-th external of each rule) and an attachment is a sequence:
    # the comparison must keep the order -- no set / frozenset / sorted / Counter around either
    def unordered(e: ast.AST) -> Optional[str]:
        e = inline_temps(f.node, e)
        for x in ast.walk(e):
            if isinstance(x, (ast.SetComp, ast.Set)):
                return 'a set display'
            if isinstance(x, ast.Call) and callee_last(x) in ('set', 'frozenset', 'sorted', 'Counter'):
                return f"{callee_last(x)}(...)"
        return None
    for t in eq_atoms:
        a = inline_temps(f.node, atoms[t])
        txt = norm(a)
        if '.ext' in txt and p1 in txt and p2 in txt:
            why = unordered(a)
            rep.ob('C17-D1 conjoinable', f.fq(), f"`{t}` compares the externals position by position", f.loc(), why is None,
                   'ordered comparison' if why is None else f"the externals go through {why}: two rules whose externals are the same nodes in a different order are accepted, and the paired rule takes the order of the first")
        if 'edges()' in txt and '.nodes' in txt:
            bad = None
            for x in ast.walk(a):
                if isinstance(x, (ast.GeneratorExp, ast.ListComp, ast.SetComp)) and len(x.generators) == 1 and norm(x.generators[0].iter).endswith('.nodes'):
                    par = [y for y in ast.walk(a) if isinstance(y, ast.Call) and x in y.args]
                    if isinstance(x, ast.SetComp) or any(callee_last(y) in ('set', 'frozenset', 'sorted', 'Counter') for y in par):
                        bad = norm(par[0] if par else x)
            rep.ob('C17-D1 conjoinable', f.fq(), f"`{t[:60]}` compares each attachment as a sequence", f.loc(), bad is None,
                   'attachment order kept' if bad is None else f"`{bad[:80]}` forgets the order of the attachment nodes")


def conflict_rules(rep: Report, prog: Program) -> None:
    f = prog.func(CJ, 'conjoin_hrgs')
    cfg = cfg_of(f)
    found = 0
    for lp in [n for n in own_nodes(f.node) if isinstance(n, ast.For)]:
        raises = [n for n in cfg.loop_body.get(cfg.node_of(lp), set()) if cfg.nodes[n].kind == 'raise']
        if not raises or not isinstance(lp.target, ast.Tuple) or len(lp.target.elts) != 2:
            continue
        hdr = cfg.node_of(lp)
        a, b = [norm(x) for x in lp.target.elts]
        from ..util import check_raise_type
        for rn in sorted(raises):
            if isinstance(cfg.nodes[rn].stmt, ast.Raise):
                check_raise_type(rep, 'C17-D3 conflict-reporting exception type', prog, f, cfg.nodes[rn].stmt, 'ValueError', 'label conflict')
        atoms: Dict[str, ast.AST] = {}
        for n in cfg.loop_body[hdr]:
            if cfg.nodes[n].kind == 'test':
                atoms.update(collect_atoms(cfg.nodes[n].expr))
        be = [x for x, l in cfg.succ[hdr] if l == 'iter'][0]
        if not atoms:
            rep.ob('C17-D3 conflict-reporting', f.fq(), f"for ({a}, {b}) in {norm(lp.iter)}: raise", f.loc(lp), True, 'every recorded collision of this kind is reported unconditionally')
            continue
        found += 1
        want_atoms = {f"{a}.is_terminal", f"{b}.is_terminal"}
        alt = {f"{a}.is_nonterminal", f"{b}.is_nonterminal"}
        if set(atoms) not in (want_atoms, alt):
            raise AnalysisError(f"C17-D3: {f.loc(lp)} the guard of the collision raise tests {sorted(atoms)}, not the terminal status of both labels")
        bad = []
        for env in valuations(list(atoms)):
            r = walk(cfg, be, env, loop_header_stop=hdr, unknown='both')
            raised = bool(set(raises) & r)
            vals = list(env.atoms.values())
            both_terminal = all(vals) if set(atoms) == want_atoms else not any(vals)
            if raised != both_terminal:
                bad.append(f"[{describe_env(env)}] raises={raised}")
        rep.ob('C17-D3 conflict-reporting', f.fq(), f"ValueError iff both {a} and {b} are terminal", f.loc(lp), not bad, '; '.join(bad) if bad else 'truth table over the two is_terminal atoms agrees')
    rep.floor('C17-D3', found, 1)
    g = prog.func(CJ, 'check_namespace_collisions')
    gc = cfg_of(g)
    for lp in [n for n in own_nodes(g.node) if isinstance(n, ast.For)]:
        hdr = gc.node_of(lp)
        apps = [n for n in gc.loop_body[hdr] if gc.nodes[n].kind == 'stmt' and any(isinstance(x, ast.Call) and callee_last(x) == 'append' for x in ast.walk(gc.nodes[n].stmt))]
        atoms = {}
        for n in gc.loop_body[hdr]:
            if gc.nodes[n].kind == 'test':
                atoms.update(collect_atoms(gc.nodes[n].expr))
        be = [x for x, l in gc.succ[hdr] if l == 'iter'][0]
        has = [t for t in atoms if 'has_' in t and '_label_name' in t]
        ne = [t for t, a in atoms.items() if isinstance(a, ast.Compare) and isinstance(a.ops[0], (ast.Eq, ast.NotEq))]
        if len(has) != 1 or len(ne) != 1 or len(atoms) != 2:
            raise AnalysisError(f"C17-D3: {g.loc(lp)} collision loop guard not recognised: {sorted(atoms)}")
        bad = []
        for env in valuations(list(atoms)):
            r = walk(gc, be, env, loop_header_stop=hdr, unknown='both')
            rec = bool(set(apps) & r)
            want = env.atoms[has[0]] and not env.atoms[ne[0]]
            if rec != want:
                bad.append(f"[{describe_env(env)}] recorded={rec}")
        rep.ob('C17-D3 conflict-reporting', g.fq(), f"collision recorded iff {has[0]} and the two labels differ", g.loc(lp), not bad, '; '.join(bad) if bad else 'truth table agrees')


def shape_rules(rep: Report, prog: Program) -> None:
    f = inlined_view(prog, prog.func(CJ, 'conjoin_rules'))       # expression helpers such as `_terminal_edges(rule)` read through
    r1, r2 = f.positional_params()[:2]
    loops = [n for n in own_nodes(f.node) if isinstance(n, ast.For)]
    rule = 'C17-D4 paired-rule-shape'
    nl = [l for l in loops if norm(l.iter) == f"{r1}.rhs.nodes()"]
    ok = any(any(isinstance(x, ast.Call) and callee_last(x) == 'add_node' and norm(x.args[0]) == norm(l.target) for x in ast.walk(l))
             and not any(isinstance(x, (ast.If, ast.Continue, ast.Break)) for x in ast.walk(l)) for l in nl)
    rep.ob(rule, f.fq(), f"every node of {r1}.rhs is added", f.loc(), ok, '')
    ext = [n for n in own_nodes(f.node) if isinstance(n, ast.Assign) and isinstance(n.targets[0], ast.Attribute) and n.targets[0].attr == 'ext']
    ok = bool(ext) and all(norm(n.value) in (f"{r1}.rhs.ext", f"{r2}.rhs.ext") for n in ext)
    rep.ob(rule, f.fq(), 'externals are those of the paired rules', f.loc(), ok, f"{[norm(n) for n in ext]}")
    zl = [l for l in loops if isinstance(l.iter, ast.Call) and callee_last(l.iter) == 'zip']
    okz = False
    for l in zl:
        for c in [x for x in ast.walk(l) if isinstance(x, ast.Call) and callee_last(x) == 'Edge']:
            kw = {k.arg: k.value for k in c.keywords}
            lab = kw.get('label') or (c.args[0] if c.args else None)
            lab = inline_temps(l, lab) if lab is not None else None
            nodes = kw.get('nodes') or (c.args[1] if len(c.args) > 1 else None)
            eid = kw.get('id') or (c.args[2] if len(c.args) > 2 else None)
            e1, e2 = [norm(x) for x in l.target.elts] if isinstance(l.target, ast.Tuple) else (None, None)
            ok = lab is not None and isinstance(lab, ast.Subscript) and norm(lab.slice) in (f"({e1}.label, {e2}.label)", f"{e1}.label, {e2}.label") \
                and nodes is not None and norm(nodes) in (f"{e1}.nodes", f"{e2}.nodes") and eid is not None and norm(eid) in (f"{e1}.id", f"{e2}.id")
            rep.ob(rule, f.fq(), norm(c)[:110], f.loc(c), ok, 'paired edge carries the paired label and the shared attachment and id' if ok else 'paired edge loses label pairing, attachment or id')
            okz = okz or ok
        # both zipped lists sorted by id
        srcs = []
        for a in l.iter.args:
            if isinstance(a, ast.Name):
                for s in own_nodes(f.node):
                    if isinstance(s, ast.Assign) and any(isinstance(t, ast.Name) and t.id == a.id for t in s.targets):
                        srcs.append(s.value)
        srcs = [inline_temps(f.node, s_) for s_ in srcs]      # `by_id = attrgetter('id')` named once
        ok = len(srcs) == 2 and all(isinstance(s, ast.Call) and callee_last(s) == 'sorted' and any(k.arg == 'key' and ('.id' in norm(k.value) or norm(k.value) in ("attrgetter('id')", "operator.attrgetter('id')")) for k in s.keywords) for s in srcs)
        rep.ob(rule, f.fq(), 'nonterminal edges of both rules are paired in id order', f.loc(l), ok, '' if ok else 'the two lists are not both sorted by edge id before zipping')
    rep.floor('C17-D4 paired edges', int(okz), 1)
    # terminal edges of both rules are all added
    tl = [l for l in loops if not (isinstance(l.iter, ast.Call) and callee_last(l.iter) == 'zip') and l not in nl]
    ok = False
    for l in tl:
        d = depends_on(f, set())
        srcs = names_in(l.iter)
        defs = {}
        for s in own_nodes(f.node):
            if isinstance(s, ast.Assign) and len(s.targets) == 1 and isinstance(s.targets[0], ast.Name):
                defs[s.targets[0].id] = s.value
        txt = ' '.join(norm(defs[x]) for x in srcs if x in defs) + norm(l.iter)
        if f"{r1}.rhs.edges()" in txt and f"{r2}.rhs.edges()" in txt and txt.count('is_terminal') >= 2 \
                and not any(isinstance(x, (ast.Continue, ast.Break, ast.Return)) for x in ast.walk(l)):
            # every iteration adds its edge (possibly re-created under a new id), on every path
            lcfg = cfg_of(f)
            hdr = lcfg.node_of(l)
            be = [b for b, lab in lcfg.succ[hdr] if lab == 'iter'][0]
            tv = norm(l.target)
            adds = lambda k: lcfg.nodes[k].kind == 'stmt' and any(isinstance(x, ast.Call) and callee_last(x) == 'add_edge' and x.args and norm(x.args[0]) == tv for x in ast.walk(lcfg.nodes[k].stmt))
            if lcfg.all_paths_pass(be, adds, targets={hdr, lcfg.exit})[0]:
                ok = True
                # the edges are iterated as a multiset: equal edges of the two rules (same id, label, attachment) are two factors
                src_nodes = [l.iter] + [defs[x] for x in srcs if x in defs]
                collapsing = [x for e in src_nodes for x in ast.walk(e)
                              if isinstance(x, (ast.Set, ast.SetComp, ast.DictComp)) or isinstance(x, ast.Call) and callee_last(x) in ('set', 'frozenset', 'fromkeys', 'OrderedDict', 'dict', 'unique')]
                # ... and a list is filtered by the edge's own label only: `e not in ts1` removes the second copy of a shared edge
                for e_ in src_nodes:
                    for cmp_ in [x for x in ast.walk(e_) if isinstance(x, (ast.ListComp, ast.GeneratorExp, ast.SetComp))]:
                        for g_ in cmp_.generators:
                            tn_ = {t.id for t in ast.walk(g_.target) if isinstance(t, ast.Name)}
                            for cond in g_.ifs:
                                foreign = {x.id for x in ast.walk(cond) if isinstance(x, ast.Name)} - tn_
                                if foreign & set(defs):
                                    collapsing.append(cond)
                rep.ob(rule, f.fq(), f"for {tv} in {norm(l.iter)[:60]}: every terminal edge counts once per rule", f.loc(l), not collapsing,
                       'the terminal edges of the two rules are concatenated' if not collapsing else
                       f"`{norm(collapsing[0])[:60]}` collapses equal edges: a terminal edge the two rules share contributes one factor instead of two")
                # rebinding of the loop variable inside the loop keeps label and attachment
                for a in [x for x in ast.walk(l) if isinstance(x, ast.Assign) and any(norm(t) == tv for t in x.targets)]:
                    v = a.value
                    lab_a = get_arg(v, 0, 'label') if isinstance(v, ast.Call) else None
                    nodes_a = get_arg(v, 1, 'nodes') if isinstance(v, ast.Call) else None
                    same = isinstance(v, ast.Call) and callee_last(v) == 'Edge' and lab_a is not None and nodes_a is not None and norm(lab_a) == f"{tv}.label" and norm(nodes_a) == f"{tv}.nodes"
                    rep.ob(rule, f.fq(), norm(a)[:90], f.loc(a), same, 'a re-created edge keeps label and attachment' if same else 'the edge that is added differs from the rule\'s edge in label or attachment')
                # an id already used in the new right-hand side must not make add_edge fail
                guarded = any(isinstance(x, ast.Call) and callee_last(x) == 'has_edge_id' for x in ast.walk(l)) or \
                    any(isinstance(x, ast.Compare) and isinstance(x.ops[0], (ast.In, ast.NotIn)) and norm(x.left).endswith('.id') for x in ast.walk(l)) or \
                    all(isinstance(x.args[0], ast.Call) and callee_last(x.args[0]) == 'Edge' for x in ast.walk(l) if isinstance(x, ast.Call) and callee_last(x) == 'add_edge')
                rep.ob(rule, f.fq(), 'terminal edges whose ids coincide are both kept', f.loc(l), guarded,
                       'an id that is already taken leads to a fresh copy of the edge' if guarded else
                       'both rules\' terminal edges are added under their own ids: rules that number their edges independently (e0, e1, ...) make add_edge raise although no labels conflict')
    rep.ob(rule, f.fq(), 'terminal edges of both rules are all added', f.loc(), ok, '' if ok else 'no loop adds every terminal edge of both rules')
