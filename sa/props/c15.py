"""C15 -- hyperedge replacement: type check before any write, fresh ids, every node/edge/child contributes,
externals identified with attachments in order, labels and attachment order preserved."""
from __future__ import annotations
import ast
from typing import Dict, List, Optional, Set
from ..model import Program, AnalysisError, own_nodes, norm, names_in, FuncInfo
from ..cfg import cfg_of
from ..guards import Env, walk, collect_atoms, valuations
from ..report import Report
from ..util import callee_last, enclosing_stmt, parents

DV = 'fggs.derivations'
MUT = {'add_node', 'add_edge', 'remove_edge', 'remove_node', 'new_node', 'new_edge'}


def run(prog: Program, rep: Report, tier: str) -> None:
    rep.rule('C15-D1', 'type check first: replace_edge compares <edge>.label.type with <replacement>.type; when they differ no mutation of the host graph is reachable, and no raise statement follows a mutation')
    rep.rule('C15-D2', 'fresh ids: every Node(...)/Edge(...) built for the host in derivations.py is constructed without an explicit id')
    rep.rule('C15-D3', 'everything is copied: exactly the replaced edge is removed on every path; the loops over replacement.nodes()/edges() and over a derivation\'s rhs nodes / children contribute on every iteration (a node is skipped iff it is already mapped, i.e. external)')
    rep.rule('C15-D4', 'shape preserved: externals are paired with the attachment nodes by zip(<edge>.nodes, <replacement>.ext); a copied edge keeps the label of the original and maps its nodes through node_map in order')
    rep.not_decided += ['confluence over all rewrite orders', 'weight product of the derived graph', 'isomorphism of the results']
    f = prog.func(DV, 'replace_edge')
    cfg = cfg_of(f)
    pos = f.positional_params()
    if len(pos) != 3:
        raise AnalysisError('C15: replace_edge no longer has (graph, edge, replacement) parameters')
    G, E, R = pos

    def mut(n: int) -> bool:
        nd = cfg.nodes[n]
        if nd.stmt is None or nd.kind not in ('stmt',):
            return False
        return any(isinstance(x, ast.Call) and isinstance(x.func, ast.Attribute) and x.func.attr in MUT and norm(x.func.value) == G for x in ast.walk(nd.stmt))
    muts = [n for n in cfg.nodes if mut(n)]
    rep.floor('C15-D1 host mutations', len(muts), 3)
    # D1a: the type test exists and blocks all mutations when violated
    tests = []
    for n, nd in cfg.nodes.items():
        if nd.kind == 'test':
            for t, a in collect_atoms(nd.expr).items():
                if isinstance(a, ast.Compare) and isinstance(a.ops[0], (ast.Eq, ast.NotEq)) and \
                        {norm(a.left), norm(a.comparators[0])} == {f"{E}.label.type", f"{R}.type"}:
                    tests.append((n, t))
    if not tests:
        rep.ob('C15-D1 type-check-first', f.fq(), f"{E}.label.type == {R}.type", f.loc(), False, 'replace_edge never compares the type of the edge with the type of the replacement')
    for n, t in tests:
        env = Env(atoms={t: False})
        r = walk(cfg, cfg.entry, env, unknown='both')
        reached = [m for m in muts if m in r]
        ok = not reached and cfg.exit not in r
        rep.ob('C15-D1 type-check-first', f.fq(), t, f.loc(cfg.nodes[n].stmt), ok,
               'with differing types every path raises before touching the host graph' if ok else
               'with differing types the host graph is still modified at ' + ', '.join(cfg.describe(m) for m in reached[:3]) + ('' if cfg.exit not in r else ' and the function returns normally'))
    # D1b: no raise after a mutation
    raises = [n for n, nd in cfg.nodes.items() if nd.kind == 'raise']
    bad = [(m, r) for m in muts for r in raises if r in cfg.reachable([b for b, l in cfg.succ[m] if l != 'exc'])]
    rep.ob('C15-D1 type-check-first', f.fq(), 'no raise statement after a host mutation', f.loc(), not bad,
           '' if not bad else f"{cfg.describe(bad[0][1])} is reachable after {cfg.describe(bad[0][0])}")
    # D2 fresh ids
    n_ctor = 0
    for fn in [x for x in prog.module(DV).functions.values() if not x.is_lambda]:
        for c in [x for x in own_nodes(fn.node, into_lambdas=True) if isinstance(x, ast.Call) and callee_last(x) in ('Node', 'Edge')]:
            n_ctor += 1
            limit = 1 if callee_last(c) == 'Node' else 2
            explicit = any(k.arg == 'id' for k in c.keywords) or len(c.args) > limit
            rep.ob('C15-D2 fresh-id', fn.fq(), norm(c)[:90], fn.loc(c), not explicit,
                   'constructed without an id: the object receives a fresh address-based id' if not explicit else
                   'an explicit id is given to an object copied into the host graph: two uses of the same rule would collide')
    rep.floor('C15-D2', n_ctor, 3)
    # D3a: the replaced edge is removed on every path
    rem = [n for n in muts if any(isinstance(x, ast.Call) and x.func.attr == 'remove_edge' and x.args and norm(x.args[0]) == E
                                  for x in ast.walk(cfg.nodes[n].stmt) if isinstance(x, ast.Call) and isinstance(x.func, ast.Attribute))]
    ok, wit = cfg.all_paths_pass(cfg.entry, lambda n: n in rem)
    other_rm = [n for n in muts if n not in rem and 'remove_' in norm(cfg.nodes[n].stmt)]
    rep.ob('C15-D3 copied-completely', f.fq(), f"{G}.remove_edge({E}) on every path", f.loc(), bool(rem) and ok and not other_rm,
           'exactly the replaced edge is removed' if rem and ok and not other_rm else ('the edge is not removed on every returning path' if not ok or not rem else 'something else is removed as well: ' + cfg.describe(other_rm[0])))
    # D3b: nodes loop -- a replacement node is skipped iff it is already in node_map
    loops = [n for n in own_nodes(f.node) if isinstance(n, ast.For)]
    node_loops = [l for l in loops if isinstance(l.iter, ast.Call) and callee_last(l.iter) == 'nodes' and norm(l.iter.func.value) == R]
    edge_loops = [l for l in loops if isinstance(l.iter, ast.Call) and callee_last(l.iter) == 'edges' and norm(l.iter.func.value) == R]
    rep.floor('C15-D3 loops', len(node_loops) + len(edge_loops), 2)
    # once the edge is gone every path to the return runs both copy loops: an early exit in between ("nothing to copy" judged by the
    # nodes alone, say) leaves the host without the replacement's edges
    for kind, lps in (('nodes', node_loops), ('edges', edge_loops)):
        hdrs = {cfg.node_of(l) for l in lps}
        for r in rem:
            okl, witl = cfg.all_paths_pass(r, lambda n: n in hdrs) if hdrs else (False, None)
            rep.ob('C15-D3 copied-completely', f.fq(), f"after {G}.remove_edge({E}) every path runs the loop over {R}.{kind}()", f.loc(cfg.nodes[r].stmt), okl,
                   'no return between the removal and the copy' if okl else
                   'a path returns after the edge was removed without copying the ' + kind + ' of the replacement: ' + ' -> '.join(cfg.describe(x).split(':', 1)[0] for x in (witl or [])[-4:]))
    for lp in node_loops:
        hdr = cfg.node_of(lp)
        v = norm(lp.target)
        body_entry = [b for b, l in cfg.succ[hdr] if l == 'iter'][0]
        adds = {n for n in cfg.loop_body[hdr] if mut(n) and 'add_node' in norm(cfg.nodes[n].stmt)}
        atoms: Dict[str, ast.AST] = {}
        for n in cfg.loop_body[hdr]:
            if cfg.nodes[n].kind == 'test':
                atoms.update(collect_atoms(cfg.nodes[n].expr))
        mapped = [t for t, a in atoms.items() if isinstance(a, ast.Compare) and isinstance(a.ops[0], (ast.In, ast.NotIn)) and norm(a.left) == v]
        others = [t for t in atoms if t not in mapped]
        if others or len(mapped) > 1:
            raise AnalysisError(f"C15-D3: {f.loc(lp)} guard in the node-copy loop is not a single membership test of the node: {sorted(atoms)}")
        bad = []
        for env in valuations(mapped):
            r = walk(cfg, body_entry, env, loop_header_stop=hdr, unknown='both')
            executed = bool(r & adds)
            want = not env.atoms[mapped[0]] if mapped else True
            if executed != want:
                bad.append(f"{mapped[0] if mapped else 'always'}={env.atoms.get(mapped[0]) if mapped else ''}: add_node executed={executed}, required={want}")
        # the membership is in the map that the externals were put into
        rep.ob('C15-D3 copied-completely', f.fq(), f"for {v} in {norm(lp.iter)}: fresh copy added iff not already mapped", f.loc(lp), not bad and bool(adds),
               '; '.join(bad) if bad else 'a replacement node gets a fresh host node exactly when it is not external')
        # the new node keeps the label
        for c in [x for x in ast.walk(lp) if isinstance(x, ast.Call) and callee_last(x) == 'Node']:
            ok = bool(c.args) and norm(c.args[0]) == f"{v}.label"
            rep.ob('C15-D4 shape-preserved', f.fq(), norm(c), f.loc(c), ok, 'copy keeps the node label' if ok else 'the copy does not carry the label of the original node')
    for lp in edge_loops:
        hdr = cfg.node_of(lp)
        v = norm(lp.target)
        body_entry = [b for b, l in cfg.succ[hdr] if l == 'iter'][0]
        adds = lambda n: mut(n) and 'add_edge' in norm(cfg.nodes[n].stmt)
        ok, wit = cfg.all_paths_pass(body_entry, adds, targets={hdr, cfg.exit})
        rep.ob('C15-D3 copied-completely', f.fq(), f"for {v} in {norm(lp.iter)}: a copy is added on every iteration", f.loc(lp), ok,
               '' if ok else 'an iteration can finish without adding the copied edge')
        for c in [x for x in ast.walk(lp) if isinstance(x, ast.Call) and callee_last(x) == 'Edge']:
            lab_ok = bool(c.args) and norm(c.args[0]) == f"{v}.label"
            # nodes argument: node_map applied to <v>.nodes in order
            nodes_arg = c.args[1] if len(c.args) > 1 else None
            src = nodes_arg
            if isinstance(nodes_arg, ast.Name):
                for a in ast.walk(lp):
                    if isinstance(a, ast.Assign) and any(isinstance(t, ast.Name) and t.id == nodes_arg.id for t in a.targets):
                        src = a.value
            order_ok = False
            for g in ast.walk(src) if src is not None else []:
                if isinstance(g, (ast.GeneratorExp, ast.ListComp)) and len(g.generators) == 1 and norm(g.generators[0].iter) == f"{v}.nodes" \
                        and not g.generators[0].ifs and isinstance(g.elt, ast.Subscript) and norm(g.elt.slice) == norm(g.generators[0].target):
                    order_ok = True
            rep.ob('C15-D4 shape-preserved', f.fq(), norm(c), f.loc(c), lab_ok and order_ok,
                   'copy keeps the label and maps the attachment nodes through node_map in order' if lab_ok and order_ok else
                   f"label preserved: {lab_ok}; attachment nodes mapped in order without filtering: {order_ok}")
    # D2b: what enters the host is a freshly constructed object on every path (never the rule's own node / edge object)
    def fresh_sources(lp: ast.For, arg: ast.AST, ctor: str) -> Optional[str]:
        exprs = [arg]
        if isinstance(arg, ast.Name):
            exprs = [a.value for a in ast.walk(lp) if isinstance(a, ast.Assign) and any(isinstance(t, ast.Name) and t.id == arg.id for t in a.targets)]
            if not exprs:
                return f"`{arg.id}` is not built inside the loop"
        for e in exprs:
            if not (isinstance(e, ast.Call) and callee_last(e) == ctor):
                return f"`{norm(e)[:80]}` is not a new {ctor}(...) on every path"
        return None
    for lp, what, ctor in [(l, 'add_node', 'Node') for l in node_loops] + [(l, 'add_edge', 'Edge') for l in edge_loops]:
        for c in [x for x in ast.walk(lp) if isinstance(x, ast.Call) and callee_last(x) == what and x.args]:
            why = fresh_sources(lp, c.args[0], ctor)
            rep.ob('C15-D2 fresh-id', f.fq(), f"{norm(c)[:80]}: the object added to the host is a new {ctor}", f.loc(c), why is None,
                   'constructed in this iteration, so it has its own identity and id' if why is None else
                   f"{why}: an object of the rule itself can enter the host graph, and a second use of the same rule then clashes with (or aliases) the first")
    # D4: externals paired with attachments
    zl = [l for l in loops if isinstance(l.iter, ast.Call) and callee_last(l.iter) == 'zip']
    ok = False
    for l in zl:
        args = [norm(a) for a in l.iter.args]
        if args in ([f"{E}.nodes", f"{R}.ext"], [f"{R}.ext", f"{E}.nodes"]) and isinstance(l.target, ast.Tuple) and len(l.target.elts) == 2:
            names = [norm(x) for x in l.target.elts]
            g_name, r_name = (names[0], names[1]) if args[0] == f"{E}.nodes" else (names[1], names[0])
            for s in l.body:
                if isinstance(s, ast.Assign) and isinstance(s.targets[0], ast.Subscript) and norm(s.targets[0].slice) == r_name and norm(s.value) == g_name:
                    ok = True
    # the same map built at once: dict(zip(R.ext, E.nodes)) / m.update(zip(R.ext, E.nodes)) / {r: g for g, r in zip(E.nodes, R.ext)}
    for c in [x for x in own_nodes(f.node) if isinstance(x, ast.Call) and (callee_last(x) == 'dict' or callee_last(x) == 'update')]:
        if len(c.args) == 1 and isinstance(c.args[0], ast.Call) and callee_last(c.args[0]) == 'zip' and [norm(a) for a in c.args[0].args] == [f"{R}.ext", f"{E}.nodes"]:
            ok = True
    for c in [x for x in own_nodes(f.node) if isinstance(x, ast.DictComp) and len(x.generators) == 1 and not x.generators[0].ifs]:
        g0 = c.generators[0]
        if isinstance(g0.iter, ast.Call) and callee_last(g0.iter) == 'zip' and isinstance(g0.target, ast.Tuple) and len(g0.target.elts) == 2:
            role = dict(zip([norm(a) for a in g0.iter.args], [norm(t) for t in g0.target.elts]))
            if role.get(f"{R}.ext") == norm(c.key) and role.get(f"{E}.nodes") == norm(c.value):
                ok = True
    rep.ob('C15-D4 shape-preserved', f.fq(), f"node_map[external] = attachment for zip({E}.nodes, {R}.ext)", f.loc(), ok,
           'externals are identified with the attachment nodes position by position' if ok else 'no loop maps each external node of the replacement to the attachment node at the same position')
    derive_rules(rep, prog)


def derive_rules(rep: Report, prog: Program) -> None:
    v = prog.func(DV, 'FGGDerivation.derive.visit')
    d = prog.func(DV, 'FGGDerivation.derive')
    cfg = cfg_of(v)
    pos = v.positional_params()
    deriv = pos[0]
    loops = [n for n in own_nodes(v.node) if isinstance(n, ast.For)]
    nl = [l for l in loops if norm(l.iter) == f"{deriv}.rule.rhs.nodes()"]
    cl = [l for l in loops if norm(l.iter) in (f"{deriv}.children", f"{deriv}.children.items()", f"{deriv}.children.keys()")]
    rep.floor('C15-D3 derive loops', len(nl) + len(cl), 2)
    for lp in nl:
        hdr = cfg.node_of(lp)
        be = [b for b, l in cfg.succ[hdr] if l == 'iter'][0]
        st = lambda n: cfg.nodes[n].kind == 'stmt' and isinstance(cfg.nodes[n].stmt, ast.Assign) and isinstance(cfg.nodes[n].stmt.targets[0], ast.Subscript)
        ok, _ = cfg.all_paths_pass(be, st, targets={hdr, cfg.exit})
        rep.ob('C15-D3 copied-completely', v.fq(), f"for {norm(lp.target)} in {norm(lp.iter)}: assignment recorded for every rhs node", v.loc(lp), ok, '' if ok else 'a node of the rule can be left without a value')
    for lp in cl:
        hdr = cfg.node_of(lp)
        be = [b for b, l in cfg.succ[hdr] if l == 'iter'][0]
        rec = lambda n: cfg.nodes[n].kind == 'stmt' and any(isinstance(x, ast.Call) and callee_last(x) == v.name for x in ast.walk(cfg.nodes[n].stmt))
        ok, _ = cfg.all_paths_pass(be, rec, targets={hdr, cfg.exit})
        rep.ob('C15-D3 copied-completely', v.fq(), f"for {norm(lp.target)} in {norm(lp.iter)}: every child derivation is expanded", v.loc(lp), ok, '' if ok else 'a child derivation can be skipped')
    # the graph's interpretation is the grammar's
    for attr in ('domains', 'factors'):
        ok = any(isinstance(n, ast.Assign) and isinstance(n.targets[0], ast.Attribute) and n.targets[0].attr == attr and norm(n.value).endswith(f".fgg.{attr}") for n in own_nodes(d.node))
        rep.ob('C15-D4 shape-preserved', d.fq(), f"derived graph's {attr} are the grammar's", d.loc(), ok, '' if ok else f"derive() does not bind graph.{attr} to self.fgg.{attr}")
