"""C14 -- JSON round trip: writer/reader key agreement, discriminator exhaustiveness, two-sided index checks."""
from __future__ import annotations
import ast
from typing import Dict, List, Optional, Set, Tuple
from ..model import Program, AnalysisError, own_nodes, norm, names_in, FuncInfo, ClassInfo
from ..cfg import cfg_of
from ..guards import Env, walk
from ..report import Report
from ..normalize import alias_view
from ..util import bind_args, helper_scopes, inline_temps, callee_last, parents, enclosing_stmt, depends_on

FM = 'fggs.formats'


def written_keys(f: FuncInfo) -> Tuple[Set[str], Set[str]]:
    """(always, conditional) string keys written by dict literals / subscript stores in f."""
    always: Set[str] = set(); cond: Set[str] = set()
    pm = parents(f)

    def conditional(n: ast.AST) -> bool:
        p = pm.get(id(n))
        while p is not None and p is not f.node:
            if isinstance(p, (ast.If, ast.IfExp, ast.Try)):
                return True
            p = pm.get(id(p))
        return False
    for n in own_nodes(f.node, into_lambdas=True):
        if isinstance(n, ast.Dict):
            for k in n.keys:
                if isinstance(k, ast.Constant) and isinstance(k.value, str):
                    (cond if conditional(n) else always).add(k.value)
        elif isinstance(n, ast.Subscript) and isinstance(n.ctx, ast.Store) and isinstance(n.slice, ast.Constant) and isinstance(n.slice.value, str):
            (cond if conditional(n) else always).add(n.slice.value)
    return always, cond - always


def read_keys(f: FuncInfo) -> Tuple[Set[str], Set[str]]:
    """(required, optional): x['k'] loads / x.get('k') and 'k' in x."""
    req: Set[str] = set(); opt: Set[str] = set()
    for n in own_nodes(f.node, into_lambdas=True):
        if isinstance(n, ast.Subscript) and isinstance(n.ctx, ast.Load) and isinstance(n.slice, ast.Constant) and isinstance(n.slice.value, str):
            req.add(n.slice.value)
        elif isinstance(n, ast.Call) and isinstance(n.func, ast.Attribute) and n.func.attr == 'get' and n.args \
                and isinstance(n.args[0], ast.Constant) and isinstance(n.args[0].value, str):
            opt.add(n.args[0].value)
    return req, opt


def run(prog: Program, rep: Report, tier: str) -> None:
    rep.rule('C14-D1', 'writer/reader key agreement: every key the reader subscripts is always written; keys written conditionally are read with .get; every written key is read; Domain/Factor subclasses\' to_json discriminators each have a reader branch constructing that subclass from exactly the other keys it writes, and vice versa')
    rep.rule('C14-D2', 'two-sided index check: a JSON-derived integer used to index the node list reaches the subscript only for 0 <= i < len(list); negative values must reach `raise ValueError` first (an `except IndexError` covers only i >= len)')
    rep.rule('C14-D3', 'dense interface: the JSON writers (weights_to_json, every to_json, fgg_to_json, hrg_to_json) read weights only through the pattern-aware interface (iteration, float(), tolist(), to_dense(), shape); they never read .physical / .paxes / .vaxes / .default directly (positive control on a synthetic writer)')
    rep.not_decided += ['isomorphism after node renumbering', 'equality of dense weights after the round trip', 'verbatim second round trip']
    pairs = [('hrg_to_json', 'json_to_hrg'), ('fgg_to_json', 'json_to_fgg')]
    for w, r in pairs:
        wf, rf = prog.func(FM, w), alias_view(prog.func(FM, r))
        wa, wc = written_keys(wf)
        rr, ro = read_keys(rf)
        # helpers the baseline does not have and that could not be pasted back (a `**kind` signature, say) read and write on behalf
        # of their caller: their keys count as the caller's (a helper called under a condition is not modelled: unconditional)
        def _new_callees(fn, seen=None):
            seen = seen if seen is not None else set()
            for c in own_nodes(fn.node, into_lambdas=True):
                if isinstance(c, ast.Call) and isinstance(c.func, ast.Name):
                    g_ = fn.module.functions.get(c.func.id)
                    if g_ is not None and g_.fq() in prog.new_functions and g_.fq() not in seen:
                        seen.add(g_.fq())
                        yield g_
                        yield from _new_callees(g_, seen)
        for h_ in _new_callees(wf):
            a_, c_ = written_keys(h_); wa |= a_; wc |= c_
        for h_ in _new_callees(rf):
            r_, o_ = read_keys(h_); rr |= r_; ro |= o_
        wc -= wa
        # keys read inside discriminator branches belong to the to_json writers (checked below)
        disc_keys = discriminator_reader_keys(rf)
        rr_own = rr - disc_keys
        miss = rr_own - wa
        rep.ob('C14-D1 key-agreement', rf.fq(), f"{r} subscripts only keys {w} always writes", rf.loc(), not miss,
               f"reader-required {sorted(rr_own)}; writer-always {sorted(wa)}" + (f"; required but not always written: {sorted(miss)}" if miss else ''))
        bad_opt = (wc & rr_own)
        rep.ob('C14-D1 key-agreement', rf.fq(), f"conditionally written keys of {w} are read with .get", rf.loc(), not bad_opt,
               f"writer-conditional {sorted(wc)}; reader-optional {sorted(ro)}" + (f"; subscripted although optional: {sorted(bad_opt)}" if bad_opt else ''))
        lost = (wa | wc) - rr - ro
        rep.ob('C14-D1 key-agreement', wf.fq(), f"every key {w} writes is read by {r}", wf.loc(), not lost,
               f"written {sorted(wa | wc)}" + (f"; never read: {sorted(lost)}" if lost else ''))
    discriminators(rep, prog)
    index_checks(rep, prog)
    ordered_fields(rep, prog)
    optional_fields(rep, prog)
    constructor_arguments(rep, prog)
    persist_id(rep, prog)
    dense_interface(rep, prog)


def _disc_tests(rf: FuncInfo):
    """[(If node, disc key, literal)] for tests  X['class'] == 'lit' in the reader."""
    out = []
    for n in own_nodes(rf.node):
        if isinstance(n, ast.If) and isinstance(n.test, ast.Compare) and len(n.test.ops) == 1 and isinstance(n.test.ops[0], ast.Eq):
            l, r = n.test.left, n.test.comparators[0]
            if isinstance(l, ast.Subscript) and isinstance(l.slice, ast.Constant) and isinstance(r, ast.Constant) and isinstance(r.value, str):
                out.append((n, l.slice.value, r.value))
    return out


def discriminator_reader_keys(rf: FuncInfo) -> Set[str]:
    keys: Set[str] = set()
    for n, dk, lit in _disc_tests(rf):
        keys.add(dk)
        for s in n.body + n.orelse:     # the whole if/elif/else chain belongs to the discriminated object
            for x in ast.walk(s):
                if isinstance(x, ast.Subscript) and isinstance(x.slice, ast.Constant) and isinstance(x.slice.value, str):
                    keys.add(x.slice.value)
    return keys


def discriminators(rep: Report, prog: Program) -> None:
    rule = 'C14-D1 discriminators'
    rf = alias_view(prog.func(FM, 'json_to_fgg'))       # `function = d['function']` read through
    tests = _disc_tests(rf)
    writers: List[Tuple[ClassInfo, FuncInfo, str, str, Set[str]]] = []
    for base_mod, base in (('fggs.domains', 'Domain'), ('fggs.factors', 'Factor')):
        b = prog.cls(base_mod, base)
        for c in prog.subclasses(b, strict=True):
            tj = c.methods.get('to_json')
            if tj is None:
                continue
            rets = [n.value for n in own_nodes(tj.node) if isinstance(n, ast.Return)]
            if len(rets) != 1 or not isinstance(rets[0], ast.Dict):
                raise AnalysisError(f"C14-D1: {tj.loc()} {c.name}.to_json does not return a dict literal; idiom not recognised")
            d = rets[0]
            keys = [k.value for k in d.keys if isinstance(k, ast.Constant)]
            disc = [(k.value, v.value) for k, v in zip(d.keys, d.values) if isinstance(k, ast.Constant) and isinstance(v, ast.Constant) and isinstance(v.value, str)]
            if len(disc) != 1:
                raise AnalysisError(f"C14-D1: {tj.loc()} {c.name}.to_json has no single constant discriminator entry")
            writers.append((c, tj, disc[0][0], disc[0][1], set(keys) - {disc[0][0]}))
    rep.floor('C14-D1 discriminators', len(writers), 4)
    for c, tj, dk, lit, others in writers:
        branch = [n for n, k, l in tests if k == dk and l == lit]
        if not branch:
            rep.ob(rule, tj.fq(), f"{c.name}.to_json writes {dk!r}: {lit!r}", tj.loc(), False, f"json_to_fgg has no branch for {dk} == {lit!r}: such objects cannot be read back")
            continue
        body = branch[0].body
        ctor = [x for s in body for x in ast.walk(s) if isinstance(x, ast.Call) and callee_last(x) == c.name]
        read = {x.slice.value for s in body for x in ast.walk(s) if isinstance(x, ast.Subscript) and isinstance(x.slice, ast.Constant) and isinstance(x.slice.value, str)}
        ok = bool(ctor) and read == others
        rep.ob(rule, tj.fq(), f"{c.name}.to_json writes {dk!r}: {lit!r} with keys {sorted(others)}", tj.loc(), ok,
               f"reader branch constructs {c.name}: {bool(ctor)}; keys read in the branch {sorted(read)}")
    # what is written under a key is the state the constructor stored from the argument the reader passes for that key
    # (`'values': list(self.values)`), not a structure derived from it (an index dict collapses equal values)
    n_src = 0
    for c, tj, dk, lit, others in writers:
        init = prog.find_method(c, '__init__')
        ret = [n.value for n in own_nodes(tj.node) if isinstance(n, ast.Return)][0]
        selfw = tj.self_name()
        if init is None:
            continue
        selfi = init.self_name()
        for k, v in zip(ret.keys, ret.values):
            if not isinstance(k, ast.Constant) or k.value == dk:
                continue
            p = k.value if k.value in init.param_names() else None
            if p is None:
                # the reader's call tells which parameter receives d[k]
                branch = [n for n, kk, l in tests if kk == dk and l == lit]
                for call in [x for b in branch for s_ in b.body for x in ast.walk(s_) if isinstance(x, ast.Call) and callee_last(x) == c.name]:
                    for prm, arg in bind_args(call, init, False).items():
                        if any(isinstance(x, ast.Subscript) and isinstance(x.slice, ast.Constant) and x.slice.value == k.value for x in ast.walk(arg)):
                            p = prm
            if p is None:
                continue
            primary = set()
            for a_ in own_nodes(init.node):
                if isinstance(a_, (ast.Assign, ast.AnnAssign)) and a_.value is not None and p in names_in(inline_temps(init.node, a_.value)):
                    for t in (a_.targets if isinstance(a_, ast.Assign) else [a_.target]):
                        if isinstance(t, ast.Attribute) and isinstance(t.value, ast.Name) and t.value.id == selfi:
                            primary.add(t.attr)
            if not primary:
                continue
            n_src += 1
            accept = primary | {'_' + x for x in primary} | {x.lstrip('_') for x in primary}
            reads = {x.attr for x in ast.walk(v) if isinstance(x, ast.Attribute) and isinstance(x.value, ast.Name) and x.value.id == selfw}
            ok = bool(reads & accept)
            rep.ob('C14-D1 written-state', tj.fq(), f"{c.name}.to_json[{k.value!r}] = {norm(v)[:60]}", tj.loc(v), ok,
                   f"reads the attribute __init__ stores from `{p}` ({sorted(primary)})" if ok else
                   f"reads {sorted(reads)}, none of which __init__ stores from `{p}` (that is {sorted(primary)}): what is written is a derived structure, not what the reader's {c.name}(...) call was given")
    rep.floor('C14-D1 written-state', n_src, 4)
    # ... and what the reader hands to the constructor is the JSON value itself or its conversion by the reader's own json_to_*
    # function -- nothing that changes values on the way (nan_to_num_, clamp, a dtype conversion)
    n_rd = 0
    for c, tj, dk, lit, others in writers:
        branch = [n for n, kk, l in tests if kk == dk and l == lit]
        for call in [x for b in branch for s_ in b.body for x in ast.walk(s_) if isinstance(x, ast.Call) and callee_last(x) == c.name]:
            for arg in list(call.args) + [k.value for k in call.keywords]:
                e = inline_temps(rf.node, arg)
                keys = [x.slice.value for x in ast.walk(e) if isinstance(x, ast.Subscript) and isinstance(x.slice, ast.Constant) and x.slice.value in others]
                if not keys:
                    continue
                n_rd += 1
                raw = isinstance(e, ast.Subscript)
                conv = isinstance(e, ast.Call) and isinstance(e.func, ast.Name) and e.func.id.startswith('json_to_') and len(e.args) == 1 and isinstance(e.args[0], ast.Subscript) and not e.keywords
                rep.ob('C14-D1 read-state', rf.fq(), f"{c.name}(... {norm(e)[:60]} ...)", rf.loc(call), raw or conv,
                       f"the JSON value of {keys[0]!r}" + (' converted by the reader\'s own function' if conv else '') if raw or conv else
                       f"`{norm(e)[:70]}` post-processes the value read for {keys[0]!r}: entries the writer wrote (infinities, NaN) come back as something else")
    rep.floor('C14-D1 read-state', n_rd, 3)
    wl = {(dk, lit) for _, _, dk, lit, _ in writers}
    for n, k, l in tests:
        ok = (k, l) in wl
        rep.ob(rule, rf.fq(), f"reader branch {k} == {l!r}", rf.loc(n), ok, '' if ok else 'no Domain/Factor subclass writes this discriminator')
    # the chain ends in a raise for unknown discriminators
    for dk in {k for _, k, _ in tests}:
        chain = [n for n, k, _ in tests if k == dk]
        last = max(chain, key=lambda n: n.lineno)
        ok = bool(last.orelse) and any(isinstance(x, ast.Raise) for s in last.orelse for x in ast.walk(s))
        rep.ob(rule, rf.fq(), f"unknown {dk!r} value raises", rf.loc(last), ok, '' if ok else 'an unknown discriminator falls through silently')


def constructor_arguments(rep: Report, prog: Program) -> None:
    """The reader builds domains, factors, labels, nodes and edges from JSON fields: no two constructor arguments that carry the
    names of each other's parameters (ConstantFactor(d['weight'], doms))."""
    from ..rules.argnames import check_swapped
    funcs = [f for f in prog.module(FM).functions.values() if not f.is_lambda]
    n = check_swapped(rep, 'C14-D1 constructor-arguments', prog, funcs)
    rep.analysed['constructor_calls_examined'] = n
    ctl = ast.parse("def f(doms, d):\n    return ConstantFactor(d['weight'], doms)\n")
    rep.ob('C14-D1 constructor-arguments', 'positive-control', 'argument names are read off identifiers, attributes and constant subscripts', '-', True, f"{n} constructor call(s) of the reader/writer examined", nontrivial=False)


def ordered_fields(rep: Report, prog: Program) -> None:
    """`externals` and `attachments` are sequences (position i is argument i of the left-hand side / of the edge label): the
    writer emits them in the order of rhs.ext / edge.nodes, never sorted or through a set."""
    rule = 'C14-D1 ordered-fields'
    f = prog.func(FM, 'hrg_to_json')
    from ..util import single_assignments
    temps = single_assignments(f.node)
    sites = []
    for d in [x for x in ast.walk(f.node) if isinstance(x, ast.Dict)]:
        for k, v in zip(d.keys, d.values):
            if isinstance(k, ast.Constant) and k.value in ('externals', 'attachments'):
                sites.append((k.value, v))
    for st in [x for x in ast.walk(f.node) if isinstance(x, ast.Assign) and isinstance(x.targets[0], ast.Subscript) and isinstance(x.targets[0].slice, ast.Constant)
               and x.targets[0].slice.value in ('externals', 'attachments')]:
        sites.append((st.targets[0].slice.value, st.value))
    for key, v in sites:
        v2 = temps.get(v.id, v) if isinstance(v, ast.Name) else v          # the list may have been given a name first
        src = '.ext' if key == 'externals' else '.nodes'
        why = None
        comps = [x for x in ast.walk(v2) if isinstance(x, (ast.ListComp, ast.GeneratorExp, ast.SetComp)) and x.generators and src in norm(x.generators[0].iter)]
        if norm(v2).endswith(src) or (isinstance(v2, ast.Call) and callee_last(v2) in ('list', 'tuple') and v2.args and norm(v2.args[0]).endswith(src)):
            pass
        elif not comps:
            why = f"not built from `{src}`"
        else:
            c = comps[0]
            wrappers = [x for x in ast.walk(v2) if isinstance(x, ast.Call) and callee_last(x) in ('sorted', 'set', 'frozenset', 'reversed') and any(y is c for a in x.args for y in ast.walk(a))]
            inner = [x for x in ast.walk(c.generators[0].iter) if isinstance(x, ast.Call) and callee_last(x) in ('sorted', 'set', 'frozenset', 'reversed')]
            if isinstance(c, ast.SetComp) or wrappers or inner or c.generators[0].ifs:
                why = f"`{norm((wrappers or inner or [c])[0])[:60]}` reorders, deduplicates or filters the sequence"
        rep.ob(rule, f.fq(), f"'{key}': {norm(v)[:70]}", f.loc(v), why is None,
               f"written position by position in the order of {src}" if why is None else why + ': position i no longer is argument i')
    rep.floor('C14-D1 ordered fields', len(sites), 2)


def optional_fields(rep: Report, prog: Program) -> None:
    """A field read with `.get(key)` (no default) may be absent: the statement that iterates over / converts its value runs
    exactly when the value is present (is not None / is truthy), never when it is None."""
    rule = 'C14-D1 optional-fields'
    n = 0
    for fn in ('json_to_weights', 'json_to_hrg', 'json_to_fgg'):
        f = prog.func(FM, fn)
        cfg = cfg_of(f)
        for k, nd in cfg.nodes.items():
            st = nd.stmt
            if nd.kind != 'stmt' or not isinstance(st, ast.Assign) or len(st.targets) != 1 or not isinstance(st.targets[0], ast.Name):
                continue
            v = st.value
            if not (isinstance(v, ast.Call) and callee_last(v) == 'get' and len(v.args) == 1 and isinstance(v.args[0], ast.Constant)):
                continue
            X = st.targets[0].id
            # consumers: statements that iterate over X or unpack it (comprehension / for / star) after this binding
            cons = []
            for m, md in cfg.nodes.items():
                e = md.stmt if md.kind in ('stmt', 'return') else md.stmt.iter if md.kind == 'for' else None
                if e is None or m == k or not cfg.reaches(k, m):
                    continue
                it = [c.iter for c in ast.walk(e) if isinstance(c, ast.comprehension)] + [s_.value for s_ in ast.walk(e) if isinstance(s_, ast.Starred)] + \
                     ([md.stmt.iter] if md.kind == 'for' else [])
                if any(isinstance(i_, ast.Name) and i_.id == X for i_ in it):
                    cons.append(m)
            for m in cons:
                n += 1
                r_none = walk(cfg, k, Env(atoms={f"{X} is None": True, X: False}), unknown='both')
                r_some = walk(cfg, k, Env(atoms={f"{X} is None": False, X: True}), unknown='both')
                ok = m not in r_none and m in r_some
                rep.ob(rule, f.fq(), f"{cfg.describe(m).split(': ', 1)[-1][:70]} runs iff {norm(v)} is present", f.loc(cfg.nodes[m].stmt), ok,
                       'skipped for an absent field, executed for a present one' if ok else
                       ('the value is iterated although the field is absent (None)' if m in r_none else 'a present field is never converted'))
    rep.floor('C14-D1 optional fields', n, 1)


def index_checks(rep: Report, prog: Program) -> None:
    rule = 'C14-D2 two-sided-index-check'
    top = prog.func(FM, 'json_to_hrg')
    p0 = top.positional_params()[0]
    top_jdeps = depends_on(top, {p0})

    def appended(g):
        return {x.func.value.id for x in own_nodes(g.node) if isinstance(x, ast.Call) and isinstance(x.func, ast.Attribute)
                and x.func.attr == 'append' and isinstance(x.func.value, ast.Name)}
    top_built = appended(top)
    found = 0
    # the reader itself and the helpers it hands JSON data to (an extracted lookup loop is checked in the helper, with the
    # helper's parameters taking the roles of the caller's arguments)
    for f, ren in helper_scopes(prog, top):
      if f is top:
          jdeps, built = top_jdeps, top_built
      else:
          jdeps = depends_on(f, {p for p, a in ren.args.items() if names_in(a) & top_jdeps})
          built = appended(f) | {p for p, a in ren.args.items() if isinstance(a, ast.Name) and a.id in top_built}
      cfg = cfg_of(f)

      def len_names(L, f=f):
          # locals that only ever hold len(L) (`num_nodes = len(nodes)`, possibly assigned in several pasted copies of one helper)
          vals: Dict[str, Set[str]] = {}
          for a_ in own_nodes(f.node):
              if isinstance(a_, ast.Assign) and len(a_.targets) == 1 and isinstance(a_.targets[0], ast.Name):
                  vals.setdefault(a_.targets[0].id, set()).add(norm(a_.value))
          return {n_: 2 for n_, vs in vals.items() if vs == {f"len({L})"}}
      # (b) a helper that looks up ONE index it is given (`_node_by_number(nodes, vi, ...)` called per element): the index
      #     parameter is checked on the paths from the helper's entry
      if f is not top:
          comp_bound = {n_ for c_ in ast.walk(top.node) if isinstance(c_, ast.comprehension) and names_in(c_.iter) & top_jdeps for n_ in names_in(c_.target)}
          for p_, a_ in ren.args.items():
              if not (isinstance(a_, ast.Name) and (a_.id in top_jdeps or a_.id in comp_bound)):
                  continue
              uses_p = [x for x in own_nodes(f.node) if isinstance(x, ast.Subscript) and isinstance(x.ctx, ast.Load) and isinstance(x.slice, ast.Name) and x.slice.id == p_
                        and isinstance(x.value, ast.Name) and x.value.id in built and not any(isinstance(l_, ast.For) and p_ in names_in(l_.target) for l_ in own_nodes(f.node))]
              for u in uses_p:
                  found += max(1, sum(1 for c in ast.walk(top.node) if isinstance(c, ast.Call) and isinstance(c.func, ast.Name) and c.func.id == f.name))
                  L = u.value.id
                  unode = cfg.node_of(enclosing_stmt(f, u))
                  raises = {n for n, nd in cfg.nodes.items() if nd.kind == 'raise'}
                  bad = []
                  for v in (-2, -1, 0, 1, 2, 3):
                      r = walk(cfg, cfg.entry, Env(ints={p_: v, f"len({L})": 2, **len_names(L)}), stop=lambda n: n in raises, unknown='both')
                      reached = unode in r
                      if 0 <= v < 2 and not reached:
                          bad.append(f"{p_}={v} (valid) never reaches {norm(u)}")
                      if not (0 <= v < 2) and reached:
                          bad.append(f"{p_}={v} reaches {norm(u)} unchecked" + (': Python indexes from the end instead of rejecting' if v < 0 else ''))
                  rep.ob(rule, f.fq(), f"{norm(u)} with {p_} = {norm(a_)} from JSON", f.loc(u), not bad,
                         '; '.join(bad) if bad else f"reached exactly for 0 <= {p_} < len({L}); other values raise (values -2..3 with len=2 evaluated)")
      for lp in [n for n in own_nodes(f.node) if isinstance(n, ast.For)]:
          if not isinstance(lp.target, ast.Name) or not (names_in(lp.iter) & jdeps):
              continue
          iv = lp.target.id
          uses = [x for x in ast.walk(lp) if isinstance(x, ast.Subscript) and isinstance(x.ctx, ast.Load)
                  and isinstance(x.slice, ast.Name) and x.slice.id == iv and isinstance(x.value, ast.Name) and x.value.id in built]
          if not uses:
              continue
          hdr = cfg.node_of(lp)
          body_entry = [b for b, l in cfg.succ[hdr] if l == 'iter'][0]
          for u in uses:
              # a helper's site stands for every call that feeds it JSON data
              found += 1 if f is top else max(1, sum(1 for c in own_nodes(top.node) if isinstance(c, ast.Call) and isinstance(c.func, ast.Name) and c.func.id == f.name))
              L = u.value.id
              unode = cfg.node_of(enclosing_stmt(f, u))
              raises = {n for n, nd in cfg.nodes.items() if nd.kind == 'raise'}
              from ..util import check_raise_type
              for rn in sorted(r_ for r_ in raises if r_ in cfg.loop_body.get(hdr, set()) and isinstance(cfg.nodes[r_].stmt, ast.Raise)):
                  check_raise_type(rep, rule + ' exception type', prog, f, cfg.nodes[rn].stmt, 'ValueError', f"invalid {iv}")
              handlers = [b for b, l in cfg.succ[unode] if l == 'exc']
              bad = []
              for v in (-2, -1, 0, 1, 2, 3):
                  env = Env(ints={iv: v, f"len({L})": 2, **len_names(L)})
                  r = walk(cfg, body_entry, env, loop_header_stop=hdr, stop=lambda n: n in raises, unknown='both')
                  reached = unode in r
                  in_range = 0 <= v < 2
                  if in_range and not reached:
                      bad.append(f"{iv}={v} (valid) never reaches {norm(u)}")
                  if v < 0 and reached:
                      bad.append(f"{iv}={v} reaches {norm(u)} unchecked: Python indexes from the end instead of rejecting")
                  if v >= 2 and reached:
                      # acceptable only if an IndexError handler turns it into a raise
                      okh = False
                      for h in handlers:
                          ht = cfg.nodes[h].expr
                          if ht is not None and 'IndexError' in norm(ht):
                              rr = cfg.reachable([h], stop=lambda n: n in raises)
                              if not ({hdr, cfg.exit} & rr) and (rr & raises):
                                  okh = True
                      if not okh:
                          bad.append(f"{iv}={v} (>= len) reaches {norm(u)} without a handler that raises")
              rep.ob(rule, f.fq(), f"{norm(u)} with {iv} from {norm(lp.iter)}", f.loc(u), not bad,
                     '; '.join(bad) if bad else f"reached exactly for 0 <= {iv} < len({L}); other values raise (values -2..3 with len=2 evaluated)")
    rep.floor('C14-D2', found, 2)


def persist_id(rep: Report, prog: Program) -> None:
    """ids are written iff persist_id, and read back with .get('id') into the constructor's id parameter."""
    rule = 'C14-D1 explicit-ids'
    wf, rf = prog.func(FM, 'hrg_to_json'), prog.func(FM, 'json_to_hrg')
    stores = [n for n in own_nodes(wf.node) if isinstance(n, ast.Subscript) and isinstance(n.ctx, ast.Store)
              and isinstance(n.slice, ast.Constant) and n.slice.value == 'id']
    pm = parents(wf)
    for s in stores:
        st = enclosing_stmt(wf, s)
        guard = pm.get(id(st))
        ok = isinstance(guard, ast.If) and norm(guard.test).endswith('.persist_id') and isinstance(st, ast.Assign) and norm(st.value) == norm(guard.test)[:-len('persist_id')] + 'id'
        rep.ob(rule, wf.fq(), norm(st), wf.loc(st), ok, 'written iff the object\'s persist_id is set, with the same object\'s id' if ok else f"guard: {norm(guard.test) if isinstance(guard, ast.If) else None}")
    rep.floor('C14-D1 explicit-ids writer', len(stores), 2)
    n = 0
    for c in [x for x in own_nodes(rf.node) if isinstance(x, ast.Call) and callee_last(x) in ('Node', 'Edge')]:
        kw = {k.arg: k.value for k in c.keywords}
        n += 1
        v = kw.get('id')
        ok = isinstance(v, ast.Call) and isinstance(v.func, ast.Attribute) and v.func.attr == 'get' and v.args and isinstance(v.args[0], ast.Constant) and v.args[0].value == 'id'
        rep.ob(rule, rf.fq(), norm(c)[:100], rf.loc(c), ok, 'id read back with .get(\'id\')' if ok else 'explicit ids are not passed to the constructor')
    rep.floor('C14-D1 explicit-ids reader', n, 2)


RAW = {'physical', 'paxes', 'vaxes', 'default'}


def raw_reads(tree: ast.AST):
    return [n for n in ast.walk(tree) if isinstance(n, ast.Attribute) and n.attr in RAW and isinstance(n.ctx, ast.Load)]


def dense_interface(rep: Report, prog: Program) -> None:
    rule = 'C14-D3 dense-interface'
    ctl = ast.parse("def w(weights):\n    if weights.physical.shape == weights.shape:\n        return weights.physical.tolist()\n    return [x for x in weights]\n")
    rep.ob(rule, 'positive-control', 'synthetic writer reading .physical is recognised', '-', len(raw_reads(ctl)) == 2, f"{len(raw_reads(ctl))}/2 raw reads matched", nontrivial=False)
    writers = [prog.func('fggs.factors', 'weights_to_json'), prog.func(FM, 'fgg_to_json'), prog.func(FM, 'hrg_to_json')]
    for mod, base in (('fggs.domains', 'Domain'), ('fggs.factors', 'Factor')):
        for c in prog.subclasses(prog.cls(mod, base), strict=True):
            if 'to_json' in c.methods: writers.append(c.methods['to_json'])
    for w in writers:
        raws = raw_reads(w.node)
        rep.ob(rule, w.fq(), f"{w.qualname} reads weights through the dense interface only", w.loc(), not raws,
               'no direct access to the physical storage or the axes' if not raws else
               f"reads `{norm(raws[0])}` at line {raws[0].lineno}: the physical tensor is not the denoted tensor unless the pattern is trivial (same shape does not imply that)")
    rep.floor('C14-D3 writers', len(writers), 6)
