"""C10 -- tree decompositions: every connected component contributes to acb's result; method dispatch is exhaustive."""
from __future__ import annotations
import ast
from typing import Dict, Set
from ..model import Program, AnalysisError, own_nodes, norm
from ..report import Report
from ..rules.accumulate import check_accumulate, find_accumulating_loops
from ..rules.dispatch import check_dispatch, argparse_choices
from ..util import callee_last
from .c05 import readme_methods

FZ = 'fggs.factorize'


def run(prog: Program, rep: Report, tier: str) -> None:
    rep.rule('C10-D1', 'accumulate-all: in acb the loop over connected_components(g) appends a decomposition of every component on every non-raising path and never returns from inside the loop; the component trees are all joined into the result')
    rep.rule('C10-D2', 'dispatch: tree_decomposition tests exactly the documented methods (README, bin/factorize.py choices) and raises on anything else')
    rep.rule('C10-D3', 'non-destructive bounds: min_fill / minor_min_width / quickbb work on a private copy of their argument graph (so that the bound helpers can be called on the graph that is decomposed afterwards)')
    rep.rule('C10-D4', 'reported width accounts for every eliminated vertex: in a function that returns (width, order) with `order` grown inside a loop, every statement that adds vertices to `order` is preceded, on all paths of the same iteration, by `width = max(width, <degree>)`')
    rep.rule('C10-D5', 'bags-linked: in tree_decomposition_from_order, once the bags of the rest of the order exist (after the recursive call) every path to the return links the new bag to one of them with add_edge; the result is one tree, not a forest (bags are assumed not to be None)')
    rep.not_decided += ['validity (coverage, running intersection) of the decomposition for all graphs', 'optimality of quickbb/acb', 'correctness of acb_connected']
    f = prog.func(FZ, 'acb')
    loops = [(l, a) for l, a in find_accumulating_loops(f) if isinstance(l.iter, ast.Call) and callee_last(l.iter) == 'connected_components']
    rep.floor('C10-D1', len(loops), 1)
    for loop, acc in loops:
        check_accumulate(rep, 'C10-D1 accumulate-all', f, loop, acc)
        # all accumulated trees reach the result: the accumulator is used after the loop in a way that keeps every element
        uses = [n for n in own_nodes(f.node) if isinstance(n, ast.Name) and n.id == acc and isinstance(n.ctx, ast.Load) and n.lineno > loop.end_lineno]
        whole = [u for u in uses]
        # accepted: `(bag, acc)` tuple/child list, `acc[0]` only under len(acc)==1
        from ..util import parents
        pm = parents(f)
        bad = []
        for u in uses:
            par = pm.get(id(u))
            if isinstance(par, ast.Subscript) and par.value is u:
                # indexing: must be guarded by len(acc) == 1
                guarded = False
                p = par
                child = par
                while p is not None:
                    child, p = p, pm.get(id(p))
                    if isinstance(p, ast.If) and norm(p.test) in (f"len({acc}) == 1", f"1 == len({acc})"):
                        guarded = True
                    # the same guard as a conditional expression: acc[0] if len(acc) == 1 else ...
                    if isinstance(p, ast.IfExp) and norm(p.test) in (f"len({acc}) == 1", f"1 == len({acc})") and child is p.body:
                        guarded = True
                if not guarded:
                    bad.append(f"{norm(par)} at line {u.lineno} is not guarded by len({acc}) == 1")
        rep.ob('C10-D1 all-components-joined', f.fq(), f"uses of {acc} after the loop", f.loc(loop), bool(uses) and not bad,
               f"{len(uses)} use(s) after the loop; " + ('; '.join(bad) if bad else 'a single element is taken only when there is exactly one component, otherwise the whole list becomes the children of the root'))
    # what is decided for one connected component is decided from that component: nothing the per-component loop of acb binds is
    # carried over into the next iteration (a width found for one component says nothing about where to start the next search)
    from ..rules.loopstate import check_iteration_local
    n_loc = 0
    for loop, acc in loops:
        n_loc += check_iteration_local(rep, 'C10-D1 component-local state', f, loop)
    rep.analysed['acb_component_local_names'] = n_loc
    check_bags_linked(prog, rep)
    # D2
    td = prog.func(FZ, 'tree_decomposition')
    documented: Dict[str, Set[str]] = {}
    binc = argparse_choices(prog, 'bin.factorize', 'method')
    if binc: documented['bin/factorize.py -m choices'] = binc
    rm = readme_methods(prog)
    if rm: documented['README factorize methods'] = rm
    if not documented:
        documented['property statement'] = {'min_fill', 'quickbb', 'acb'}
    check_dispatch(rep, 'C10-D2 dispatch', td, 'method', documented)
    # each branch calls the algorithm of its name
    for n in own_nodes(td.node):
        if isinstance(n, ast.If) and isinstance(n.test, ast.Compare) and isinstance(n.test.comparators[0], ast.Constant):
            lit = n.test.comparators[0].value
            called = {callee_last(c) for s in n.body for c in ast.walk(s) if isinstance(c, ast.Call)}
            ok = lit in called or lit not in td.module.functions
            rep.ob('C10-D2 dispatch', td.fq(), f"method == {lit!r} branch runs {lit}()", td.loc(n), ok, f"calls in branch: {sorted(x for x in called if x)}")
    # D3
    for name in ('min_fill', 'minor_min_width'):
        g = prog.func(FZ, name)
        p0 = g.positional_params()[0]
        first = None
        for st in g.body:
            if isinstance(st, ast.Expr) and isinstance(st.value, ast.Constant):
                continue
            first = st; break
        ok = isinstance(first, ast.Assign) and isinstance(first.value, ast.Call) and callee_last(first.value) in ('copy_graph', 'deepcopy') \
            and norm(first.targets[0]) == p0 and first.value.args and norm(first.value.args[0]) == p0
        rep.ob('C10-D3 private-copy', g.fq(), f"{p0} = copy_graph({p0}) before any elimination", g.loc(), ok,
               '' if ok else f"first statement is `{norm(first)[:80] if first is not None else None}`; the function eliminates/contracts nodes of its argument in place")
    width_accounting(rep, prog)


def width_accounting(rep: Report, prog: Program) -> None:
    from ..cfg import cfg_of
    rule = 'C10-D4 width-accounting'
    n = 0
    for f in prog.module(FZ).functions.values():
        if f.is_lambda or f.parent is not None:
            continue
        rets = [r.value for r in own_nodes(f.node) if isinstance(r, ast.Return) and r.value is not None]
        if not rets or not all(isinstance(r, ast.Tuple) and len(r.elts) == 2 and all(isinstance(e, ast.Name) for e in r.elts) for r in rets):
            continue
        W, O = rets[0].elts[0].id, rets[0].elts[1].id
        cfg = cfg_of(f)

        def grows(k: int) -> bool:
            st = cfg.nodes[k].stmt
            if cfg.nodes[k].kind != 'stmt' or st is None:
                return False
            if isinstance(st, ast.AugAssign) and isinstance(st.target, ast.Name) and st.target.id == O:
                return True
            return any(isinstance(x, ast.Call) and isinstance(x.func, ast.Attribute) and x.func.attr in ('append', 'extend', 'insert') and isinstance(x.func.value, ast.Name) and x.func.value.id == O
                       for x in ast.walk(st))

        def updates(k: int) -> bool:
            st = cfg.nodes[k].stmt
            return cfg.nodes[k].kind == 'stmt' and isinstance(st, ast.Assign) and any(isinstance(t, ast.Name) and t.id == W for t in st.targets) \
                and isinstance(st.value, ast.Call) and callee_last(st.value) == 'max' and any(isinstance(a, ast.Name) and a.id == W for a in st.value.args)
        gs = [k for k in cfg.nodes if grows(k) and cfg.nodes[k].loops]
        if not gs or not any(updates(k) for k in cfg.nodes):
            continue
        for g in gs:
            n += 1
            hdr = cfg.nodes[g].loops[-1]
            entries = [b for b, l in cfg.succ[hdr] if l in ('iter', 'true')]
            ok, wit = cfg.all_paths_pass(entries[0], updates, targets={g})
            rep.ob(rule, f.fq(), f"{cfg.describe(g).split(': ', 1)[-1]} is preceded by {W} = max({W}, ...) in the same iteration", f.loc(cfg.nodes[g].stmt), ok,
                   'every vertex placed in the order has its elimination degree counted in the reported width' if ok else
                   f"vertices enter `{O}` on a path that never updates `{W}` (" + ' -> '.join(cfg.describe(x).split(':', 1)[0] for x in (wit or [])[-4:]) + '): the width returned with the order can be smaller than the width of that order')
    rep.floor('C10-D4', n, 1)
    # what is counted is the elimination degree: every running maximum of a `len(...)` in factorize.py takes the size of a
    # neighbour set `graph[v]` (possibly under a name), never of a bag `neighbours | {v}` -- width = largest bag size - 1
    from ..util import inline_temps
    nd = 0
    for f in prog.module(FZ).functions.values():
        if f.is_lambda:
            continue
        for st in [x for x in own_nodes(f.node) if isinstance(x, ast.Assign) and isinstance(x.value, ast.Call) and callee_last(x.value) == 'max' and len(x.value.args) == 2]:
            lens = [a for a in st.value.args if isinstance(a, ast.Call) and callee_last(a) == 'len' and len(a.args) == 1]
            if len(lens) != 1:
                continue
            nd += 1
            e = inline_temps(f.node, lens[0].args[0])
            while isinstance(e, ast.Call) and callee_last(e) in ('set', 'frozenset', 'list', 'tuple', 'copy') and (e.args or isinstance(e.func, ast.Attribute)):
                e = e.args[0] if e.args else e.func.value
            ok = isinstance(e, ast.Subscript) and isinstance(e.value, ast.Name)
            rep.ob(rule + ' degree', f.fq(), norm(st)[:80], f.loc(st), ok,
                   f"the size of the neighbour set `{norm(e)}`" if ok else
                   f"`{norm(lens[0])}` measures `{norm(e)[:60]}`, which is not a neighbour set graph[v]: a bag (neighbours plus the vertex) is one larger than the degree, so every width is overstated by one and an order that beats the incumbent by exactly one is rejected")
    rep.floor('C10-D4 degree', nd, 2)


def check_bags_linked(prog: Program, rep: Report) -> None:
    from ..cfg import cfg_of
    from ..guards import walk, Env
    rule = 'C10-D5 bags-linked'
    f = prog.func(FZ, 'tree_decomposition_from_order')
    scopes = [f] + [g for q, g in f.module.functions.items() if q.startswith(f.qualname + '.') and not g.is_lambda]
    n = 0

    def calls(st, name):
        return any(isinstance(x, ast.Call) and callee_last(x) == name for x in ast.walk(st))
    for g in scopes:
        cfg = cfg_of(g)
        stmts = {nid: nd for nid, nd in cfg.nodes.items() if nd.kind == 'stmt' and nd.stmt is not None}
        rec = [nid for nid, nd in stmts.items() if any(isinstance(x, ast.Call) and isinstance(x.func, ast.Name) and x.func.id == g.name for x in ast.walk(nd.stmt))]
        if not rec or not any(calls(nd.stmt, 'add_node') for nd in stmts.values()):
            continue
        for r in rec:
            n += 1
            linked = lambda nid: nid in stmts and calls(stmts[nid].stmt, 'add_edge')
            reach = walk(cfg, r, Env(), stop=linked, loop_items_not_none=True, lookups_not_none=True)
            ok = cfg.exit not in reach
            rep.ob(rule, g.fq(), f"after {norm(cfg.nodes[r].stmt)[:60]}: the new bag is linked with add_edge on every path to the return", g.loc(cfg.nodes[r].stmt), ok,
                   'every path passes add_edge (the parent bag is bound by the search loop, whose fall-through is `assert False`)' if ok else
                   'the function can return after the bags of the remaining vertices exist without linking the new bag: the decomposition of a disconnected graph becomes a forest and everything outside the root\'s tree is lost')
    if n == 0:
        rep.error(f"{rule}: no recursive bag construction found in tree_decomposition_from_order; idiom not recognised")
