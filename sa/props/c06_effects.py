"""C06-D3 in-place discipline of PatternedTensor / MultiTensor, from the E1 effect summaries."""
from __future__ import annotations
from typing import List
from ..model import Program
from ..report import Report
from ..effects import effects_for

WRITES_ARG = {('PatternedTensor', 'masked_fill_into'): 'dest'}
CTOR = {'__init__', '__post_init__'}
SELF_WRITERS_NO_UNDERSCORE = {('MultiTensor', 'add_single'), ('MultiTensor', '__setitem__'), ('MultiTensor', '__delitem__')}


def inplace_discipline(prog: Program, rep: Report) -> None:
    rule = 'C06-D3 in-place-discipline'
    rep.rule('C06-D3', 'in-place discipline (effect analysis): a PatternedTensor / MultiTensor method whose name does not end in `_` (and is not __i*__ / a documented exception) has no write effect on self or on any argument; `_` methods and __i*__ write only self; clone() results share no storage with self')
    eng = effects_for(prog)
    n = 0
    for mod, cname in (('fggs.indices', 'PatternedTensor'), ('fggs.multi', 'MultiTensor')):
        ci = prog.cls(mod, cname)
        for name, m in sorted(ci.methods.items()):
            if name in CTOR:
                continue
            S = eng.summaries[m]
            pos = m.positional_params()
            selfn = pos[0] if pos and not m.is_static else None
            effs = [e for e in S.writes if e.root.startswith('P:')]
            inplace_name = (name.endswith('_') and not name.endswith('__')) or (name.startswith('__i') and name.endswith('__') and name not in ('__iter__', '__init__')) \
                or (cname, name) in SELF_WRITERS_NO_UNDERSCORE
            allowed_roots: List[str] = []
            if inplace_name and selfn:
                allowed_roots.append(selfn)
            if (cname, name) in WRITES_ARG:
                allowed_roots.append(WRITES_ARG[(cname, name)])
            bad = [e for e in effs if e.root[2:].split('.')[0] not in allowed_roots]
            n += 1
            if not bad:
                rep.ob(rule, m.fq(), f"{cname}.{name}: " + ('writes only ' + ', '.join(allowed_roots) if allowed_roots else 'no write effect on self or arguments'), m.loc(), True,
                       f"{len(effs)} write(s) recorded, all on {allowed_roots}" if effs else 'effect summary is empty')
            else:
                seen = set()
                for e in bad:
                    k = (e.root[2:].split('.')[0], e.text)
                    if k in seen: continue
                    seen.add(k)
                    rep.ob(rule, m.fq(), f"{cname}.{name} writes `{k[0]}` via `{e.text}`", m.loc(), False,
                           f"{e.kind} at {e.loc} on {e.root}" + (' (call chain: ' + ' -> '.join(e.via) + ')' if e.via else '')
                           + ('; a method without trailing underscore must leave its operands untouched' if not inplace_name else '; an in-place method may only modify its receiver'))
    rep.floor('C06-D3 methods', n, 90)
    # after an in-place method the receiver's storage is its own: what is stored into self.physical is not (a view of) an argument
    ci = prog.cls('fggs.indices', 'PatternedTensor')
    k = 0
    for name, m in sorted(ci.methods.items()):
        if name in CTOR or m.is_static:
            continue
        S = eng.summaries[m]
        pos = m.positional_params()
        selfn = pos[0]
        added = set()
        for key, roots in S.growth.items():
            if key in (f"P:{selfn}.physical", f"P:{selfn}.physical.*"):
                added |= {r for r in roots if r.startswith('P:') and not r.startswith(f"P:{selfn}")}
        if f"P:{selfn}.physical" in S.growth or name.endswith('_'):
            k += 1
            rep.ob(rule + ' no-aliasing', m.fq(), f"PatternedTensor.{name}: self.physical never becomes (a view of) an argument's storage", m.loc(), not added,
                   'whatever is stored into self.physical is fresh or self\'s own storage' if not added else
                   f"self.physical may be bound to {sorted(added)}: afterwards an in-place operation on either tensor changes the other")
    rep.floor('C06-D3 no-aliasing methods', k, 8)
