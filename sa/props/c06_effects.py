def inplace_discipline(prog, rep):
    pass
