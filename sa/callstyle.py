"""Spelling normalisations that need the baseline inventory (sa/baseline_functions.json), applied to the parsed trees before indexing.

1. Call style.  Whether an argument is passed by position or by keyword does not change a call, but a rule that reads "the
   second argument of allclose" or "the rtol keyword" sees two different trees.  The inventory records, per callee name and
   parameter, how the baseline passes it; a call in today's tree that passes the parameter the other way is rewritten to the
   baseline's style (only when the callee's signature places the parameter unambiguously).  Nothing is rewritten for a
   parameter the baseline itself passes both ways.

2. New module constants.  `_RTOL = 0.` / `_CLASS_KEY = 'class'` introduced for a repeated literal: a module-level name that
   the baseline does not have, bound exactly once to a literal and never rebound, is read through.
"""
from __future__ import annotations
import ast, copy
from typing import Dict, List, Optional, Set, Tuple

FUNC = (ast.FunctionDef, ast.AsyncFunctionDef)

# third-party callees the library passes configuration to (signatures as documented by torch_semiring_einsum)
EXTERNAL_SIGS: Dict[str, List[str]] = {
    'semiring_einsum_forward': ['equation', 'args', 'block_size', 'func'],
    'compile_equation': ['equation'],
}


def _params(fn: ast.AST, drop_first: bool) -> Optional[List[str]]:
    a = fn.args
    ps = [x.arg for x in a.posonlyargs + a.args]
    if drop_first and ps:
        ps = ps[1:]
    return ps


def _is_static(fn: ast.AST) -> bool:
    return any(isinstance(d, ast.Name) and d.id == 'staticmethod' for d in fn.decorator_list)


def collect_signatures(trees: Dict[str, ast.Module]) -> Dict[Tuple[str, str], List[List[str]]]:
    """('name'|'attr', callee name) -> the positional parameter lists of every definition a call of that form may reach."""
    sigs: Dict[Tuple[str, str], List[List[str]]] = {}

    def add(kind: str, name: str, ps: Optional[List[str]]) -> None:
        if ps is not None:
            sigs.setdefault((kind, name), []).append(ps)
    for tree in trees.values():
        for st in tree.body:
            if isinstance(st, FUNC):
                add('name', st.name, _params(st, False)); add('attr', st.name, _params(st, False))
            elif isinstance(st, ast.ClassDef):
                init = next((m for m in st.body if isinstance(m, FUNC) and m.name == '__init__'), None)
                if init is not None:
                    ps = _params(init, True)
                elif any(isinstance(d, ast.Name) and d.id == 'dataclass' or isinstance(d, ast.Call) and isinstance(d.func, ast.Name) and d.func.id == 'dataclass'
                         for d in st.decorator_list):
                    ps = [m.target.id for m in st.body if isinstance(m, ast.AnnAssign) and isinstance(m.target, ast.Name) and 'ClassVar' not in ast.dump(m.annotation)]
                else:
                    ps = None
                add('name', st.name, ps); add('attr', st.name, ps)
                for m in st.body:
                    if isinstance(m, FUNC) and not (m.name.startswith('__') and m.name.endswith('__')):
                        add('attr', m.name, _params(m, not _is_static(m)))
    for n, ps in EXTERNAL_SIGS.items():
        add('name', n, ps); add('attr', n, ps)
    return sigs


def _static_names(trees) -> Set[str]:
    return {m.name for t in trees.values() for st in t.body if isinstance(st, ast.ClassDef) for m in st.body if isinstance(m, FUNC) and _is_static(m)}


def _callee(c: ast.Call) -> Optional[Tuple[str, str]]:
    if isinstance(c.func, ast.Name):
        return ('name', c.func.id)
    if isinstance(c.func, ast.Attribute):
        return ('attr', c.func.attr)
    return None


def _position(sigs, key, param: str, off: int = 0) -> Optional[int]:
    pos = {ps.index(param) for ps in sigs.get(key, []) if param in ps}
    return next(iter(pos)) + off if len(pos) == 1 else None


def _param_at(sigs, key, i: int, off: int = 0) -> Optional[str]:
    i -= off
    if i < 0:
        return None
    names = {ps[i] for ps in sigs.get(key, []) if i < len(ps)}
    short = any(i >= len(ps) for ps in sigs.get(key, []))
    return next(iter(names)) if len(names) == 1 and not short else None


def _class_names(trees) -> Set[str]:
    return {st.name for t in trees.values() for st in t.body if isinstance(st, ast.ClassDef)}


def _offset(c: ast.Call, classes: Set[str], static: Set[str]) -> int:
    """1 for an unbound call `Class.method(self, ...)` / `super(Class, self)`-free explicit-self form, else 0."""
    f = c.func
    if isinstance(f, ast.Attribute) and isinstance(f.value, ast.Name) and f.value.id in classes and f.attr not in static and c.args:
        return 1
    return 0


def _import_bound(tree: ast.Module) -> Set[str]:
    out: Set[str] = set()
    for n in ast.walk(tree):
        if isinstance(n, ast.Import):
            out |= {a.asname or a.name.split('.')[0] for a in n.names}
        elif isinstance(n, ast.ImportFrom):
            out |= {a.asname or a.name for a in n.names if a.name != '*'}
    return out


def _style_key(c: ast.Call, key: Tuple[str, str], imported: Set[str]) -> str:
    """Calls through a module name (`fggs.Edge`, `pydot.Edge`, `torch.where`) are kept apart by module: same callee name, different callee."""
    f = c.func
    if isinstance(f, ast.Attribute) and isinstance(f.value, ast.Name) and f.value.id in imported:
        return f"attr:{f.value.id}.{f.attr}"
    return f"{key[0]}:{key[1]}"


def baseline_call_style(trees: Dict[str, ast.Module]) -> Dict[str, Dict[str, str]]:
    """'kind:callee' -> {param: 'pos' | 'kw' | 'mixed'} over every call of the baseline tree."""
    sigs = collect_signatures(trees)
    classes = _class_names(trees); static = _static_names(trees)
    out: Dict[str, Dict[str, Set[str]]] = {}
    for tree in trees.values():
        imported = _import_bound(tree)
        for c in ast.walk(tree):
            if not isinstance(c, ast.Call):
                continue
            key = _callee(c)
            if key is None or key not in sigs:
                continue
            d = out.setdefault(_style_key(c, key, imported), {})
            for i, a in enumerate(c.args):
                if isinstance(a, ast.Starred):
                    break
                p = _param_at(sigs, key, i, _offset(c, classes, static))
                if p is not None:
                    d.setdefault(p, set()).add('pos')
            for k in c.keywords:
                if k.arg is not None:
                    d.setdefault(k.arg, set()).add('kw')
    return {c: {p: (next(iter(s)) if len(s) == 1 else 'mixed') for p, s in d.items()} for c, d in out.items() if d}


def restore_call_style(trees: Dict[str, ast.Module], style: Dict[str, Dict[str, str]]) -> int:
    """Mutates the trees; returns the number of arguments respelled."""
    if not style:
        return 0
    sigs = collect_signatures(trees)
    classes = _class_names(trees); static = _static_names(trees)
    n = 0
    for tree in trees.values():
        imported = _import_bound(tree)
        for c in ast.walk(tree):
            if not isinstance(c, ast.Call):
                continue
            key = _callee(c)
            if key is None or key not in sigs:
                continue
            st = style.get(_style_key(c, key, imported))
            if not st or any(isinstance(a, ast.Starred) for a in c.args) or any(k.arg is None for k in c.keywords):
                continue
            off = _offset(c, classes, static)
            # keyword -> positional, in signature order, while contiguous
            changed = True
            while changed:
                changed = False
                for k in list(c.keywords):
                    if st.get(k.arg) == 'pos' and _position(sigs, key, k.arg, off) == len(c.args):
                        c.args.append(k.value); c.keywords.remove(k); n += 1; changed = True
                        break
            # positional -> keyword, from the first parameter the baseline always names onwards
            for i in range(len(c.args)):
                p = _param_at(sigs, key, i, off)
                if p is not None and st.get(p) == 'kw':
                    tail = [(_param_at(sigs, key, j, off), c.args[j]) for j in range(i, len(c.args))]
                    if all(q is not None and st.get(q) in ('kw', None) for q, _ in tail) and not {q for q, _ in tail} & {k.arg for k in c.keywords}:
                        c.keywords = [ast.keyword(arg=q, value=v) for q, v in tail] + c.keywords
                        del c.args[i:]
                        n += len(tail)
                    break
    if n:
        for tree in trees.values():
            ast.fix_missing_locations(tree)
    return n


def _literal(v: ast.AST) -> bool:
    if isinstance(v, ast.Constant):
        return True
    if isinstance(v, ast.UnaryOp) and isinstance(v.op, (ast.USub, ast.UAdd)) and isinstance(v.operand, ast.Constant):
        return True
    if isinstance(v, ast.Tuple) and isinstance(v.ctx, ast.Load):
        return all(_literal(e) for e in v.elts)
    return False


def propagate_new_constants(tree: ast.Module, modname: str, baseline_globals: Optional[Set[str]]) -> List[str]:
    """Module-level `NAME = <literal>` the baseline does not have, bound once and stored nowhere else in the module: loads read through."""
    if baseline_globals is None:
        return []
    cands: Dict[str, ast.AST] = {}
    for st in tree.body:
        t = st.targets[0] if isinstance(st, ast.Assign) and len(st.targets) == 1 else st.target if isinstance(st, ast.AnnAssign) else None
        v = getattr(st, 'value', None)
        if isinstance(t, ast.Name) and v is not None and _literal(v) and f"{modname}:{t.id}" not in baseline_globals and not (t.id.startswith('__') and t.id.endswith('__')):
            cands[t.id] = v
    if not cands:
        return []
    stores: Dict[str, int] = {}
    for n in ast.walk(tree):
        if isinstance(n, ast.Name) and isinstance(n.ctx, (ast.Store, ast.Del)) and n.id in cands:
            stores[n.id] = stores.get(n.id, 0) + 1
        elif isinstance(n, (ast.Global, ast.Nonlocal)):
            for x in n.names:
                stores[x] = stores.get(x, 0) + 2
        elif isinstance(n, ast.arg) and n.arg in cands:
            stores[n.arg] = stores.get(n.arg, 0) + 2
        elif isinstance(n, (ast.FunctionDef, ast.AsyncFunctionDef, ast.ClassDef)) and n.name in cands:
            stores[n.name] = stores.get(n.name, 0) + 2
    cands = {k: v for k, v in cands.items() if stores.get(k, 0) == 1}
    if not cands:
        return []

    class Sub(ast.NodeTransformer):
        def visit_Name(self, n):
            if isinstance(n.ctx, ast.Load) and n.id in cands:
                return ast.copy_location(copy.deepcopy(cands[n.id]), n)
            return n
    Sub().visit(tree)
    ast.fix_missing_locations(tree)
    return [f"{modname}: new module constant `{k}` read through" for k in sorted(cands)]


def module_globals(tree: ast.Module) -> List[str]:
    out = []
    for st in tree.body:
        for t in (st.targets if isinstance(st, ast.Assign) else [st.target] if isinstance(st, ast.AnnAssign) else []):
            for n in ast.walk(t):
                if isinstance(n, ast.Name):
                    out.append(n.id)
    return out


def loops_to_comprehensions(tree: ast.Module) -> int:
    """`X = {}` / `[]` / `set()` immediately followed by a `for` whose whole body is `X[K] = V` / `X.append(E)` / `X.add(E)`
    (optionally under one `if`) is the comprehension `X = {K: V for ...}` written out; rewritten to the comprehension when the
    loop reads neither X nor leaves a loop variable that is read afterwards."""
    n_rw = 0

    def empty_container(v: Optional[ast.AST]) -> Optional[str]:
        if isinstance(v, ast.Dict) and not v.keys: return 'dict'
        if isinstance(v, ast.List) and not v.elts: return 'list'
        if isinstance(v, ast.Call) and isinstance(v.func, ast.Name) and not v.args and not v.keywords and v.func.id in ('dict', 'list', 'set'): return v.func.id
        return None

    def rewrite(body: List[ast.stmt], scope: ast.AST) -> None:
        nonlocal n_rw
        i = 0
        while i + 1 < len(body):
            st, lp = body[i], body[i + 1]
            i += 1
            t = st.targets[0] if isinstance(st, ast.Assign) and len(st.targets) == 1 else st.target if isinstance(st, ast.AnnAssign) else None
            kind = empty_container(getattr(st, 'value', None))
            if not (isinstance(t, ast.Name) and kind and isinstance(lp, ast.For) and not lp.orelse and len(lp.body) == 1):
                continue
            x = t.id
            inner = lp.body[0]
            cond = None
            if isinstance(inner, ast.If) and not inner.orelse and len(inner.body) == 1:
                cond, inner = inner.test, inner.body[0]
            comp = None
            gen = lambda: [ast.comprehension(target=lp.target, iter=lp.iter, ifs=[cond] if cond is not None else [], is_async=0)]
            if kind == 'dict' and isinstance(inner, ast.Assign) and len(inner.targets) == 1 and isinstance(inner.targets[0], ast.Subscript) \
                    and isinstance(inner.targets[0].value, ast.Name) and inner.targets[0].value.id == x:
                comp = ast.DictComp(key=inner.targets[0].slice, value=inner.value, generators=gen())
            elif kind in ('list', 'set') and isinstance(inner, ast.Expr) and isinstance(inner.value, ast.Call) and isinstance(inner.value.func, ast.Attribute) \
                    and isinstance(inner.value.func.value, ast.Name) and inner.value.func.value.id == x and len(inner.value.args) == 1 and not inner.value.keywords \
                    and inner.value.func.attr == ('append' if kind == 'list' else 'add'):
                comp = (ast.ListComp if kind == 'list' else ast.SetComp)(elt=inner.value.args[0], generators=gen())
            if comp is None:
                continue
            reads_x = any(isinstance(n, ast.Name) and n.id == x for n in ast.walk(comp))
            tnames = {n.id for n in ast.walk(lp.target) if isinstance(n, ast.Name)}
            outside = [n for s2 in ast.walk(scope) for n in [s2] if isinstance(n, ast.Name) and n.id in tnames]
            inside = [n for n in ast.walk(lp) if isinstance(n, ast.Name) and n.id in tnames]
            if reads_x or len(outside) != len(inside):
                continue
            new = ast.Assign(targets=[ast.Name(id=x, ctx=ast.Store())], value=comp)
            ast.copy_location(new, lp); ast.copy_location(new.targets[0], lp); ast.copy_location(comp, lp)
            body[i - 1:i + 1] = [new]
            n_rw += 1

    for scope in ast.walk(tree):
        if isinstance(scope, (ast.FunctionDef, ast.AsyncFunctionDef)):
            for holder in ast.walk(scope):
                for fld in ('body', 'orelse', 'finalbody'):
                    b = getattr(holder, fld, None)
                    if isinstance(b, list) and b and isinstance(b[0], ast.stmt):
                        rewrite(b, scope)
    if n_rw:
        ast.fix_missing_locations(tree)
    return n_rw


def membership_set_aliases(tree: ast.Module) -> int:
    """`ext_set = set(ext)` made once so that `n in ext_set` is cheap: for membership the set is its source.  Where a local is
    bound exactly once to `set(X)` / `frozenset(X)` of a plain name X that the function neither rebinds nor mutates, and the set
    itself is never mutated, `e in S` / `e not in S` is read as `e in X` / `e not in X`."""
    MUT = {'add', 'update', 'discard', 'remove', 'pop', 'clear', 'append', 'extend', 'insert', 'sort', 'reverse', 'difference_update',
           'intersection_update', 'symmetric_difference_update', 'setdefault', 'popitem'}
    n_rw = 0
    for fn in [x for x in ast.walk(tree) if isinstance(x, FUNC)]:
        stores: Dict[str, int] = {}
        mutated: Set[str] = set()
        params = {a.arg for a in ast.walk(fn.args) if isinstance(a, ast.arg)}
        for n in ast.walk(fn):
            if isinstance(n, ast.Name) and isinstance(n.ctx, (ast.Store, ast.Del)):
                stores[n.id] = stores.get(n.id, 0) + 1
            if isinstance(n, ast.Call) and isinstance(n.func, ast.Attribute) and n.func.attr in MUT and isinstance(n.func.value, ast.Name):
                mutated.add(n.func.value.id)
            if isinstance(n, ast.Subscript) and isinstance(n.ctx, (ast.Store, ast.Del)) and isinstance(n.value, ast.Name):
                mutated.add(n.value.id)
            if isinstance(n, ast.AugAssign) and isinstance(n.target, ast.Name):
                mutated.add(n.target.id)
        alias: Dict[str, str] = {}
        for st in ast.walk(fn):
            if isinstance(st, (ast.Assign, ast.AnnAssign)) and st.value is not None:
                t = st.targets[0] if isinstance(st, ast.Assign) and len(st.targets) == 1 else st.target if isinstance(st, ast.AnnAssign) else None
                v = st.value
                if isinstance(t, ast.Name) and isinstance(v, ast.Call) and isinstance(v.func, ast.Name) and v.func.id in ('set', 'frozenset') \
                        and len(v.args) == 1 and not v.keywords and isinstance(v.args[0], ast.Name):
                    s_, x_ = t.id, v.args[0].id
                    if s_ != x_ and stores.get(s_) == 1 and s_ not in params and s_ not in mutated and x_ not in mutated \
                            and (stores.get(x_, 0) == 0 or (x_ not in params and stores.get(x_) == 1)):
                        alias[s_] = x_
        if not alias:
            continue
        for c in [x for x in ast.walk(fn) if isinstance(x, ast.Compare)]:
            for i, (op, cmp_) in enumerate(zip(c.ops, c.comparators)):
                if isinstance(op, (ast.In, ast.NotIn)) and isinstance(cmp_, ast.Name) and cmp_.id in alias:
                    c.comparators[i] = ast.copy_location(ast.Name(id=alias[cmp_.id], ctx=ast.Load()), cmp_)
                    n_rw += 1
    return n_rw
