"""Views of a function that do not depend on how an expression was cut into pieces: calls to expression helpers (module-level
functions whose body is one `return <expr>`) are replaced by that expression, parameters substituted.  Rules that read the
shape of an expression use the view, so extracting or inlining such a helper changes no verdict."""
from __future__ import annotations
import ast, copy, dataclasses
from typing import Dict, List, Optional
from .model import Program, FuncInfo, own_nodes


def expression_helper(g: FuncInfo) -> Optional[ast.AST]:
    if g.is_lambda or g.cls is not None or g.parent is not None:
        return None
    body = list(g.node.body)
    if body and isinstance(body[0], ast.Expr) and isinstance(body[0].value, ast.Constant) and isinstance(body[0].value.value, str):
        body = body[1:]
    if len(body) != 1 or not isinstance(body[0], ast.Return) or body[0].value is None:
        return None
    a = g.node.args
    if a.vararg or a.kwarg or a.kwonlyargs:
        return None
    return body[0].value


def inlined_view(prog: Program, f: FuncInfo, depth: int = 2) -> FuncInfo:
    root = copy.deepcopy(f.node)

    def helper_of(c: ast.Call):
        if not isinstance(c.func, ast.Name):
            return None
        r = prog.resolve_global(f.module, c.func.id)
        if not r or r[0] != 'func' or r[1].fq() == f.fq():
            return None
        g = r[1]
        e = expression_helper(g)
        if e is None:
            return None
        params = [x.arg for x in g.node.args.posonlyargs + g.node.args.args]
        if any(isinstance(x, ast.Starred) for x in c.args) or len(c.args) > len(params) or any(k.arg is None or k.arg not in params for k in c.keywords):
            return None
        sub: Dict[str, ast.AST] = dict(zip(params, c.args))
        sub.update({k.arg: k.value for k in c.keywords})
        defaults = g.node.args.defaults
        for p, d in zip(params[len(params) - len(defaults):], defaults):
            sub.setdefault(p, d)
        if set(params) - set(sub):
            return None
        bound_inside = {n.id for n in ast.walk(e) if isinstance(n, ast.Name) and isinstance(n.ctx, ast.Store)}

        class SubP(ast.NodeTransformer):
            def visit_Name(self, n):
                if isinstance(n.ctx, ast.Load) and n.id in sub and n.id not in bound_inside:
                    return copy.deepcopy(sub[n.id])
                return n
        new = SubP().visit(copy.deepcopy(e))
        for x in ast.walk(new):
            if isinstance(x, (ast.expr, ast.stmt)):
                ast.copy_location(x, c)
        return new

    class Inl(ast.NodeTransformer):
        def __init__(self, d): self.d = d
        def visit_Call(self, c):
            self.generic_visit(c)
            if self.d > 0:
                new = helper_of(c)
                if new is not None:
                    return Inl(self.d - 1).visit(new)
            return c
    root = Inl(depth).visit(root)
    ast.fix_missing_locations(root)
    return dataclasses.replace(f, node=root)


def alias_view(f: FuncInfo) -> FuncInfo:
    """A view of f in which names that are bound once to a *selector* (`function = d['function']`, `rhs = rule.rhs`) are replaced
    by the selector wherever they are read -- rules that read `d['function'] == 'constant'` do not care whether the selection
    was named first."""
    from .util import single_assignments
    root = copy.deepcopy(f.node)
    temps = single_assignments(root)

    def selector(e: ast.AST) -> bool:
        if isinstance(e, ast.Name):
            return True
        if isinstance(e, ast.Attribute):
            return selector(e.value)
        if isinstance(e, ast.Subscript):
            return selector(e.value) and isinstance(e.slice, ast.Constant)
        return False
    alias = {k: v for k, v in temps.items() if selector(v) and not isinstance(v, ast.Name)}
    # the selected-from names must not be rebound in the function
    stores: Dict[str, int] = {}
    for n in own_nodes(root):
        if isinstance(n, ast.Name) and isinstance(n.ctx, (ast.Store, ast.Del)):
            stores[n.id] = stores.get(n.id, 0) + 1
    loop_targets = {t.id for n in own_nodes(root) if isinstance(n, (ast.For, ast.comprehension)) for t in ast.walk(n.target) if isinstance(t, ast.Name)}
    ok_alias = {}
    for k, v in alias.items():
        base = [n.id for n in ast.walk(v) if isinstance(n, ast.Name)]
        # a base may be the target of for-loops (rebound at the top of each iteration, before the alias is taken)
        n_loop = {b: sum(1 for n in own_nodes(root) if isinstance(n, ast.For) for t in ast.walk(n.target) if isinstance(t, ast.Name) and t.id == b) for b in base}
        if all(stores.get(b, 0) <= 1 or stores.get(b, 0) == n_loop[b] for b in base):
            ok_alias[k] = v
    if not ok_alias:
        return f

    class Sub(ast.NodeTransformer):
        def visit_Name(self, n):
            if isinstance(n.ctx, ast.Load) and n.id in ok_alias:
                return ast.copy_location(copy.deepcopy(ok_alias[n.id]), n)
            return n
    root = Sub().visit(root)
    ast.fix_missing_locations(root)
    return dataclasses.replace(f, node=root)
