"""Debug helper: python -m sa.show C05  -> list every obligation."""
import sys, os
os.environ['SA_NO_EVIDENCE'] = '1'
from .check import run_property
rep = run_property(sys.argv[1].upper(), 'quick', os.environ.get('SA_REPO', '/repo'))
for o in rep.obligations:
    print(('ok  ' if o.ok else 'FAIL'), f"[{o.rule}] {o.loc} {o.where}: {o.construct}\n        {o.detail}")
for e in rep.errors: print('ERROR', e)
print(rep.floors)
