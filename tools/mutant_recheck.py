#!/venv/bin/python
"""Re-run every property check on the test-suite survivors of a recorded mutation survey and compare with what was recorded
(validation of the checker after a change of the program normalisation: no detection may be lost).
  tools/mutant_recheck.py mutation/results3.jsonl 37b2fae [--jobs N]
Every mutant is re-created in a scratch copy under /tmp (removed afterwards); /repo is not touched."""
import ast, json, os, shutil, subprocess, sys
from concurrent.futures import ThreadPoolExecutor
sys.path.insert(0, os.path.dirname(os.path.abspath(__file__)))
import mutate
VERIF = os.path.dirname(os.path.dirname(os.path.abspath(__file__)))


def main():
    path, base = sys.argv[1], sys.argv[2]
    jobs = int(sys.argv[sys.argv.index('--jobs') + 1]) if '--jobs' in sys.argv else 6
    rs = [json.loads(l) for l in open(path)]
    surv = [r for r in rs if r['status'] == 'survived']
    srcs = {}
    for r in surv:
        if r['file'] not in srcs:
            srcs[r['file']] = subprocess.run(['git', '-C', '/repo', 'show', base + ':' + r['file']], capture_output=True, text=True).stdout

    def one(args):
        k, r = args
        wdir = f"/tmp/fggs-mut-re-{k % jobs}-{k}"
        shutil.rmtree(wdir, ignore_errors=True)
        os.makedirs(wdir)
        subprocess.run(f"git -C /repo archive {base} fggs bin README.md | tar -x -C {wdir}", shell=True)
        open(os.path.join(wdir, r['file']), 'w').write(ast.unparse(mutate.apply(ast.parse(srcs[r['file']]), r['mid'], r['kind'])))
        out = subprocess.run(['/venv/bin/python', '-m', 'sa.checkall', wdir], cwd=VERIF, capture_output=True, text=True).stdout
        shutil.rmtree(wdir, ignore_errors=True)
        line_ = [l for l in out.splitlines() if l.startswith('{')]
        d = json.loads(line_[-1]) if line_ else {}
        return r, sorted(p for p, v in d.items() if v['exit'] == 1), sorted(p for p, v in d.items() if v['exit'] == 2)
    with ThreadPoolExecutor(jobs) as ex:
        res = list(ex.map(one, enumerate(surv)))
    lost = gained = same = 0
    for r, viol, err in res:
        was = sorted(r.get('caught_by', r.get('violations', [])) or [])
        now = viol
        if was and not now:
            lost += 1
            print(f"LOST   {r['file']}:{r['line']} {r['where']} [{r['desc']}] {r['code'][:60]!r}: was {was}, now {'errors ' + str(err) if err else 'nothing'}")
        elif now and not was:
            gained += 1
            print(f"GAINED {r['file']}:{r['line']} {r['where']} [{r['desc']}] {r['code'][:60]!r}: now {now}")
        else:
            same += 1
    print(f"{len(surv)} survivors of the test suite re-checked: reported now {sum(1 for _, v, _ in res if v)}, errors only {sum(1 for _, v, e in res if e and not v)}; "
          f"lost {lost}, gained {gained}, unchanged {same}")
    return 1 if lost else 0


if __name__ == '__main__':
    sys.exit(main())
