#!/venv/bin/python
"""Mutation survey (validation of the checker, not part of any check): generate first-order mutants of the library source,
keep those the 110-test suite does not kill, and run every property check on the survivors.

  tools/mutate.py --per-file 60 --jobs 8 --out mutation/results.jsonl [--files fggs/utils.py ...] [--seed 1]

Every mutant lives in a scratch copy under /tmp/fggs-mut-w<i> (removed at the end); /repo is never modified.
A survivor no check reports is either an equivalent mutant, a change outside every property, or a gap: triage by hand
(mutation/TRIAGE.md)."""
import argparse, ast, copy, json, os, random, shutil, subprocess, sys, time
from concurrent.futures import ProcessPoolExecutor

VERIF = os.path.dirname(os.path.dirname(os.path.abspath(__file__)))
REPO = '/tmp/fggs-mut-base'      # snapshot of /repo's working tree taken at start (so /repo may be patched meanwhile)
CMP = {ast.Lt: ast.LtE, ast.LtE: ast.Lt, ast.Gt: ast.GtE, ast.GtE: ast.Gt, ast.Eq: ast.NotEq, ast.NotEq: ast.Eq,
       ast.In: ast.NotIn, ast.NotIn: ast.In, ast.Is: ast.IsNot, ast.IsNot: ast.Is}


def sites(tree):
    """Deterministic list of (kind, path-index) mutation sites; each is (node, description, mutate(node_copy_tree))."""
    out = []
    doc_ids = set()
    for n in ast.walk(tree):
        if isinstance(n, (ast.FunctionDef, ast.ClassDef, ast.Module)) and n.body and isinstance(n.body[0], ast.Expr) \
                and isinstance(n.body[0].value, ast.Constant) and isinstance(n.body[0].value.value, str):
            doc_ids.add(id(n.body[0]))
    idx = 0
    for n in ast.walk(tree):
        n._mid = idx; idx += 1
    for n in ast.walk(tree):
        ln = getattr(n, 'lineno', 0)
        if isinstance(n, ast.Compare) and len(n.ops) == 1 and type(n.ops[0]) in CMP:
            out.append((n._mid, ln, 'cmp', f"{type(n.ops[0]).__name__}->{CMP[type(n.ops[0])].__name__}"))
        elif isinstance(n, ast.BoolOp):
            out.append((n._mid, ln, 'bool', 'and<->or'))
        elif isinstance(n, ast.UnaryOp) and isinstance(n.op, ast.Not):
            out.append((n._mid, ln, 'not', 'drop not'))
        elif isinstance(n, ast.Constant) and isinstance(n.value, bool):
            out.append((n._mid, ln, 'const', f"{n.value}->{not n.value}"))
        elif isinstance(n, ast.Constant) and isinstance(n.value, int) and not isinstance(n.value, bool) and n.value in (0, 1, 2, -1):
            out.append((n._mid, ln, 'const', f"{n.value}->{n.value + 1}"))
        elif isinstance(n, ast.BinOp) and isinstance(n.op, (ast.Add, ast.Sub)):
            out.append((n._mid, ln, 'arith', '+<->-'))
        elif isinstance(n, ast.Expr) and id(n) not in doc_ids and isinstance(n.value, ast.Call):
            out.append((n._mid, ln, 'delstmt', 'delete call statement'))
        elif isinstance(n, (ast.Break, ast.Continue)):
            out.append((n._mid, ln, 'delstmt', f"delete {type(n).__name__.lower()}"))
        elif isinstance(n, ast.Raise):
            out.append((n._mid, ln, 'delstmt', 'delete raise'))
        elif isinstance(n, ast.AugAssign):
            out.append((n._mid, ln, 'delstmt', 'delete augmented assignment'))
        elif isinstance(n, ast.If) and not n.orelse:
            out.append((n._mid, ln, 'iftrue', 'if-condition forced True'))
        elif isinstance(n, ast.Call) and len(n.args) == 2 and not n.keywords and not any(isinstance(a, ast.Starred) for a in n.args):
            out.append((n._mid, ln, 'swap', 'swap the two positional arguments'))
        elif isinstance(n, ast.Return) and n.value is not None and isinstance(n.value, (ast.Name, ast.Attribute)) and False:
            pass
    return out


def apply(tree, mid, kind):
    idx = 0
    for n in ast.walk(tree):
        n._mid = idx; idx += 1

    class T(ast.NodeTransformer):
        def generic_visit(self, n):
            n = super().generic_visit(n)
            if getattr(n, '_mid', None) != mid:
                return n
            if kind == 'cmp':
                n.ops = [CMP[type(n.ops[0])]()]
            elif kind == 'bool':
                n.op = ast.Or() if isinstance(n.op, ast.And) else ast.And()
            elif kind == 'not':
                return n.operand
            elif kind == 'const':
                n.value = (not n.value) if isinstance(n.value, bool) else n.value + 1
            elif kind == 'arith':
                n.op = ast.Sub() if isinstance(n.op, ast.Add) else ast.Add()
            elif kind == 'delstmt':
                return ast.copy_location(ast.Pass(), n)
            elif kind == 'iftrue':
                n.test = ast.copy_location(ast.Constant(value=True), n.test)
            elif kind == 'swap':
                n.args = [n.args[1], n.args[0]]
            return n
    return ast.fix_missing_locations(T().visit(tree))


def worker(job):
    wi, specs = job
    wdir = f"/tmp/fggs-mut-w{wi}"
    shutil.rmtree(wdir, ignore_errors=True)
    shutil.copytree(REPO, wdir, ignore=shutil.ignore_patterns('.git', '*.egg-info', '__pycache__', 'docs', 'images'))
    env = dict(os.environ, PYTHONPATH=wdir, OMP_NUM_THREADS='1', MKL_NUM_THREADS='1', PYTHONDONTWRITEBYTECODE='1')
    res = []
    try:
        for sp in specs:
            rel = sp['file']
            src = open(os.path.join(REPO, rel)).read()
            try:
                new = ast.unparse(apply(ast.parse(src), sp['mid'], sp['kind']))
                compile(new, rel, 'exec')
            except Exception as e:
                sp['status'] = 'invalid'; res.append(sp); continue
            open(os.path.join(wdir, rel), 'w').write(new)
            t0 = time.time()
            try:
                r = subprocess.run(['/venv/bin/python', '-m', 'pytest', '-q', '-x', '-p', 'no:cacheprovider', '--timeout=300'], cwd=wdir, env=env,
                                   capture_output=True, text=True, timeout=900)
                survived = r.returncode == 0
            except subprocess.TimeoutExpired:
                survived = False
            sp['test_wall'] = round(time.time() - t0, 1)
            sp['status'] = 'survived' if survived else 'killed'
            if survived:
                try:
                    r = subprocess.run(['/venv/bin/python', '-m', 'sa.checkall', wdir], cwd=VERIF, capture_output=True, text=True, timeout=900)
                    line = [l for l in r.stdout.splitlines() if l.startswith('{')]
                    out = json.loads(line[-1]) if line else {}
                    sp['caught_by'] = sorted(p for p, v in out.items() if v['exit'] == 1)
                    sp['analysis_errors'] = sorted(p for p, v in out.items() if v['exit'] == 2)
                    sp['reports'] = {p: v['reports'][:2] for p, v in out.items() if v['exit'] != 0}
                    if not line:
                        sp['checkall_failed'] = (r.stdout + r.stderr)[-300:]
                except subprocess.TimeoutExpired:
                    sp['checkall_failed'] = 'timeout'
            shutil.copy(os.path.join(REPO, rel), os.path.join(wdir, rel))
            res.append(sp)
    finally:
        shutil.rmtree(wdir, ignore_errors=True)
    return res


def main():
    ap = argparse.ArgumentParser()
    ap.add_argument('--per-file', type=int, default=60)
    ap.add_argument('--jobs', type=int, default=8)
    ap.add_argument('--seed', type=int, default=1)
    ap.add_argument('--out', default=os.path.join(VERIF, 'mutation', 'results.jsonl'))
    ap.add_argument('--files', nargs='*')
    a = ap.parse_args()
    shutil.rmtree(REPO, ignore_errors=True)
    shutil.copytree('/repo', REPO, ignore=shutil.ignore_patterns('.git', '*.egg-info', '__pycache__', 'docs', 'images'))
    files = a.files or sorted('fggs/' + f for f in os.listdir(os.path.join(REPO, 'fggs')) if f.endswith('.py') and f not in ('__init__.py', 'typing.py'))
    rnd = random.Random(a.seed)
    specs = []
    for rel in files:
        src = open(os.path.join(REPO, rel)).read()
        tree = ast.parse(src)
        # enclosing function names
        owner = {}
        def mark(n, name):
            for c in ast.iter_child_nodes(n):
                nm = name
                if isinstance(c, (ast.FunctionDef, ast.ClassDef)):
                    nm = (name + '.' if name else '') + c.name
                owner[id(c)] = nm
                mark(c, nm)
        mark(tree, '')
        ss = sites(tree)
        by_mid = {}
        for n in ast.walk(tree):
            by_mid[n._mid] = n
        ss = [s for s in ss if owner.get(id(by_mid[s[0]]), '')]      # inside a function or class
        rnd.shuffle(ss)
        for mid, ln, kind, desc in ss[:a.per_file]:
            n = by_mid[mid]
            specs.append({'file': rel, 'mid': mid, 'line': ln, 'kind': kind, 'desc': desc, 'where': owner.get(id(n), ''),
                          'code': ast.unparse(n)[:100]})
    print(f"{len(specs)} mutants over {len(files)} files", flush=True)
    chunks = [(i, specs[i::a.jobs]) for i in range(a.jobs)]
    os.makedirs(os.path.dirname(a.out), exist_ok=True)
    t0 = time.time()
    with ProcessPoolExecutor(max_workers=a.jobs) as ex, open(a.out, 'w') as f:
        for res in ex.map(worker, chunks):
            for r in res:
                f.write(json.dumps(r) + '\n')
            f.flush()
    shutil.rmtree(REPO, ignore_errors=True)
    rs = [json.loads(l) for l in open(a.out)]
    surv = [r for r in rs if r['status'] == 'survived']
    caught = [r for r in surv if r.get('caught_by')]
    print(f"{len(rs)} mutants: {sum(r['status'] == 'killed' for r in rs)} killed by the tests, {len(surv)} survived; of the survivors {len(caught)} reported by a check, "
          f"{sum(bool(r.get('analysis_errors')) and not r.get('caught_by') for r in surv)} analysis-error only; wall {time.time() - t0:.0f}s")


if __name__ == '__main__':
    sys.exit(main())
