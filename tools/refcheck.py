#!/venv/bin/python
"""Run every property check against behaviour-preserving refactors: tools/refcheck.py <diff>...
Each diff is applied to a scratch worktree of /repo's HEAD (never /repo itself), `sa.checkall <worktree>` runs, the worktree is reset.
Every check must exit 0 (KNOWN-FINDING lines allowed): anything else is a false alarm of the machinery."""
import json, os, subprocess, sys
VERIF = os.path.dirname(os.path.dirname(os.path.abspath(__file__)))
WT = '/tmp/fggs-ref-wt'


def sh(cmd, cwd=None, timeout=1800):
    r = subprocess.run(cmd, shell=True, cwd=cwd, capture_output=True, text=True, timeout=timeout)
    return r.returncode, r.stdout + r.stderr


def main():
    suite = '--suite' in sys.argv
    diffs = [a for a in sys.argv[1:] if not a.startswith('--')]
    sh(f"git -C /repo worktree remove --force {WT}")
    sh(f"git -C /repo worktree add -f --detach {WT} HEAD")
    bad = 0
    try:
        for d in diffs:
            sh('git checkout -- .', cwd=WT)
            rc, out = sh(f"git apply {os.path.abspath(d)}", cwd=WT)
            if rc:
                # the diff was made against an earlier HEAD: merge it
                sh('git checkout -- .', cwd=WT)
                rc, out = sh(f"git apply --3way {os.path.abspath(d)}", cwd=WT)
                sh('git reset -q', cwd=WT)
            if rc:
                print(f"{d}: does not apply: {out.strip()[:200]}"); bad += 1; continue
            if suite:
                rc, out = sh(f"PYTHONPATH={WT} /venv/bin/python -m pytest -q -p no:cacheprovider 2>&1 | tail -1", cwd=WT)
                print(f"{d}: suite: {out.strip()}")
            rc, out = sh(f"/venv/bin/python -m sa.checkall {WT}", cwd=VERIF, timeout=900)
            line = [l for l in out.splitlines() if l.startswith('{')]
            if not line:
                print(f"{d}: checkall failed: {out[-400:]}"); bad += 1; continue
            res = json.loads(line[-1])
            nz = {p: r for p, r in res.items() if r['exit'] != 0}
            print(f"{d}: {'all 18 checks exit 0' if not nz else 'NON-ZERO: ' + ', '.join(f'{p}={r['exit']}' for p, r in nz.items())}")
            for p, r in nz.items():
                bad += 1
                for l in r['reports'][:4]: print('     ', p, l[:260])
    finally:
        sh(f"git -C /repo worktree remove --force {WT}")
    return 1 if bad else 0


if __name__ == '__main__':
    sys.exit(main())
