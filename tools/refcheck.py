#!/venv/bin/python
"""Run every property check against behaviour-preserving refactors: tools/refcheck.py [--jobs N] [--suite] <diff>...
Each diff is applied to a scratch worktree of /repo's HEAD (never /repo itself; one worktree per worker), `sa.checkall <worktree>`
runs, the worktree is reset and removed at the end.
Every check must exit 0 (KNOWN-FINDING lines allowed): anything else is a false alarm of the machinery."""
import json, os, subprocess, sys
from concurrent.futures import ThreadPoolExecutor
VERIF = os.path.dirname(os.path.dirname(os.path.abspath(__file__)))
WT = '/tmp/fggs-ref-wt'


def sh(cmd, cwd=None, timeout=1800):
    r = subprocess.run(cmd, shell=True, cwd=cwd, capture_output=True, text=True, timeout=timeout)
    return r.returncode, r.stdout + r.stderr


def one(d, wt, suite):
    lines = []; bad = 0
    sh('git checkout -- . && git clean -fdq', cwd=wt)
    rc, out = sh(f"git apply {os.path.abspath(d)}", cwd=wt)
    if rc:
        # the diff was made against an earlier HEAD: merge it
        sh('git checkout -- . && git clean -fdq', cwd=wt)
        rc, out = sh(f"git apply --3way {os.path.abspath(d)}", cwd=wt)
        sh('git reset -q', cwd=wt)
    if rc:
        return [f"{d}: does not apply: {out.strip()[:200]}"], 1
    if suite:
        rc, out = sh(f"PYTHONPATH={wt} /venv/bin/python -m pytest -q -p no:cacheprovider 2>&1 | tail -1", cwd=wt)
        lines.append(f"{d}: suite: {out.strip()}")
    rc, out = sh(f"/venv/bin/python -m sa.checkall {wt}", cwd=VERIF, timeout=900)
    line = [l for l in out.splitlines() if l.startswith('{')]
    if not line:
        return lines + [f"{d}: checkall failed: {out[-400:]}"], 1
    res = json.loads(line[-1])
    nz = {p: r for p, r in res.items() if r['exit'] != 0}
    lines.append(f"{d}: {'all 18 checks exit 0' if not nz else 'NON-ZERO: ' + ', '.join(f'{p}={r['exit']}' for p, r in nz.items())}")
    for p, r in nz.items():
        bad += 1
        for l in r['reports'][:4]: lines.append('      ' + p + ' ' + l[:260])
    return lines, bad


def main():
    suite = '--suite' in sys.argv
    args = sys.argv[1:]
    jobs = 8
    if '--jobs' in args:
        i = args.index('--jobs'); jobs = int(args[i + 1]); del args[i:i + 2]
    diffs = [a for a in args if not a.startswith('--')]
    jobs = max(1, min(jobs, len(diffs)))
    wts = [f"{WT}-{k}" for k in range(jobs)]
    for wt in wts:
        sh(f"git -C /repo worktree remove --force {wt}")
        sh(f"git -C /repo worktree add -f --detach {wt} HEAD")
    bad = 0
    try:
        def worker(k):
            out = []
            for d in diffs[k::jobs]:
                out.append((d, one(d, wts[k], suite)))
            return out
        with ThreadPoolExecutor(jobs) as ex:
            results = dict(x for part in ex.map(worker, range(jobs)) for x in part)
        for d in diffs:
            lines, b = results[d]
            bad += b
            print('\n'.join(lines))
    finally:
        for wt in wts:
            sh(f"git -C /repo worktree remove --force {wt}")
    return 1 if bad else 0


if __name__ == '__main__':
    sys.exit(main())
