#!/venv/bin/python
"""Confirm a seeded change produced by an independent sub-agent and record it under /verif/seeded/<id>/.

  tools/seed.py <ID> <property> <worktree> <patch.diff> <demo.py> --needs "<what it needs to manifest>"
  tools/seed.py --rerun <ID> [--skip-suite]     re-confirm and re-check a recorded change in a fresh scratch worktree
  tools/seed.py --rerun-all [--skip-suite]

Steps: (1) in the scratch worktree: demo passes on the clean tree; apply the patch; full test suite passes; demo fails;
revert; (2) apply the patch to /repo, run every property check (no evidence written), undo it straight afterwards;
(3) write patch.diff, demo.py and meta.json (what was run, which checks reported what).
"""
import argparse, json, os, shutil, subprocess, sys, time

VERIF = os.path.dirname(os.path.dirname(os.path.abspath(__file__)))
PROPS = ['C01', 'C02', 'C04', 'C05', 'C06', 'C07', 'C08', 'C09', 'C10', 'C11', 'C13', 'C14', 'C15', 'C16', 'C17', 'C18', 'C19', 'C20']


def sh(cmd, cwd=None, env=None, timeout=1800):
    e = dict(os.environ); e.update(env or {})
    r = subprocess.run(cmd, shell=True, cwd=cwd, env=e, capture_output=True, text=True, timeout=timeout)
    return r.returncode, (r.stdout + r.stderr)


SCRATCH = '/tmp/fggs-seed-wt'


def scratch_worktree() -> str:
    if not os.path.isdir(SCRATCH):
        sh(f"git -C /repo worktree add -f --detach {SCRATCH} HEAD")
    else:
        sh('git checkout -q --detach ' + subprocess.run('git -C /repo rev-parse HEAD', shell=True, capture_output=True, text=True).stdout.strip(), cwd=SCRATCH)
        sh('git checkout -- .', cwd=SCRATCH)
    return SCRATCH


def recheck_all(jobs: int) -> int:
    """Re-run every property check against every recorded change (demo and suite confirmations are kept as recorded): one scratch
    worktree of /repo's HEAD per worker, patch applied there, `sa.checkall <worktree>`; /repo itself is not touched."""
    from concurrent.futures import ThreadPoolExecutor
    ids = sorted(d for d in os.listdir(os.path.join(VERIF, 'seeded')) if os.path.exists(os.path.join(VERIF, 'seeded', d, 'meta.json')))
    wts = [f"{SCRATCH}-{k}" for k in range(jobs)]
    for wt in wts:
        sh(f"git -C /repo worktree remove --force {wt}")
        sh(f"git -C /repo worktree add -f --detach {wt} HEAD")

    def worker(k):
        out = []
        for i in ids[k::jobs]:
            d = os.path.join(VERIF, 'seeded', i)
            m = json.load(open(os.path.join(d, 'meta.json')))
            sh('git checkout -- . && git clean -fdq', cwd=wts[k])
            rc, o = sh(f"git apply {os.path.join(d, 'patch.diff')}", cwd=wts[k])
            if rc:
                out.append((i, None, f"patch does not apply: {o[:200]}")); continue
            rc, o = sh(f"/venv/bin/python -m sa.checkall {wts[k]}", cwd=VERIF, timeout=900)
            line = [l for l in o.splitlines() if l.startswith('{')]
            results = json.loads(line[-1]) if line else {p: {'exit': 2, 'reports': ['checkall produced no output: ' + o[-300:]]} for p in PROPS}
            m['caught_by'] = [p for p, r in results.items() if r['exit'] == 1]
            m['analysis_errors'] = [p for p, r in results.items() if r['exit'] == 2]
            m['target_property_caught'] = m['breaks_property'] in m['caught_by']
            m['reports'] = {p: r['reports'] for p, r in results.items() if r['exit'] != 0}
            m['checks_run'] = 'every property check (quick) on a scratch worktree of /repo HEAD with patch.diff applied (tools/seed.py --recheck-all)'
            m['recorded_at'] = time.strftime('%Y-%m-%d %H:%M')
            json.dump(m, open(os.path.join(d, 'meta.json'), 'w'), indent=1)
            out.append((i, m, None))
        return out
    try:
        with ThreadPoolExecutor(jobs) as ex:
            res = sorted(x for part in ex.map(worker, range(jobs)) for x in part)
    finally:
        for wt in wts:
            sh(f"git -C /repo worktree remove --force {wt}")
    unc = [i for i, m, e in res if m is not None and not m['caught_by']]
    errs = [(i, e) for i, m, e in res if e]
    print(f"{len(res)} recorded changes; caught {sum(1 for i, m, e in res if m and m['caught_by'])}; not caught: {' '.join(unc)}")
    for i, m, e in res:
        if m and m['analysis_errors'] and not m['caught_by']:
            print(f"  {i}: analysis errors only: {m['analysis_errors']}")
    for i, e in errs:
        print(f"  {i}: {e}")
    return 1 if errs else 0


def main():
    if len(sys.argv) > 1 and sys.argv[1] == '--recheck-all':
        return recheck_all(int(sys.argv[sys.argv.index('--jobs') + 1]) if '--jobs' in sys.argv else 8)
    if len(sys.argv) > 1 and sys.argv[1] in ('--rerun', '--rerun-all'):
        ids = sorted(d for d in os.listdir(os.path.join(VERIF, 'seeded')) if os.path.exists(os.path.join(VERIF, 'seeded', d, 'meta.json'))) if sys.argv[1] == '--rerun-all' else [sys.argv[2]]
        rc = 0
        for i in ids:
            d = os.path.join(VERIF, 'seeded', i)
            m = json.load(open(os.path.join(d, 'meta.json')))
            wt = scratch_worktree()
            shutil.copy(os.path.join(d, 'demo.py'), os.path.join(wt, '_demo.py'))
            shutil.copy(os.path.join(d, 'patch.diff'), os.path.join(wt, '_patch.diff'))
            argv = [i, m['breaks_property'], wt, os.path.join(wt, '_patch.diff'), os.path.join(wt, '_demo.py'), '--needs', m['needs_to_manifest']] + (['--skip-suite'] if '--skip-suite' in sys.argv else [])
            print('==', i)
            rc |= run(argv, keep=m)
        sh(f"git -C /repo worktree remove --force {SCRATCH}")
        return rc
    return run(sys.argv[1:])


def run(argv, keep=None):
    ap = argparse.ArgumentParser()
    ap.add_argument('id'); ap.add_argument('prop'); ap.add_argument('worktree'); ap.add_argument('patch'); ap.add_argument('demo')
    ap.add_argument('--needs', default='')
    ap.add_argument('--skip-suite', action='store_true')
    a = ap.parse_args(argv)
    wt = a.worktree
    env = {'PYTHONPATH': wt}
    log = {}
    sh('git checkout -- fggs bin', cwd=wt)
    rc, out = sh(f"/venv/bin/python {a.demo}", cwd=wt, env=env)
    log['demo_on_clean_tree'] = {'exit': rc, 'tail': out.strip().splitlines()[-3:]}
    rc_a, out_a = sh(f"git apply {a.patch}", cwd=wt)
    if rc_a != 0:
        print('patch does not apply in worktree:', out_a); return 2
    if not a.skip_suite:
        rc, out = sh('/venv/bin/python -m pytest -q -p no:cacheprovider --timeout=900 2>&1 | tail -3', cwd=wt, env=env)
        log['test_suite_with_change'] = out.strip().splitlines()[-2:]
    rc, out = sh(f"/venv/bin/python {a.demo}", cwd=wt, env=env)
    log['demo_with_change'] = {'exit': rc, 'tail': out.strip().splitlines()[-3:]}
    sh('git checkout -- fggs bin', cwd=wt)
    confirmed = log['demo_on_clean_tree']['exit'] == 0 and log['demo_with_change']['exit'] != 0 and \
        (a.skip_suite or any('passed' in l and 'failed' not in l for l in log.get('test_suite_with_change', [])))
    print(json.dumps(log, indent=1))
    if not confirmed:
        print('NOT CONFIRMED'); return 1
    # ---- run the checks against /repo with the change applied
    rc, out = sh(f"git -C /repo apply {a.patch}")
    if rc != 0:
        print('patch does not apply to /repo:', out); return 2
    results = {}
    try:
        rc, out = sh("/venv/bin/python -m sa.checkall /repo", cwd=VERIF, timeout=900)
        line = [l for l in out.splitlines() if l.startswith('{')]
        results = json.loads(line[-1]) if line else {p: {'exit': 2, 'reports': ['checkall produced no output: ' + out[-300:]]} for p in PROPS}
    finally:
        sh('git -C /repo checkout -- .')
    st, _ = sh('git -C /repo status --short -- fggs bin')
    caught = [p for p, r in results.items() if r['exit'] == 1]
    errors = [p for p, r in results.items() if r['exit'] == 2]
    d = os.path.join(VERIF, 'seeded', a.id)
    os.makedirs(d, exist_ok=True)
    if os.path.abspath(a.patch) != os.path.abspath(os.path.join(d, 'patch.diff')) and not os.path.basename(a.patch).startswith('_'):
        shutil.copy(a.patch, os.path.join(d, 'patch.diff'))
        shutil.copy(a.demo, os.path.join(d, 'demo.py'))
    if a.skip_suite and keep and 'test_suite_with_change' in keep.get('confirmation', {}):
        log['test_suite_with_change'] = keep['confirmation']['test_suite_with_change']
    meta = {'id': a.id, 'breaks_property': a.prop, 'needs_to_manifest': a.needs, 'source': 'independent sub-agent given only the property text and a scratch worktree',
            'confirmation': log, 'checks_run': 'every property check (quick) on /repo with patch.diff applied, then git -C /repo checkout -- .',
            'caught_by': caught, 'analysis_errors': errors, 'target_property_caught': a.prop in caught,
            'reports': {p: r['reports'] for p, r in results.items() if r['exit'] != 0}, 'recorded_at': time.strftime('%Y-%m-%d %H:%M')}
    with open(os.path.join(d, 'meta.json'), 'w') as f:
        json.dump(meta, f, indent=1)
    print('caught by:', caught, 'errors:', errors)
    for p in caught + errors:
        for l in results[p]['reports'][:3]: print('   ', p, l[:200])
    return 0


if __name__ == '__main__':
    sys.exit(main())
