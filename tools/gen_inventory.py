#!/venv/bin/python
"""Write sa/baseline_functions.json: the qualified names of every function of the library as of /repo's current tree.
Run after a `fix:` commit that adds or renames a function."""
import ast, json, os, subprocess, sys
sys.path.insert(0, os.path.dirname(os.path.dirname(os.path.abspath(__file__))))
from sa.inline import function_defs, INVENTORY_FILE
from sa.callstyle import baseline_call_style, module_globals
repo = sys.argv[1] if len(sys.argv) > 1 else '/repo'
names = []
trees = {}
globs = []
for pkg in ('fggs', 'bin'):
    d = os.path.join(repo, pkg)
    for fn in sorted(os.listdir(d)):
        if fn.endswith('.py'):
            mod = f"{pkg}.{fn[:-3]}" if fn != '__init__.py' else pkg
            tree = ast.parse(open(os.path.join(d, fn)).read())
            names += [f"{mod}:{q}" for q in function_defs(tree)]
            trees[mod] = tree
            globs += [f"{mod}:{g}" for g in module_globals(tree)]
head = subprocess.run(['git', '-C', repo, 'rev-parse', 'HEAD'], capture_output=True, text=True).stdout.strip()
json.dump({'repo_head': head, 'functions': sorted(names), 'globals': sorted(set(globs)), 'call_style': baseline_call_style(trees)}, open(INVENTORY_FILE, 'w'), indent=0)
print(len(names), 'functions ->', INVENTORY_FILE)
