#!/venv/bin/python
"""Re-create mutants recorded in mutation/results.jsonl and run every check on them.
  tools/mutant_check.py file.py:LINE[:kind] ...   (all recorded survivors at that line)"""
import ast, json, os, shutil, subprocess, sys
sys.path.insert(0, os.path.dirname(os.path.abspath(__file__)))
import mutate
VERIF = os.path.dirname(os.path.dirname(os.path.abspath(__file__)))
SURVEYS = [('results.jsonl', '255d99f'), ('results2.jsonl', 'ca8c96a'), ('results3.jsonl', '37b2fae')]      # (file, commit the survey ran on)
rs = []
for fn_, base in SURVEYS:
    pth = os.path.join(VERIF, 'mutation', fn_)
    if os.path.exists(pth):
        for l in open(pth):
            r_ = json.loads(l); r_['base'] = base; rs.append(r_)
wdir = '/tmp/fggs-mut-one'
for spec in sys.argv[1:]:
    parts = spec.split(':')
    fn, line, kind = parts[0], int(parts[1]), (parts[2] if len(parts) > 2 else None)
    for r in rs:
        if r['file'].endswith(fn) and r['line'] == line and (kind is None or r['kind'] == kind) and r['status'] == 'survived':
            shutil.rmtree(wdir, ignore_errors=True)
            shutil.copytree('/repo', wdir, ignore=shutil.ignore_patterns('.git', '*.egg-info', '__pycache__', 'docs', 'images'))
            src = subprocess.run(['git', '-C', '/repo', 'show', r['base'] + ':' + r['file']], capture_output=True, text=True).stdout   # the survey ran on 255d99f
            open(os.path.join(wdir, r['file']), 'w').write(ast.unparse(mutate.apply(ast.parse(src), r['mid'], r['kind'])))
            out = subprocess.run(['/venv/bin/python', '-m', 'sa.checkall', wdir], cwd=VERIF, capture_output=True, text=True).stdout
            line_ = [l for l in out.splitlines() if l.startswith('{')]
            d = json.loads(line_[-1]) if line_ else {}
            nz = {p: v for p, v in d.items() if v['exit'] != 0}
            print(f"{r['file']}:{r['line']} {r['where']} [{r['desc']}] {r['code'][:50]!r} -> " + (', '.join(f"{p}={v['exit']}" for p, v in nz.items()) or 'not reported'))
            for p, v in nz.items():
                for l in v['reports'][:2]: print('      ', p, l[:200])
shutil.rmtree(wdir, ignore_errors=True)
