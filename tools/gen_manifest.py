#!/venv/bin/python
"""Regenerates /verif/MANIFEST.json from the table below (run after adding a property module)."""
import json, os, sys
ROOT = os.path.dirname(os.path.dirname(os.path.abspath(__file__)))
sys.path.insert(0, ROOT)

NOTE = ("Trusted base: the CPython `ast` parser; the closed-world assumption over fggs/ and bin/ (no dynamic attribute access "
        "or getattr, none present); the per-rule idiom tables listed in DESIGN.md; documented contracts of torch / "
        "torch_semiring_einsum cited in DESIGN.md section 2. Decides only the structural clauses named; the numerical "
        "behaviour is not decided.")

CLAIMED = {
    'C01': ('multiplier-exactly-once count on every rule-product escape (abstract count 0/1/many); guard truth table of the multiplier; '
            'zero annihilation through both operand representations by abstract interpretation of Semiring.mul; edgeless externals removed and restored node-by-node (filter and restore comprehension pair each node with its own size)',
            'abstract counting + guard truth tables + abstract interpretation over float classes'),
    'C02': ('budget-must-warn on every kmax-bounded loop (path rule with counter facts); `linear` raises for >=2 in-component edges '
            '(guards evaluated on abstract counts); per-SCC method rewrites are constant and guarded; dispatch exhaustive with raising fall-through; star(one) by abstract interpretation; component-local state of the per-SCC loops; contributions of several rules to one block are accumulated, and the iterate a sweep builds is read by no product of the same sweep',
            'CFG path rule with interval facts; guard evaluation on abstract values; dispatch-table agreement'),
    'C04': ('totality of partial sequence operations in viterbi\'s call graph under emptiness guards; assignment key sources cover rule.rhs.nodes(); '
            'producer/consumer enumeration order of back-pointers agrees; pointer width agreement; rule index recorded whenever the running maximum is rebound; component-local state of the per-SCC loop; no negative size literal to PatternedTensor.expand; F_viterbi hands the iterate under construction to no product of the same sweep',
            'partial-on-empty dataflow; key-source coverage; iteration-source agreement'),
    'C05': ('method parameter forwarded along factorize_fgg -> factorize_hrg -> factorize_rule -> tree_decomposition; fresh-name protocol '
            '(complete registry seeds, add-before-reuse); carry-over of factors/domains/start/edges; edge-placement guard truth table; caller-supplied avoid set honoured and seeded with the rule\'s own lhs; primal-graph vertices and cliques; child recursion iff not the parent bag',
            'parameter-forwarding dataflow; fresh-name typestate; guard truth tables'),
    'C06': ('element-wise wrapper homomorphism: the function applied to `default` equals the function applied to `physical` and the torch op of that name on every float class '
            '(abstract interpretation of the method bodies); identities/defaults of commutative and binary(...) ops; in-place discipline and no-aliasing of self.physical by effect analysis; derived state (caches) follows its sources; defaults wrapped into tensors keep the dtype; the element-wise callback of binary/commutative never gets the raw physical tensors of both operands; slices computed from a dim parameter see it non-negative',
            'abstract interpretation over float classes; effect analysis'),
    'C07': ('einsum callbacks agree with the semiring mul on every class pair; operands default_to(zero) before unification and results default to from_int(0); '
            'mv/mm index strings; pointer trailing dimension agreement over all returns; co-indexing loop visits every (axis, index) position; stride-0 reduction only for sum-free equations',
            'abstract interpretation over float classes; def-use rules'),
    'C08': ('semiring laws on the abstract carrier (exhaustive over float classes, exact at special elements) for the four semirings, '
            'evaluated from the ASTs of the semiring methods (incl. star(x) = 1 + x*star(x) on every class); representation agreement through PatternedTensor wrappers',
            'abstract interpretation over a finite partition of the extended reals'),
    'C09': ('solver entry points have no write effect on their arguments (ownership/effect analysis); thunks return fresh tensors; LU result accepted only under both acceptance tests, '
            'consumed buffers never reused on the fallback path; every `.T` in multi_solve/multi_mv applied to a value of rank two (rank inference with reaching definitions)',
            'storage-ownership effect analysis + typestate on the CFG'),
    'C10': ('every connected component contributes to acb\'s result and the loop never returns early; dispatch table agreement with README/bin; bound helpers copy before eliminating; the reported width is updated before every vertex enters the returned order; in tree_decomposition_from_order every new bag is linked to an existing one on all paths once other bags exist (one tree, not a forest); every running maximum of a len() in factorize.py measures a neighbour set (degree), not a bag',
            'accumulate-all path rule; dispatch-table agreement'),
    'C11': ('assert / __debug__ purity (no effect, binds nothing read later); option plumbing from bin/sum_product.py and between forward/backward; multiplier at most once on the j_precompute path',
            'effect analysis of asserts; option-forwarding dataflow; abstract counting'),
    'C13': ('MultiTensor.allclose reaches a comparison for keys in S&O, S-O and O-S in both tolerance branches; shouldStop resolves to a function with that coverage; False returned only after a failed comparison and never from comparing a shared block with zero; reference operand of isclose',
            'key-region coverage by guard evaluation'),
    'C14': ('writer/reader key agreement for the JSON formats; discriminator exhaustiveness for Domain/Factor subclasses; JSON-derived indices range-checked on both sides (also inside helpers); writers use the dense interface; constructor arguments not swapped',
            'writer/reader shape agreement; guard evaluation on abstract index values'),
    'C15': ('type check precedes every write in replace_edge; host nodes/edges constructed with fresh ids; every replacement node/edge and every child derivation contributes; what enters the host is a newly constructed Node/Edge on every path; derive assigns every rhs node',
            'validate-before-mutate path rule; fresh-id rule; accumulate-all'),
    'C16': ('validate-before-mutate over the mutators of Graph/HRG/FactorGraph/FGG; registry hits verified; copy completeness (attributes and element-wise loops) and independence (deep copies of tables with mutable values); __eq__/__ne__ truth tables; Edge typing established in Edge.__init__; who-may-write registries; value classes compare by all fields; derived state follows its sources; Iterable parameters consumed once; builtin KeyError sources count as may-raise',
            'CFG path rules (raise-after-write), field-coverage and who-may-write queries over the class model'),
    'C17': ('conjoin_rules called only under conjoinable(); fresh-name protocol for paired nonterminals; ValueError raised exactly for terminal/terminal conflicts; conjoinable() decides by nodes, ordered attachments and ordered externals; paired rule shape',
            'guard dominance; fresh-name typestate; guard truth table'),
    'C18': ('public queries have no write effect on parameter roots; every tensor in-place sink in their call graphs writes fresh or owned storage; clone results share no storage with self; no mutable default argument that is written or handed out; no module-level mutable written; no decorator that keeps state between calls; FGGDerivation.derive among the pure queries',
            'interprocedural storage-ownership and effect analysis'),
    'C19': ('nonterminal_graph vertices come from the complete nonterminal registry and an edge is added for every nonterminal rhs edge of every rule; scc starts a visit from every unvisited vertex; consumers iterate the result in order and store every label; Tarjan low-link truth table; stack / on-stack set mirrored; component-local state of the consumers\' loops',
            'vertex/edge-source coverage; iteration-source rules'),
    'C20': ('key-kind agreement on name-keyed tables (domains/factors/_node_labels/_edge_labels); every store to those tables dominated by the checks the property names, each ending in raise ValueError; equality of domains/factors as truth tables over class and content (no storage layout), base constructors run; RangeDomain.contains on small integers',
            'key-kind inference; guarded-store dominance on the CFG'),
}

NA = {
    'C03': 'numerical identity (dZ/dw for every grammar and cotangent): the backward pass is arithmetic on runtime tensors; no clause is a shape-of-code fact beyond the multiplier count decided under C01/C11',
    'C12': 'relational two-run property whose only source-visible ingredient (dict/set iteration order) is pervasive and benign under the stated tolerance; any static rule would be vacuous or flag behaviour-preserving code',
}


def main():
    have = {f[:-3].upper() for f in os.listdir(os.path.join(ROOT, 'sa', 'props')) if f.startswith('c') and f.endswith('.py')}
    props = [json.loads(l) for l in open(os.path.join(ROOT, 'properties.jsonl'))]
    checks, na = [], []
    for p in props:
        pid = p['id']
        if pid in CLAIMED and pid in have:
            text, tech = CLAIMED[pid]
            checks.append({
                'property_id': pid,
                'quick_cmd': f"cd /verif && /venv/bin/python -m sa.check {pid} --tier quick",
                'thorough_cmd': f"cd /verif && /venv/bin/python -m sa.check {pid} --tier thorough",
                'evidence_file': f"/verif/evidence/{pid}.json",
                'replay_cmd_template': f"cd /verif && /venv/bin/python -m sa.check {pid} --replay {{path}}",
                'engine': 'sa',
                'level_claimed': {'category': 'other',
                                  'text': 'Static analysis; decides these structural clauses (necessary conditions of the stated behaviour) on every path / call site / abstract value, not the behaviour as a whole: ' + text,
                                  'design_ref': f"DESIGN.md section 4, {pid}"},
                'level_note': NOTE,
                'technique': 'static analysis: ' + tech,
            })
        elif pid in NA:
            na.append({'property_id': pid, 'reason': NA[pid]})
        else:
            na.append({'property_id': pid, 'reason': 'static check not (yet) built in this round; see DESIGN.md section 4 for the planned clauses'})
    m = {
        'version': 1,
        'setup_cmd': 'cd /verif && /venv/bin/python -m compileall -q sa',
        'hooks': {'guard': 'FGGS_VERIF', 'enable': 'none needed: the checks parse /repo sources and never run them; no instrumentation commits exist',
                  'baseline_off_cmd': 'cd /repo && /venv/bin/python -m pytest -ra -q -p no:cacheprovider --timeout=900 --continue-on-collection-errors',
                  'source_commits': [], 'add_only': True},
        'engines': [{'name': 'sa', 'path': '/verif/sa', 'serves_properties': [c['property_id'] for c in checks],
                     'kind_free_text': 'repository-specific static analyser on Python ast: whole-program model, per-function CFG, guard truth tables, abstract interpretation over float classes, ownership/effect analysis'}],
        'checks': checks,
        'not_applicable': na,
        'notes': 'Exit codes: 0 ok / only known findings; 1 VIOLATION; 2 ANALYSIS-ERROR (anchor vanished or idiom not recognised; never a verdict). See DESIGN.md.',
    }
    with open(os.path.join(ROOT, 'MANIFEST.json'), 'w') as f:
        json.dump(m, f, indent=1)
    print('claimed:', [c['property_id'] for c in checks])
    print('n/a    :', [x['property_id'] for x in na])


if __name__ == '__main__':
    main()
